//! C12 — instancing a variable font evaluates the OpenType variation model.
//!
//! Bounded exhaustive exploration: synthetic TrueType variable fonts (abstract model `otmodel::varenc::VarFont`,
//! encoded by the independent encoders of `otmodel::varenc`) x user coordinate tuples. Every case runs the real
//! `allsorts::variations::instance`, the output is decoded with the independent glyf / hmtx reader and compared
//! with the exact (rational arithmetic) evaluation of the variation model: region scalars, sum of scalar * delta,
//! inferred deltas per contour, phantom points => advance / left side bearing, HVAR, MVAR.
//!
//! Eight families, each a plain product of small index ranges (`dims`); `gen(family, idx)` maps one index vector to one
//! model font and its coordinate menu, so a witness is replayed from (family, idx, user tuple) without the explorer:
//!   iup       glyph geometry x referenced point subsets x delta patterns           (inferred deltas)
//!   regions1  1 axis: sets of 1..3 regions x encoding profiles x axis kinds x avar (scalars, shared/embedded peaks, shared/private points)
//!   regions2  2 axes: sets of 1..2 (thorough 3) regions x encoding profiles
//!   packing   300-point glyph: delta fill patterns x every packed delta run form x packed point number forms
//!   metrics   phantom point deltas x HVAR (direct, index maps) x MVAR x numberOfHMetrics
//!   invalid1  regions that the scalar algorithm declares invalid (start > peak, peak > end, start < 0 < end with peak != 0)
//!   extreme   advance widths that are valid uint16 values but exceed the int16 range of a phantom point coordinate
//!   cvar      cvt tables of 0/1/3/40/300 entries x region sets on 1 and 2 axes x CVT index selections (all, first, last,
//!             sparse, every, first+last) x shared/private numbers x delta fills x packed delta forms; plus cvar without
//!             cvt and cvar pointing beyond the cvt
//!   anchored  composites with a component placed by point numbers (byte / word form; first, middle, last) among xy-offset
//!             components, with scale / x-y scale / 2x2 transforms and instructions: the component records must survive
//!   nested    composites of composites (depth 2 and 3), parents before and after their children in glyph order, with and
//!             without HVAR: flattened extent => glyf header bounding box and left side bearing
//! thorough adds, for 1-axis fonts, all 32769 normalised coordinate values.
//!
//! Disagreements are keyed by class. A disagreement is attributed to a documented deviation K (`C12:deviation:K`)
//! only if the whole output of that evaluation equals the reference model run with deviation switch K on.

use allsorts::binary::read::ReadScope;
use allsorts::font_data::FontData;
use allsorts::tables::Fixed;
use allsorts::Font;
use mcx::{guard, Ctx, H};
use otmodel::tag;
use otmodel::varenc::*;
use rayon::prelude::*;
use serde_json::{json, Value};

const ONE: i16 = 16384;
/// delta menu of the design
const M: [i16; 13] = [0, 1, -1, 63, -63, 64, -64, 127, -127, 128, -128, 300, -300];
/// tolerance: one font unit, plus 2^-10 for implementations that keep "at least 16 fractional bits"
const TOL: (i128, i128) = (1025, 1024);

const FAMILIES: [&str; 10] = ["iup", "regions1", "regions2", "packing", "metrics", "invalid1", "extreme", "nested", "cvar", "anchored"];

// ------------------------------------------------------------------------------------------------ coordinates

#[derive(Clone, Copy, Debug, PartialEq, Eq, PartialOrd, Ord)]
enum Coord {
    BeyondMin,
    /// normalised value in F2Dot14 units that the user value must hit exactly
    N(i32),
    BeyondMax,
}

/// axis kinds: 0 = -1..0..1, 1 = -16384..0..16384, 2 = 0..0..1 (values below the default clamp to it)
fn axis(kind: usize, i: usize) -> AxisDef {
    let t = tag(b"TSTA") + i as u32;
    match kind {
        0 => AxisDef { tag: t, min: -65536, def: 0, max: 65536 },
        1 => AxisDef { tag: t, min: -(16384 << 16), def: 0, max: 16384 << 16 },
        _ => AxisDef { tag: t, min: 0, def: 0, max: 65536 },
    }
}

fn user_of(kind: usize, c: Coord) -> i32 {
    match (kind, c) {
        (1, Coord::N(n)) => n << 16,
        (1, Coord::BeyondMax) => i32::MAX,
        (1, Coord::BeyondMin) => i32::MIN,
        (_, Coord::N(n)) => 4 * n,
        (_, Coord::BeyondMax) => 65536 + 0x4000,
        (_, Coord::BeyondMin) => -65536 - 0x4000,
    }
}

/// landmark coordinates of a set of 1-axis regions: every start / peak / end +-1 unit, thirds and midpoints, 0, +-1
fn landmarks(regions: &[(i16, i16, i16)]) -> Vec<Coord> {
    let mut v: Vec<i32> = vec![0, 1, -1, 16384, 16383, -16384, -16383];
    for r in regions {
        let (s, p, e) = (r.0 as i32, r.1 as i32, r.2 as i32);
        for x in [s, p, e] {
            v.extend([x - 1, x, x + 1]);
        }
        v.push((s + p) / 2);
        v.push((p + e) / 2);
        v.push((2 * s + p) / 3);
        v.push((p + 2 * e) / 3);
    }
    v.retain(|x| (-16384..=16384).contains(x));
    v.sort();
    v.dedup();
    let mut out = vec![Coord::BeyondMin];
    out.extend(v.into_iter().map(Coord::N));
    out.push(Coord::BeyondMax);
    out
}

// ------------------------------------------------------------------------------------------------ case generation

struct Case {
    font: VarFont,
    /// axis kind per axis (decides how a normalised coordinate is turned into a user value)
    kinds: Vec<usize>,
    /// coordinate menu: one entry per evaluation
    coords: Vec<Vec<Coord>>,
    /// HVAR deliberately disagrees with the phantom point deltas: either source is accepted
    hvar_inconsistent: bool,
    /// metrics beyond the int16 range (family `extreme`): findings are keyed separately
    extreme: bool,
}

fn pt(x: i16, y: i16, on: bool) -> Pt {
    Pt { x, y, on }
}

fn tuple(peak: Vec<i16>, inter: Option<(Vec<i16>, Vec<i16>)>, points: PointSel, deltas: Vec<(i16, i16)>) -> TupleVar {
    TupleVar { peak, inter, points, deltas, embed_peak: true, private_points: true, pt_pack: PtPack::default(), delta_pack: DeltaPack::default() }
}

fn empty_glyph(advance: u16) -> GlyphDef {
    GlyphDef { shape: Shape::Empty, advance, lsb: 0 }
}

fn base_font(axes: Vec<AxisDef>, glyphs: Vec<GlyphDef>, gvar: Vec<Option<GlyphVar>>) -> VarFont {
    VarFont { axes, avar: None, glyphs, gvar, gvar_long_offsets: true, gvar_shared_prefix: vec![], hvar: None, mvar: None, num_h_metrics: None, cvt: None, cvar: None, vertical: false }
}

// ---- family iup

const IUP_MENU: [i16; 4] = [0, 10, 50, 100];

fn iup_shape(si: usize) -> Option<Vec<Vec<Pt>>> {
    let seq = |n: usize, mut code: usize| -> Vec<Vec<Pt>> {
        let mut k = Vec::new();
        for _ in 0..n {
            k.push(code % 4);
            code /= 4;
        }
        let pts = (0..n).map(|i| pt(IUP_MENU[k[i]], IUP_MENU[(k[(i + 1) % n] + 2 * i) % 4], i % 2 == 0)).collect();
        vec![pts]
    };
    if si < 64 {
        return Some(seq(3, si));
    }
    if si < 320 {
        return Some(seq(4, si - 64));
    }
    Some(match si - 320 {
        // coincident neighbours
        0 => vec![vec![pt(0, 0, true), pt(10, 50, true), pt(10, 50, false), pt(50, 100, true), pt(100, 0, true)]],
        1 => vec![vec![pt(0, 0, true), pt(10, 10, true), pt(10, 10, true), pt(50, 50, false), pt(100, 100, true), pt(50, 0, true)]],
        // two contours
        2 => vec![vec![pt(0, 0, true), pt(100, 0, true), pt(50, 100, true)], vec![pt(10, 10, true), pt(50, 10, false), pt(10, 50, true)]],
        3 => vec![vec![pt(50, 50, true)], vec![pt(0, 0, true), pt(100, 10, true), pt(10, 100, true)]],
        4 => vec![vec![pt(0, 100, true), pt(100, 0, true)], vec![pt(10, 10, true), pt(50, 10, true), pt(50, 50, false), pt(10, 50, true)]],
        5 => vec![vec![pt(0, 0, true), pt(100, 0, false), pt(100, 100, true), pt(0, 100, false)], vec![pt(50, 10, true), pt(10, 50, true)]],
        _ => return None,
    })
}
const IUP_SHAPES: usize = 326;

fn iup_delta(pat: usize, j: usize) -> (i16, i16) {
    match pat {
        0 => (64, -64),
        1 => (M[(1 + 2 * j) % 13], M[(4 + 3 * j) % 13]),
        2 => {
            if j % 2 == 0 {
                (300, -300)
            } else {
                (-300, 300)
            }
        }
        3 => [(127, 128), (-128, -127), (0, 1), (-1, 0)][j % 4],
        _ => (63, M[(5 * j + 2) % 13]),
    }
}

fn gen_iup(idx: &[usize]) -> Option<Case> {
    let contours = iup_shape(idx[0])?;
    let n: usize = contours.iter().map(|c| c.len()).sum();
    let (s, ph, pat) = (idx[1], idx[2], idx[3]);
    if s >= (1 << n) || (s == 0 && ph != 0) {
        return None;
    }
    let points = if s == 0 {
        PointSel::All
    } else {
        let mut l: Vec<u16> = (0..n).filter(|i| s & (1 << i) != 0).map(|i| i as u16).collect();
        match ph {
            1 => l.extend([n as u16, n as u16 + 1]),
            2 => l.extend((n..n + 4).map(|i| i as u16)),
            _ => {}
        }
        PointSel::List(l)
    };
    let k = match &points {
        PointSel::All => n + 4,
        PointSel::List(l) => l.len(),
    };
    let deltas = (0..k).map(|j| iup_delta(pat, j)).collect();
    let xmin = contours.iter().flatten().map(|p| p.x).min().unwrap();
    let g1 = GlyphDef { shape: Shape::Simple(contours), advance: 1500, lsb: xmin - if pat % 2 == 1 { 7 } else { 0 } };
    let gv = GlyphVar { tuples: vec![tuple(vec![ONE], None, points, deltas)], shared_points: None, shared_pt_pack: PtPack::default() };
    let font = base_font(vec![axis(0, 0)], vec![empty_glyph(600), g1], vec![None, Some(gv)]);
    let coords = [Coord::N(0), Coord::N(1), Coord::N(4096), Coord::N(5461), Coord::N(8192), Coord::N(12288), Coord::N(16383), Coord::N(16384), Coord::BeyondMax, Coord::N(-8192)];
    Some(Case { font, kinds: vec![0], coords: coords.iter().map(|c| vec![*c]).collect(), hvar_inconsistent: false, extreme: false })
}

// ---- standard glyph set and gvar builder shared by regions1 / regions2

fn std_glyphs() -> Vec<GlyphDef> {
    vec![
        empty_glyph(600),
        GlyphDef { shape: Shape::Simple(vec![vec![pt(0, 0, true), pt(100, 0, false), pt(100, 100, true), pt(0, 50, true)]]), advance: 3000, lsb: 0 },
        GlyphDef {
            shape: Shape::Simple(vec![vec![pt(10, 10, true), pt(50, 10, true), pt(50, 50, false)], vec![pt(-20, 0, true), pt(100, 100, true), pt(10, 50, true)]]),
            advance: 3100,
            lsb: -25,
        },
        GlyphDef { shape: Shape::Composite(vec![Comp { gid: 1, dx: 10, dy: 20 }, Comp { gid: 2, dx: 200, dy: -130 }]), advance: 3200, lsb: 10 },
        empty_glyph(3300),
    ]
}

#[derive(Clone, Copy, PartialEq, Eq, Debug)]
enum PMode {
    PrivAll,
    PrivList,
    Shared,
}

/// encoding profile p, tuple k -> (embedded peak?, point number mode); and the glyph's shared point selection
fn profile(p: usize, k: usize) -> (bool, PMode) {
    match p % 6 {
        0 => (true, PMode::PrivAll),
        1 => (false, PMode::PrivList),
        2 => (k % 2 == 0, PMode::Shared),
        3 => (false, if k == 1 { PMode::PrivList } else { PMode::Shared }),
        4 => (true, if k == 0 { PMode::Shared } else { PMode::PrivAll }),
        _ => (k % 2 == 1, [PMode::PrivList, PMode::Shared, PMode::PrivAll][k % 3]),
    }
}
fn profile_shared_all(p: usize) -> bool {
    p % 6 == 3
}

fn list_for(n: usize, k: usize) -> Vec<u16> {
    (0..n + 4).filter(|i| (i + k) % 2 == 0 || *i == n + 1).map(|i| i as u16).collect()
}
fn shared_list(n: usize) -> Vec<u16> {
    (0..n + 4).filter(|i| i % 3 != 1 || *i == n).map(|i| i as u16).collect()
}

type RegionSpec = (Vec<i16>, Option<(Vec<i16>, Vec<i16>)>);

/// gvar data of one glyph for a list of regions under encoding profile `p`; `ridx` = menu index of each region
fn glyph_var(g: usize, n: usize, regions: &[RegionSpec], ridx: &[usize], p: usize, modes: Option<&[(bool, PMode)]>) -> GlyphVar {
    let mut tuples = Vec::new();
    let mut uses_shared = false;
    let shared_sel = if profile_shared_all(p) { PointSel::All } else { PointSel::List(shared_list(n)) };
    for (k, (peak, inter)) in regions.iter().enumerate() {
        let (embed, mode) = match modes {
            Some(m) => m[k],
            None => profile(p, k),
        };
        let points = match mode {
            PMode::PrivAll => PointSel::All,
            PMode::PrivList => PointSel::List(list_for(n, k)),
            PMode::Shared => {
                uses_shared = true;
                shared_sel.clone()
            }
        };
        let cnt = match &points {
            PointSel::All => n + 4,
            PointSel::List(l) => l.len(),
        };
        let r = ridx[k];
        let deltas = (0..cnt).map(|j| (M[(r + 2 * j + g) % 13], M[(3 * r + j + 5 * k + 1) % 13])).collect();
        let mut t = tuple(peak.clone(), inter.clone(), points, deltas);
        t.embed_peak = embed;
        t.private_points = mode != PMode::Shared;
        t.pt_pack = PtPack { words: if (g + k) % 2 == 0 { PtWords::Always } else { PtWords::Auto }, max_run: if k == 1 { 1 } else { 128 }, two_byte_count: (g + k) % 3 == 0 };
        if (g + k) % 3 == 1 {
            t.delta_pack = DeltaPack { mode: DeltaMode::AbsorbZeros, max_run: 64 };
        }
        tuples.push(t);
    }
    let shared_pt_pack = PtPack { words: if g % 2 == 1 { PtWords::Always } else { PtWords::Auto }, max_run: if p % 2 == 0 { 2 } else { 128 }, two_byte_count: g % 2 == 0 };
    GlyphVar { tuples, shared_points: if uses_shared { Some(shared_sel) } else { None }, shared_pt_pack }
}

fn std_gvar(glyphs: &[GlyphDef], regions: &[RegionSpec], ridx: &[usize], p: usize, modes: Option<&[(bool, PMode)]>) -> Vec<Option<GlyphVar>> {
    glyphs
        .iter()
        .enumerate()
        .map(|(g, gd)| {
            if g == 0 {
                None
            } else {
                // glyph 1 follows `modes` when given; the other glyphs rotate through the profiles
                let m = if g == 1 { modes } else { None };
                Some(glyph_var(g, gd.shape.num_points(), regions, ridx, p + g - 1, m))
            }
        })
        .collect()
}

/// all subsets of {0..n} with 1..=max elements, in a fixed order
fn subsets(n: usize, max: usize) -> Vec<Vec<usize>> {
    let mut out = Vec::new();
    for a in 0..n {
        out.push(vec![a]);
    }
    if max >= 2 {
        for a in 0..n {
            for b in a + 1..n {
                out.push(vec![a, b]);
            }
        }
    }
    if max >= 3 {
        for a in 0..n {
            for b in a + 1..n {
                for c in b + 1..n {
                    out.push(vec![a, b, c]);
                }
            }
        }
    }
    out
}

// ---- family regions1

/// (peak, intermediate (start, end))
fn r1_menu() -> Vec<(i16, Option<(i16, i16)>)> {
    let h = ONE / 2;
    let q = ONE / 4;
    vec![
        (ONE, None),
        (-ONE, None),
        (h, None),
        (-h, None),
        (h, Some((0, ONE))),
        (ONE, Some((h, ONE))),
        (h, Some((q, 3 * q))),
        (-h, Some((-ONE, 0))),
        (h, Some((h, ONE))),
        (-ONE, Some((-ONE, -h))),
    ]
}
fn r1_sets() -> Vec<Vec<usize>> {
    subsets(10, 3)
}
const R1_SETS: usize = 10 + 45 + 120;
/// per-tuple option index (0..6) -> (embedded peak, point mode)
fn tuple_option(o: usize) -> (bool, PMode) {
    (o % 2 == 0, [PMode::PrivAll, PMode::PrivList, PMode::Shared][o / 2])
}

fn gen_regions1(idx: &[usize]) -> Option<Case> {
    let (si, p, kind, avar) = (idx[0], idx[1], idx[2], idx[3]);
    let sets = r1_sets();
    let set = sets.get(si)?;
    regions1_case(set, &r1_menu(), si, p, kind, avar, false)
}

fn regions1_case(set: &[usize], menu: &[(i16, Option<(i16, i16)>)], si: usize, p: usize, kind: usize, avar: usize, with_mvar: bool) -> Option<Case> {
    if avar == 1 && kind != 0 {
        return None;
    }
    let regions: Vec<RegionSpec> = set.iter().map(|r| (vec![menu[*r].0], menu[*r].1.map(|(s, e)| (vec![s], vec![e])))).collect();
    let glyphs = std_glyphs();
    // profiles 0..6 are the rotating profiles; 6.. enumerate the per-tuple options of glyph 1 completely
    let modes: Option<Vec<(bool, PMode)>> = if p >= 6 {
        let mut code = p - 6;
        let mut m = Vec::new();
        for _ in 0..set.len() {
            m.push(tuple_option(code % 6));
            code /= 6;
        }
        if code != 0 {
            return None;
        }
        Some(m)
    } else {
        None
    };
    let gvar = std_gvar(&glyphs, &regions, set, p, modes.as_deref());
    let mut font = base_font(vec![axis(kind, 0)], glyphs, gvar);
    font.gvar_long_offsets = si % 2 == 0;
    if p % 2 == 1 {
        font.gvar_shared_prefix = vec![vec![-ONE / 4]];
    }
    if avar == 1 {
        font.avar = Some(vec![vec![(-ONE, -ONE), (0, 0), (ONE / 2, ONE / 4), (ONE, ONE)]]);
    }
    let axes: Vec<(i16, i16, i16)> = regions.iter().map(|(p, i)| i.as_ref().map_or((p[0].min(0), p[0], p[0].max(0)), |(s, e)| (s[0], p[0], e[0]))).collect();
    if with_mvar {
        // the same regions in an item variation store
        let nr = axes.len() as u16;
        font.mvar = Some(Mvar {
            ivs: Ivs {
                regions: axes.iter().map(|a| vec![*a]).collect(),
                subtables: vec![IvData { region_idx: (0..nr).collect(), rows: vec![(0..nr).map(|k| 100 + 50 * k as i32).collect(), (0..nr).map(|k| -30 - 7 * k as i32).collect()], word_count: nr, long_words: false }],
                regions_last: false,
            },
            records: vec![(tag(b"xhgt"), 0, 0), (tag(b"undo"), 0, 1)],
            record_size: 8,
        });
    }
    let coords = landmarks(&axes).into_iter().map(|c| vec![c]).collect();
    Some(Case { font, kinds: vec![kind], coords, hvar_inconsistent: false, extreme: false })
}

// ---- family invalid1: regions that the scalar algorithm tells implementations to ignore on the offending axis
// ("if start > peak or peak > end: AS = 1", "if start < 0 and end > 0 and peak != 0: AS = 1")

fn invalid_menu() -> Vec<(i16, Option<(i16, i16)>)> {
    let h = ONE / 2;
    let mut m = r1_menu();
    m.push((h, Some((3 * (ONE / 4), ONE)))); // start > peak
    m.push((ONE, Some((0, h)))); // peak > end
    m.push((h, Some((-h, ONE)))); // start < 0 < end, peak != 0
    m
}
const INVALID_SETS: usize = 33;
fn gen_invalid1(idx: &[usize]) -> Option<Case> {
    let (si, p) = (idx[0], idx[1]);
    let set: Vec<usize> = if si < 3 { vec![10 + si] } else { vec![(si - 3) % 10, 10 + (si - 3) / 10] };
    regions1_case(&set, &invalid_menu(), si, p, 0, 0, true)
}

// ---- family regions2

/// per-axis option: (start, peak, end, needs the intermediate flag)
const R2_AXIS: [(i16, i16, i16, bool); 6] = [(0, 0, 0, false), (0, ONE, ONE, false), (-ONE, -ONE, 0, false), (0, ONE / 2, ONE / 2, false), (0, ONE / 2, ONE, true), (ONE / 2, ONE, ONE, true)];
const R2_REGIONS: usize = 35;
fn r2_region(r: usize) -> RegionSpec {
    let (a, b) = (R2_AXIS[(r + 1) / 6], R2_AXIS[(r + 1) % 6]);
    let inter = if a.3 || b.3 { Some((vec![a.0, b.0], vec![a.2, b.2])) } else { None };
    (vec![a.1, b.1], inter)
}
fn r2_sets(max: usize) -> Vec<Vec<usize>> {
    subsets(R2_REGIONS, max)
}
const R2_SETS_2: usize = 35 + 595;
const R2_SETS_3: usize = 35 + 595 + 6545;
const R2_VALUES: [i32; 12] = [-16384, -8192, -1, 0, 1, 4096, 8191, 8192, 8193, 12288, 16383, 16384];

fn gen_regions2(idx: &[usize]) -> Option<Case> {
    let si = idx[0];
    // quick enumerates idx[1] = 0 only: the profile then rotates with the set index
    let p = (idx[1] * 2 + si) % 6;
    let sets = r2_sets(if si < R2_SETS_2 { 2 } else { 3 });
    let set = sets.get(si)?;
    let regions: Vec<RegionSpec> = set.iter().map(|r| r2_region(*r)).collect();
    let glyphs = std_glyphs();
    let gvar = std_gvar(&glyphs, &regions, set, p, None);
    let mut font = base_font(vec![axis(0, 0), axis(0, 1)], glyphs, gvar);
    font.gvar_long_offsets = si % 2 == 1;
    if p % 2 == 0 {
        font.gvar_shared_prefix = vec![vec![ONE / 4, -ONE / 4], vec![0, -ONE]];
    }
    let mut coords = Vec::new();
    for a in R2_VALUES {
        for b in R2_VALUES {
            coords.push(vec![Coord::N(a), Coord::N(b)]);
        }
    }
    coords.push(vec![Coord::BeyondMax, Coord::N(8192)]);
    coords.push(vec![Coord::N(4096), Coord::BeyondMin]);
    coords.push(vec![Coord::BeyondMax, Coord::BeyondMax]);
    Some(Case { font, kinds: vec![0, 0], coords, hvar_inconsistent: false, extreme: false })
}

// ---- family packing

fn big_glyph() -> GlyphDef {
    let contours: Vec<Vec<Pt>> = (0..3).map(|c| (0..100).map(|i| c * 100 + i).map(|i: i32| pt(((i * 7) % 211) as i16, ((i * 13) % 197) as i16, i % 3 != 1)).collect()).collect();
    GlyphDef { shape: Shape::Simple(contours), advance: 2000, lsb: 0 }
}

fn fill(f: usize, j: usize, last: usize) -> (i16, i16) {
    let seg = |j: usize| -> i16 {
        // run lengths 63, 64, 65, 1, 2 cycling over the classes zero, byte, word
        let lens = [63usize, 64, 65, 1, 2];
        let mut pos = 0;
        let mut s = 0;
        loop {
            let l = lens[s % 5];
            if j < pos + l {
                return match s % 3 {
                    0 => 0,
                    1 => {
                        if j % 2 == 0 {
                            127
                        } else {
                            -128
                        }
                    }
                    _ => {
                        if j % 2 == 0 {
                            300
                        } else {
                            -129
                        }
                    }
                };
            }
            pos += l;
            s += 1;
        }
    };
    match f {
        0 => {
            if j == 0 {
                (5, -5)
            } else if j == last {
                (300, -300)
            } else {
                (0, 0)
            }
        }
        1 => (seg(j), seg(j + 31)),
        2 => (if j % 2 == 0 { 127 } else { -128 }, -1),
        3 => ([300, -300, 128, -129][j % 4], [-129, 128][j % 2]),
        _ => (M[j % 13], M[(j * 7 + 3) % 13]),
    }
}

fn pack_sel(sel: usize) -> PointSel {
    match sel {
        0 => PointSel::All,
        1 => PointSel::List((0..304).collect()),
        2 => PointSel::List((0..152).map(|i| 2 * i).collect()),
        3 => PointSel::List((0..127).collect()),
        4 => PointSel::List((0..128).collect()),
        5 => PointSel::List((0..129).collect()),
        6 => PointSel::List(vec![0, 299]),
        7 => PointSel::List(vec![5, 270, 300, 301, 302, 303]),
        _ => PointSel::List(vec![256, 257]),
    }
}

fn gen_packing(idx: &[usize]) -> Option<Case> {
    let (f, dm, dmax, sel, pw, pmax, two) = (idx[0], idx[1], idx[2], idx[3], idx[4], idx[5], idx[6]);
    if sel == 0 && (pw != 0 || pmax != 0 || two != 0) {
        return None;
    }
    let points = pack_sel(sel);
    let cnt = match &points {
        PointSel::All => 304,
        PointSel::List(l) => l.len(),
    };
    let deltas = (0..cnt).map(|j| fill(f, j, cnt - 1)).collect();
    let mut t = tuple(vec![ONE], None, points, deltas);
    t.delta_pack = DeltaPack { mode: [DeltaMode::Auto, DeltaMode::NoZeroRuns, DeltaMode::AllWords, DeltaMode::AbsorbZeros][dm], max_run: [64, 63, 2, 1][dmax] };
    t.pt_pack = PtPack { words: [PtWords::Auto, PtWords::Always][pw], max_run: [128, 127, 1][pmax], two_byte_count: two == 1 };
    let gv = GlyphVar { tuples: vec![t], shared_points: None, shared_pt_pack: PtPack::default() };
    let font = base_font(vec![axis(0, 0)], vec![empty_glyph(600), big_glyph()], vec![None, Some(gv)]);
    let coords = [Coord::N(0), Coord::N(5461), Coord::N(8192), Coord::N(16384)];
    Some(Case { font, kinds: vec![0], coords: coords.iter().map(|c| vec![*c]).collect(), hvar_inconsistent: false, extreme: false })
}

// ---- family metrics

fn metrics_glyphs() -> Vec<GlyphDef> {
    vec![
        empty_glyph(600),
        GlyphDef { shape: Shape::Simple(vec![vec![pt(-500, 0, true), pt(100, 0, false), pt(100, 100, true), pt(0, 50, true)]]), advance: 3000, lsb: -500 },
        GlyphDef {
            shape: Shape::Simple(vec![vec![pt(10, 10, true), pt(50, 10, true), pt(50, 50, false)], vec![pt(-520, 0, true), pt(100, 100, true), pt(10, 50, true)]]),
            advance: 3100,
            lsb: -525,
        },
        GlyphDef { shape: Shape::Composite(vec![Comp { gid: 1, dx: 10, dy: 20 }, Comp { gid: 2, dx: 200, dy: -130 }]), advance: 3200, lsb: -490 },
        empty_glyph(3300),
    ]
}

const MVAR_TAGS: [&[u8; 4]; 22] = [
    b"hasc", b"hdsc", b"hlgp", b"hcla", b"hcld", b"xhgt", b"cpht", b"sbxs", b"sbys", b"sbxo", b"sbyo", b"spxs", b"spys", b"spxo", b"spyo", b"strs", b"stro", b"hcrs", b"hcrn", b"hcof", b"undo",
    b"unds",
];

fn gen_metrics(idx: &[usize]) -> Option<Case> {
    let (hk, mk, ph, nhm, rk) = (idx[0], idx[1], idx[2], idx[3], idx[4]);
    let h = ONE / 2;
    let (n_axes, regions): (usize, Vec<RegionAxes>) = match rk {
        0 => (1, vec![vec![(0, ONE, ONE)], vec![(-ONE, -ONE, 0)]]),
        1 => (1, vec![vec![(0, h, ONE)], vec![(h, ONE, ONE)], vec![(-ONE, -h, 0)]]),
        _ => (2, vec![vec![(0, ONE, ONE), (0, 0, 0)], vec![(0, 0, 0), (0, ONE, ONE)], vec![(0, ONE, ONE), (0, ONE, ONE)]]),
    };
    let mut glyphs = metrics_glyphs();
    if nhm == 1 {
        glyphs[4].advance = glyphs[3].advance;
    }
    let ng = glyphs.len();
    // phantom point deltas per glyph and region
    let gsel = |g: usize| if hk == 4 { g.min(2) } else { g };
    let pp = |g: usize, k: usize| -> (i16, i16) {
        if ph == 0 {
            return (0, 0);
        }
        let empty = g == 4 && hk != 4;
        let pp1 = if ph == 2 && !empty { if k == 0 { -64 } else { 3 * k as i16 } } else { 0 };
        let pp2 = if k == 0 { 300 } else { -100 - k as i16 } + 2 * gsel(g) as i16;
        (pp1, pp2)
    };
    // outline deltas: small, the leftmost point stays leftmost
    let od = |g: usize, k: usize, j: usize| -> (i16, i16) { ((((g * 7 + k * 5 + j * 3) % 61) as i16) - 30, (((g * 3 + k * 11 + j * 7) % 61) as i16) - 30) };
    let mut gvar: Vec<Option<GlyphVar>> = vec![None];
    for g in 1..ng {
        let n = glyphs[g].shape.num_points();
        let mut tuples = Vec::new();
        for (k, r) in regions.iter().enumerate() {
            let peak: Vec<i16> = r.iter().map(|a| a.1).collect();
            let implied = r.iter().all(|a| a.0 == a.1.min(0) && a.2 == a.1.max(0));
            let inter = if implied { None } else { Some((r.iter().map(|a| a.0).collect(), r.iter().map(|a| a.2).collect())) };
            let mut d: Vec<(i16, i16)> = (0..n).map(|j| od(g, k, j)).collect();
            let (p1, p2) = pp(g, k);
            d.extend([(p1, 0), (p2, 0), (0, 63), (0, -64)]);
            let mut t = tuple(peak, inter, PointSel::All, d);
            t.embed_peak = (g + k) % 2 == 0;
            tuples.push(t);
        }
        gvar.push(Some(GlyphVar { tuples, shared_points: None, shared_pt_pack: PtPack::default() }));
    }
    let mut font = base_font((0..n_axes).map(|i| axis(0, i)).collect(), glyphs, gvar);
    if nhm == 1 {
        font.num_h_metrics = Some(ng as u16 - 1);
    }
    // HVAR rows consistent with the phantom point deltas
    let adv_row = |g: usize| -> Vec<i32> { (0..regions.len()).map(|k| if g == 0 { 0 } else { (pp(g, k).1 - pp(g, k).0) as i32 }).collect() };
    let xmin_delta = |g: usize, k: usize| -> i32 {
        match g {
            1 => od(1, k, 0).0 as i32,
            2 => od(2, k, 3).0 as i32,
            3 => od(1, k, 0).0 as i32 + od(3, k, 0).0 as i32,
            _ => 0,
        }
    };
    let lsb_row = |g: usize| -> Vec<i32> { (0..regions.len()).map(|k| if g == 0 { 0 } else { xmin_delta(g, k) - pp(g, k).0 as i32 }).collect() };
    let nr = regions.len() as u16;
    let all_regions: Vec<u16> = (0..nr).collect();
    let mut hvar_inconsistent = false;
    // every other HVAR form also carries vertical metrics (vhea, vmtx, VVAR): VVAR is a variation table and must not survive
    font.vertical = hk % 2 == 1;
    font.hvar = match hk {
        0 => None,
        1 => Some(Hvar {
            ivs: Ivs { regions: regions.clone(), subtables: vec![IvData { region_idx: all_regions.clone(), rows: (0..ng).map(adv_row).collect(), word_count: nr, long_words: false }], regions_last: false },
            adv: None,
            lsb: None,
            rsb: None,
        }),
        2 => {
            // one subtable, rows permuted, column 0 words and the rest int8
            let perm = [3usize, 0, 4, 1, 2];
            let mut rows = vec![vec![]; ng];
            for g in 0..ng {
                rows[perm[g]] = adv_row(g);
            }
            Some(Hvar {
                ivs: Ivs { regions: regions.clone(), subtables: vec![IvData { region_idx: all_regions.clone(), rows, word_count: 1, long_words: false }], regions_last: true },
                adv: Some(IndexMap { entries: (0..ng).map(|g| (0, perm[g] as u16)).collect(), inner_bits: 4, entry_size: 1, format: 0 }),
                lsb: None,
                rsb: None,
            })
        }
        3 => {
            // two subtables; the second lists the regions in reverse order
            let rev: Vec<u16> = (0..nr).rev().collect();
            let sub0 = IvData { region_idx: all_regions.clone(), rows: vec![adv_row(0), adv_row(2), adv_row(4)], word_count: nr, long_words: false };
            let sub1 = IvData { region_idx: rev, rows: vec![adv_row(3).into_iter().rev().collect(), adv_row(1).into_iter().rev().collect()], word_count: nr, long_words: false };
            // a third subtable that references no region at all serves the glyph that does not vary
            let sub2 = IvData { region_idx: vec![], rows: vec![vec![], vec![]], word_count: 0, long_words: false };
            Some(Hvar {
                ivs: Ivs { regions: regions.clone(), subtables: vec![sub0, sub1, sub2], regions_last: false },
                adv: Some(IndexMap { entries: vec![(2, 1), (1, 1), (0, 1), (1, 0), (0, 2)], inner_bits: 8, entry_size: 2, format: 0 }),
                lsb: None,
                rsb: None,
            })
        }
        4 => Some(Hvar {
            // the map is shorter than the glyph count: glyphs 3 and 4 use the last entry
            ivs: Ivs { regions: regions.clone(), subtables: vec![IvData { region_idx: all_regions.clone(), rows: vec![adv_row(2), adv_row(1), adv_row(0)], word_count: nr, long_words: false }], regions_last: false },
            adv: Some(IndexMap { entries: vec![(0, 2), (0, 1), (0, 0)], inner_bits: 2, entry_size: 1, format: 0 }),
            lsb: None,
            rsb: None,
        }),
        5 => {
            let mut rows: Vec<Vec<i32>> = (0..ng).map(adv_row).collect();
            rows.extend((0..ng).map(lsb_row));
            Some(Hvar {
                ivs: Ivs { regions: regions.clone(), subtables: vec![IvData { region_idx: all_regions.clone(), rows, word_count: nr, long_words: false }], regions_last: false },
                adv: Some(IndexMap { entries: (0..ng).map(|g| (0, g as u16)).collect(), inner_bits: 16, entry_size: 4, format: 1 }),
                lsb: Some(IndexMap { entries: (0..ng).map(|g| (0, (ng + g) as u16)).collect(), inner_bits: 16, entry_size: 3, format: 1 }),
                rsb: None,
            })
        }
        6 => {
            hvar_inconsistent = true;
            Some(Hvar {
                ivs: Ivs { regions: regions.clone(), subtables: vec![IvData { region_idx: all_regions.clone(), rows: (0..ng).map(|g| adv_row(g).iter().map(|v| v + 40 + g as i32).collect()).collect(), word_count: nr, long_words: false }], regions_last: false },
                adv: None,
                lsb: None,
                rsb: None,
            })
        }
        _ => Some(Hvar {
            // LONG_WORDS: int32 word columns, int16 for the rest
            ivs: Ivs { regions: regions.clone(), subtables: vec![IvData { region_idx: all_regions.clone(), rows: (0..ng).map(adv_row).collect(), word_count: 1, long_words: true }], regions_last: true },
            adv: None,
            lsb: None,
            rsb: None,
        }),
    };
    let md = |q: usize, k: usize, small: bool| -> i32 {
        let v = M[(q + 3 * k + 1) % 13] as i32;
        if small {
            v.clamp(-64, 64)
        } else {
            v
        }
    };
    font.mvar = match mk {
        0 => None,
        1 => {
            let tags = [b"xhgt", b"undo", b"hasc"];
            Some(Mvar {
                ivs: Ivs {
                    regions: regions.clone(),
                    subtables: vec![IvData { region_idx: all_regions.clone(), rows: (0..3).map(|q| (0..regions.len()).map(|k| md(q, k, false)).collect()).collect(), word_count: nr, long_words: false }],
                    regions_last: false,
                },
                records: tags.iter().enumerate().map(|(q, t)| (tag(t), 0, q as u16)).collect(),
                record_size: 8,
            })
        }
        2 => {
            // every tag, two subtables (even / odd), padded records
            let rows = |par: usize| -> Vec<Vec<i32>> { (0..22).filter(|q| q % 2 == par).map(|q| (0..regions.len()).map(|k| md(q, k, q == 3 || q == 4)).collect()).collect() };
            Some(Mvar {
                ivs: Ivs {
                    regions: regions.clone(),
                    subtables: vec![
                        IvData { region_idx: all_regions.clone(), rows: rows(0), word_count: nr, long_words: false },
                        IvData { region_idx: all_regions.clone(), rows: rows(1), word_count: nr, long_words: false },
                    ],
                    regions_last: true,
                },
                records: (0..22).map(|q| (tag(MVAR_TAGS[q]), (q % 2) as u16, (q / 2) as u16)).collect(),
                record_size: 12,
            })
        }
        _ => {
            // an unknown tag, the unsigned fields, and a store whose region list has an unused extra region first
            let mut regs = vec![regions[0].iter().map(|_| (0, ONE / 4, ONE / 4)).collect::<RegionAxes>()];
            regs.extend(regions.iter().cloned());
            let tags: [&[u8; 4]; 5] = [b"zzzz", b"hcla", b"hcld", b"unds", b"strs"];
            Some(Mvar {
                ivs: Ivs {
                    regions: regs,
                    subtables: vec![IvData { region_idx: (1..=nr).collect(), rows: (0..5).map(|q| (0..regions.len()).map(|k| md(q + 5, k, true)).collect()).collect(), word_count: 0, long_words: false }],
                    regions_last: false,
                },
                // 'hcld' carries the "no variation data" index 0xFFFF/0xFFFF: it stays at its default and the records behind it in
                // tag order (strs, unds, zzzz) are applied as usual
                records: tags.iter().enumerate().map(|(q, t)| if *t == b"hcld" { (tag(t), 0xFFFF, 0xFFFF) } else { (tag(t), 0, q as u16) }).collect(),
                record_size: 8,
            })
        }
    };
    let coords: Vec<Vec<Coord>> = if n_axes == 1 {
        let axes: Vec<(i16, i16, i16)> = regions.iter().map(|r| r[0]).collect();
        landmarks(&axes).into_iter().map(|c| vec![c]).collect()
    } else {
        let vals = [Coord::BeyondMin, Coord::N(-8192), Coord::N(0), Coord::N(1), Coord::N(5461), Coord::N(8192), Coord::N(16383), Coord::N(16384), Coord::BeyondMax];
        let mut v = Vec::new();
        for a in vals {
            for b in vals {
                v.push(vec![a, b]);
            }
        }
        v
    };
    Some(Case { font, kinds: vec![0; n_axes], coords, hvar_inconsistent, extreme: false })
}

// ---- family extreme: advance widths that are valid uint16 values but do not fit an int16 phantom point coordinate

fn gen_extreme(idx: &[usize]) -> Option<Case> {
    let sq = |x0: i16| Shape::Simple(vec![vec![pt(x0, 0, true), pt(x0 + 100, 0, true), pt(x0 + 100, 100, true), pt(x0, 100, true)]]);
    let ph_tuple = |pp1: i16, pp2: i16| {
        let mut d = vec![(10, 0), (20, 5), (-10, 7), (0, -3)];
        d.extend([(pp1, 0), (pp2, 0), (0, 0), (0, 0)]);
        GlyphVar { tuples: vec![tuple(vec![ONE], None, PointSel::All, d)], shared_points: None, shared_pt_pack: PtPack::default() }
    };
    let mut glyphs = vec![empty_glyph(600), GlyphDef { shape: sq(0), advance: 32700, lsb: 0 }];
    let mut gvar = vec![None, Some(ph_tuple(0, 300))];
    let mut hvar = None;
    match idx[0] {
        // the advance grows from 32700 to 33000 through the phantom points
        0 => {}
        // the same with a consistent HVAR
        1 => {
            hvar = Some(Hvar {
                ivs: Ivs { regions: vec![vec![(0, ONE, ONE)]], subtables: vec![IvData { region_idx: vec![0], rows: vec![vec![0], vec![300]], word_count: 1, long_words: false }], regions_last: false },
                adv: None,
                lsb: None,
                rsb: None,
            });
        }
        // a second glyph with a constant advance of 40000
        2 => {
            glyphs[1].advance = 3000;
            glyphs.push(GlyphDef { shape: sq(50), advance: 40000, lsb: 50 });
            gvar.push(None);
        }
        // the origin lies far to the left of the outline: pp1 = -20000, pp2 = 12000; the deltas widen the advance to 32800
        3 => {
            glyphs[1] = GlyphDef { shape: sq(0), advance: 32000, lsb: 20000 };
            gvar[1] = Some(ph_tuple(-300, 500));
        }
        _ => return None,
    }
    let mut font = base_font(vec![axis(0, 0)], glyphs, gvar);
    font.hvar = hvar;
    let coords = [Coord::N(0), Coord::N(8192), Coord::N(16384)];
    Some(Case { font, kinds: vec![0], coords: coords.iter().map(|c| vec![*c]).collect(), hvar_inconsistent: false, extreme: true })
}

// ---- family nested: composites of composites, parent before and after its children in glyph order

fn gen_nested(idx: &[usize]) -> Option<Case> {
    let (order, depth3, hk, pat) = (idx[0], idx[1] == 1, idx[2], idx[3]);
    // logical glyphs: S simple, D = [S], C = [D or S, S], P = [C] (+ S for pattern 1)
    // glyph order 0: notdef, P, C, (D,) S  (every parent before its children); order 1: notdef, S, (D,) C, P
    let names: Vec<char> = if order == 0 {
        if depth3 { vec!['P', 'C', 'D', 'S'] } else { vec!['P', 'C', 'S'] }
    } else if depth3 {
        vec!['S', 'D', 'C', 'P']
    } else {
        vec!['S', 'C', 'P']
    };
    let gid = |n: char| -> u16 { 1 + names.iter().position(|x| *x == n).unwrap() as u16 };
    let s_shape = Shape::Simple(vec![vec![pt(-50, 0, true), pt(100, -10, false), pt(120, 100, true), pt(0, 90, true)]]);
    let mut glyphs = vec![empty_glyph(600)];
    for n in &names {
        let shape = match n {
            'S' => s_shape.clone(),
            'D' => Shape::Composite(vec![Comp { gid: gid('S'), dx: 7, dy: 9 }]),
            'C' => Shape::Composite(vec![Comp { gid: if depth3 { gid('D') } else { gid('S') }, dx: -40, dy: 15 }, Comp { gid: gid('S'), dx: 300, dy: 200 }]),
            _ => {
                let mut c = vec![Comp { gid: gid('C'), dx: 30, dy: -20 }];
                if pat == 1 {
                    c.push(Comp { gid: gid('S'), dx: 60, dy: 40 });
                }
                Shape::Composite(c)
            }
        };
        glyphs.push(GlyphDef { shape, advance: 3000 + 100 * glyphs.len() as u16, lsb: 0 });
    }
    let regions: Vec<RegionAxes> = vec![vec![(0, ONE, ONE)], vec![(-ONE, -ONE, 0)]];
    let pp = |g: usize, k: usize| -> (i16, i16) { (if k == 0 { -20 - g as i16 } else { 11 }, if k == 0 { 150 + 3 * g as i16 } else { -90 + g as i16 }) };
    let mut gvar: Vec<Option<GlyphVar>> = vec![None];
    for g in 1..glyphs.len() {
        let n = glyphs[g].shape.num_points();
        let simple = matches!(glyphs[g].shape, Shape::Simple(_));
        let mut tuples = Vec::new();
        for k in 0..2 {
            // the simple glyph's leftmost point stays leftmost (|delta| <= 30); component offsets move by up to 127
            let mut d: Vec<(i16, i16)> = (0..n)
                .map(|j| {
                    if simple {
                        ((((g * 7 + k * 13 + j * 5 + pat * 3) % 61) as i16) - 30, (((g * 3 + k * 17 + j * 11 + pat) % 61) as i16) - 30)
                    } else {
                        (M[(g + 2 * j + 5 * k + pat + 3) % 11], M[(3 * g + j + 7 * k + 1) % 11])
                    }
                })
                .collect();
            let (p1, p2) = pp(g, k);
            d.extend([(p1, 0), (p2, 0), (0, 5), (0, -6)]);
            let mut t = tuple(vec![if k == 0 { ONE } else { -ONE }], None, PointSel::All, d);
            t.embed_peak = (g + k) % 2 == 0;
            tuples.push(t);
        }
        gvar.push(Some(GlyphVar { tuples, shared_points: None, shared_pt_pack: PtPack::default() }));
    }
    let mut font = base_font(vec![axis(0, 0)], glyphs, gvar);
    // lsb of the default master = xMin (pp1 = 0)
    for g in 1..font.glyphs.len() {
        font.glyphs[g].lsb = default_xmin(&font, g).unwrap_or(0) as i16;
    }
    if hk > 0 {
        let ng = font.glyphs.len();
        let peaks: [i16; 2] = [ONE, -ONE];
        let adv_row = |g: usize| -> Vec<i32> { (0..2).map(|k| if g == 0 { 0 } else { (pp(g, k).1 - pp(g, k).0) as i32 }).collect() };
        // lsb deltas consistent with the outlines: (xMin at the peak - default xMin) - pp1 delta; exact because every
        // leftmost point / component stays the leftmost one
        let lsb_rows: Vec<Vec<i32>> = {
            let pr = Prepared::new(&font, EvalOpts::default());
            (0..ng)
                .map(|g| {
                    (0..2)
                        .map(|k| match (pr.instanced_xmin(g, &[peaks[k]]), default_xmin(&font, g)) {
                            (Some(x), Some(d)) => {
                                assert!(x.is_int(), "machinery: xMin at a peak is an integer");
                                (x.n as i64 - d) as i32 - pp(g, k).0 as i32
                            }
                            _ => 0,
                        })
                        .collect()
                })
                .collect()
        };
        let mut rows: Vec<Vec<i32>> = (0..ng).map(adv_row).collect();
        let with_lsb = hk == 2;
        if with_lsb {
            rows.extend(lsb_rows);
        }
        font.hvar = Some(Hvar {
            ivs: Ivs { regions: regions.clone(), subtables: vec![IvData { region_idx: vec![0, 1], rows, word_count: 2, long_words: false }], regions_last: false },
            adv: if with_lsb { Some(IndexMap { entries: (0..ng).map(|g| (0, g as u16)).collect(), inner_bits: 8, entry_size: 2, format: 0 }) } else { None },
            lsb: if with_lsb { Some(IndexMap { entries: (0..ng).map(|g| (0, (ng + g) as u16)).collect(), inner_bits: 8, entry_size: 2, format: 0 }) } else { None },
            rsb: None,
        });
    }
    let axes: Vec<(i16, i16, i16)> = regions.iter().map(|r| r[0]).collect();
    let coords = landmarks(&axes).into_iter().map(|c| vec![c]).collect();
    Some(Case { font, kinds: vec![0], coords, hvar_inconsistent: false, extreme: false })
}

// ---- family cvar: CVT variations (cvar is a tuple variation store whose "point numbers" are CVT indices)

fn cvar_cvt(kind: usize) -> Option<Vec<i16>> {
    match kind {
        0 => Some(vec![]),
        1 => Some(vec![32767]),
        2 => Some(vec![-32768, 0, 32767]),
        3 => Some((0..40).map(|i: i32| [-32768, -32767, -1, 0, 1, 100, 32766, 32767, 700, -450][(i % 10) as usize] as i32 + if i % 10 >= 8 { i } else { 0 }).map(|v| v as i16).collect()),
        4 => Some((0..300).map(|i: i32| ((i * 97) % 2001 - 1000) as i16).collect()),
        // malformed: cvar without cvt; cvar referring to a CVT index beyond the cvt table
        5 => None,
        _ => Some(vec![10, -20]),
    }
}

fn cvar_sel(sel: usize, n: usize) -> Option<PointSel> {
    let list = |sel: usize| -> Option<Vec<u16>> {
        if n == 0 {
            return None;
        }
        Some(match sel {
            1 => vec![0],
            2 => vec![n as u16 - 1],
            3 => (0..n).filter(|i| i % 7 == 3 || *i == n - 1).map(|i| i as u16).collect(),
            4 => (0..n as u16).collect(),
            _ => {
                if n < 2 {
                    return None;
                }
                vec![0, n as u16 - 1]
            }
        })
    };
    if sel == 0 {
        return Some(PointSel::All);
    }
    let l = list(sel)?;
    // skip selections that coincide with an earlier one (small tables)
    if (1..sel).any(|e| list(e).as_ref() == Some(&l)) {
        return None;
    }
    Some(PointSel::List(l))
}

fn cvar_regions(set: usize) -> (usize, Vec<RegionSpec>) {
    let h = ONE / 2;
    let q = ONE / 4;
    match set {
        0 => (1, vec![(vec![ONE], None)]),
        1 => (1, vec![(vec![-ONE], None)]),
        2 => (1, vec![(vec![h], Some((vec![0], vec![ONE])))]),
        3 => (1, vec![(vec![ONE], None), (vec![h], Some((vec![0], vec![ONE])))]),
        4 => (1, vec![(vec![ONE], None), (vec![-ONE], None), (vec![h], Some((vec![q], vec![3 * q])))]),
        5 => (2, vec![(vec![ONE, 0], None)]),
        6 => (2, vec![(vec![ONE, ONE], None), (vec![0, -ONE], None)]),
        _ => (2, vec![(vec![h, ONE], Some((vec![0, 0], vec![ONE, ONE]))), (vec![ONE, 0], None), (vec![0, h], None)]),
    }
}

fn cvar_fill(f: usize, j: usize, k: usize, value: i16) -> i16 {
    let seg = |j: usize| -> i16 {
        let lens = [63usize, 64, 65, 1, 2];
        let (mut pos, mut s) = (0, 0);
        loop {
            let l = lens[s % 5];
            if j < pos + l {
                return [0, if j % 2 == 0 { 127 } else { -128 }, if j % 2 == 0 { 300 } else { -129 }][s % 3];
            }
            pos += l;
            s += 1;
        }
    };
    let d = match f {
        0 | 4 => M[(j + 3 * k + 1) % 13],
        1 => {
            if (j + k) % 17 == 0 {
                300
            } else if j % 5 == 0 {
                -1
            } else {
                0
            }
        }
        2 => seg(j + 20 * k),
        _ => {
            if j % 2 == 0 {
                127
            } else {
                -128
            }
        }
    };
    if f == 4 {
        // outward: the entries at the int16 edges leave the range
        return if value > 32000 {
            300
        } else if value < -32000 {
            -300
        } else {
            d
        };
    }
    // entries near the int16 edges only move inwards
    if value >= 31000 {
        -(d.abs())
    } else if value <= -31000 {
        d.abs()
    } else {
        d
    }
}

fn gen_cvar(idx: &[usize]) -> Option<Case> {
    let (ck, set, sel, shared, fill, pack) = (idx[0], idx[1], idx[2], idx[3], idx[4], idx[5]);
    let cvt = cvar_cvt(ck);
    let (n_axes, regions) = cvar_regions(set);
    let values: Vec<i16> = cvt.clone().unwrap_or_default();
    let n = values.len();
    let base_sel = if ck >= 5 {
        // malformed fonts: one configuration each
        if set != 0 || sel != 0 || shared != 0 || fill != 0 || pack != 0 {
            return None;
        }
        PointSel::List(if ck == 5 { vec![0] } else { vec![0, 5] })
    } else {
        cvar_sel(sel, n)?
    };
    if n == 0 && shared == 1 {
        return None;
    }
    let mut tuples = Vec::new();
    for (k, (peak, inter)) in regions.iter().enumerate() {
        let private = shared == 0 || k == 1;
        let points = if shared == 1 && k == 1 {
            // the one private tuple among shared ones uses the other form
            if base_sel == PointSel::All { PointSel::List((0..n as u16).collect()) } else { PointSel::All }
        } else {
            base_sel.clone()
        };
        let idxs: Vec<usize> = match &points {
            PointSel::All => (0..n).collect(),
            PointSel::List(l) => l.iter().map(|i| *i as usize).collect(),
        };
        let deltas: Vec<i16> = idxs.iter().enumerate().map(|(j, i)| cvar_fill(fill, j, k, values.get(*i).copied().unwrap_or(0))).collect();
        tuples.push(CvarTuple {
            peak: peak.clone(),
            inter: inter.clone(),
            points,
            deltas,
            private_points: private,
            index_bits: if set % 2 == 1 { ((k * 37 + 5) & 0x0FFF) as u16 } else { 0 },
            pt_pack: PtPack { words: if (set + sel) % 2 == 1 { PtWords::Always } else { PtWords::Auto }, max_run: if shared == 1 { 2 } else { 128 }, two_byte_count: (sel + fill) % 2 == 1 },
            delta_pack: DeltaPack { mode: [DeltaMode::Auto, DeltaMode::NoZeroRuns, DeltaMode::AllWords, DeltaMode::AbsorbZeros][pack % 4], max_run: if pack / 4 == 0 { 64 } else { 1 } },
        });
    }
    let cvar = Cvar {
        tuples,
        shared_points: if shared == 1 { Some(base_sel.clone()) } else { None },
        shared_pt_pack: PtPack { words: if (set + sel) % 2 == 0 { PtWords::Always } else { PtWords::Auto }, max_run: 128, two_byte_count: (sel + fill) % 2 == 0 },
    };
    let square = GlyphDef { shape: Shape::Simple(vec![vec![pt(0, 0, true), pt(100, 0, true), pt(100, 100, true), pt(0, 100, true)]]), advance: 1000, lsb: 0 };
    let mut peak = vec![0i16; n_axes];
    peak[0] = ONE;
    let gv = GlyphVar { tuples: vec![tuple(peak, None, PointSel::All, vec![(10, 0), (20, 5), (-10, 7), (0, -3), (0, 0), (30, 0), (0, 0), (0, 0)])], shared_points: None, shared_pt_pack: PtPack::default() };
    let mut font = base_font((0..n_axes).map(|i| axis(0, i)).collect(), vec![empty_glyph(600), square], vec![None, Some(gv)]);
    font.cvt = cvt;
    font.cvar = Some(cvar);
    let coords: Vec<Vec<Coord>> = if n_axes == 1 {
        let axes: Vec<(i16, i16, i16)> = regions.iter().map(|(p, i)| i.as_ref().map_or((p[0].min(0), p[0], p[0].max(0)), |(s, e)| (s[0], p[0], e[0]))).collect();
        landmarks(&axes).into_iter().map(|c| vec![c]).collect()
    } else {
        let vals = [Coord::N(-16384), Coord::N(0), Coord::N(1), Coord::N(8192), Coord::N(16383), Coord::N(16384)];
        let mut v = Vec::new();
        for a in vals {
            for b in vals {
                v.push(vec![a, b]);
            }
        }
        v.push(vec![Coord::BeyondMax, Coord::N(5461)]);
        v.push(vec![Coord::N(12288), Coord::BeyondMin]);
        v
    };
    Some(Case { font, kinds: vec![0; n_axes], coords, hvar_inconsistent: false, extreme: false })
}

/// cvar present but unusable: no cvt table, or a CVT index beyond the table
fn cvar_malformed(font: &VarFont) -> bool {
    match (&font.cvar, &font.cvt) {
        (Some(_), None) => true,
        (Some(c), Some(v)) => cvar_max_index(c).map_or(false, |m| m as usize >= v.len()),
        _ => false,
    }
}

/// some instanced CVT value does not fit an int16 at these coordinates
fn cvt_overflows(font: &VarFont, nc: &[i16]) -> bool {
    eval_cvt(font, nc, &EvalOpts::default()).map_or(false, |v| v.iter().any(|x| x.lt(Rat::int(-32768)) || Rat::int(32767).lt(*x)))
}

// ---- family anchored: composites with components placed by point numbers, transforms and instructions

fn gen_anchored(idx: &[usize]) -> Option<Case> {
    let (pos, words, tk, instr, style, layout) = (idx[0], idx[1] == 1, idx[2], idx[3] == 1, idx[4], idx[5]);
    const XY: u16 = 0x0002 | 0x0004;
    let square = GlyphDef { shape: Shape::Simple(vec![vec![pt(0, 0, true), pt(100, 0, true), pt(100, 100, true), pt(0, 100, true)]]), advance: 1000, lsb: 0 };
    let tri = GlyphDef { shape: Shape::Simple(vec![vec![pt(10, 0, true), pt(90, 0, false), pt(50, 80, true)]]), advance: 900, lsb: 10 };
    // transform of the anchored component: none, scale, x/y scale, 2x2 (with SCALED_COMPONENT_OFFSET)
    let (tflags, tvals): (u16, Vec<i16>) = match tk {
        0 => (0, vec![]),
        1 => (0x0008, vec![8192]),
        2 => (0x0040, vec![12288, -16384]),
        _ => (0x0080 | 0x0800, vec![16384, 4096, -4096, 8192]),
    };
    // the component placed by point numbers: parent point 2, child point 1
    let anchored = RawComp { flags: if words { 0x0001 } else { 0 } | tflags, gid: 2, arg1: 2, arg2: 1, transform: tvals.clone() };
    // xy components: byte sized and word sized offsets; the second one is transformed when the layout says so
    let xy_small = RawComp { flags: XY, gid: 1, arg1: 10, arg2: -20, transform: vec![] };
    let xy_big = if layout == 1 { RawComp { flags: XY | 0x0001 | 0x0008 | 0x1000, gid: 2, arg1: 300, arg2: 200, transform: vec![-8192] } } else { RawComp { flags: XY | 0x0001, gid: 2, arg1: 300, arg2: 200, transform: vec![] } };
    let mut comps = vec![xy_small, xy_big];
    comps.insert(pos, anchored.clone());
    if instr {
        comps.last_mut().unwrap().flags |= 0x0100;
    }
    // a second composite: one xy component followed by two anchored ones (byte and word form)
    let second = vec![
        RawComp { flags: XY, gid: 1, arg1: -5, arg2: 7, transform: vec![] },
        RawComp { flags: if words { 0 } else { 0x0001 }, gid: 2, arg1: 3, arg2: 0, transform: vec![] },
        RawComp { flags: anchored.flags | if instr { 0x0100 } else { 0 }, gid: 1, arg1: 1, arg2: 2, transform: tvals },
    ];
    let glyphs = vec![
        empty_glyph(600),
        square,
        tri,
        GlyphDef { shape: Shape::RawComposite([0, -20, 400, 280], comps), advance: 2000, lsb: 0 },
        GlyphDef { shape: Shape::RawComposite([-5, 0, 100, 107], second), advance: 2100, lsb: -5 },
    ];
    let mut gvar: Vec<Option<GlyphVar>> = vec![None, None, None];
    for g in 3..5 {
        let comps = match &glyphs[g].shape {
            Shape::RawComposite(_, c) => c.clone(),
            _ => unreachable!(),
        };
        let n = comps.len();
        let mut tuples = Vec::new();
        for k in 0..2 {
            let full: Vec<(i16, i16)> = (0..n + 4)
                .map(|j| if j < n { (M[(g + 2 * j + 5 * k + 3) % 13], M[(3 * g + j + 7 * k + 1) % 13]) } else { [(-(20 + g as i16), 0), (150 + 10 * k as i16, 0), (0, 5), (0, -6)][j - n] })
                .collect();
            // style 0: deltas for every "point" (also for the anchored components, which must ignore them);
            // style 1: an explicit list that leaves the anchored components out, as the specification recommends
            let (points, deltas) = if style == 0 {
                (PointSel::All, full)
            } else {
                let l: Vec<u16> = (0..n + 4).filter(|j| *j >= n || comps[*j].flags & 0x0002 != 0).map(|j| j as u16).collect();
                let d = l.iter().map(|j| full[*j as usize]).collect();
                (PointSel::List(l), d)
            };
            tuples.push(tuple(vec![if k == 0 { ONE } else { -ONE }], None, points, deltas));
        }
        gvar.push(Some(GlyphVar { tuples, shared_points: None, shared_pt_pack: PtPack::default() }));
    }
    let font = base_font(vec![axis(0, 0)], glyphs, gvar);
    let coords = landmarks(&[(0, ONE, ONE), (-ONE, -ONE, 0)]).into_iter().map(|c| vec![c]).collect();
    Some(Case { font, kinds: vec![0], coords, hvar_inconsistent: false, extreme: false })
}

// ---- dispatch

fn gen(family: &str, idx: &[usize]) -> Option<Case> {
    match family {
        "iup" => gen_iup(idx),
        "regions1" => gen_regions1(idx),
        "regions2" => gen_regions2(idx),
        "packing" => gen_packing(idx),
        "metrics" => gen_metrics(idx),
        "invalid1" => gen_invalid1(idx),
        "extreme" => gen_extreme(idx),
        "nested" => gen_nested(idx),
        "cvar" => gen_cvar(idx),
        "anchored" => gen_anchored(idx),
        _ => None,
    }
}

fn dims(family: &str, thorough: bool) -> Vec<usize> {
    match family {
        "iup" => vec![IUP_SHAPES, 64, 3, 5],
        "regions1" => vec![R1_SETS, if thorough { 6 + 216 } else { 6 }, 3, 2],
        "regions2" => vec![if thorough { R2_SETS_3 } else { R2_SETS_2 }, if thorough { 3 } else { 1 }],
        "packing" => vec![5, 4, 4, 9, 2, 3, 2],
        "metrics" => vec![8, 4, 3, 2, 3],
        "invalid1" => vec![INVALID_SETS, 6],
        "extreme" => vec![4],
        "nested" => vec![2, 2, 3, 2],
        "cvar" => vec![7, 8, 6, 2, 5, 8],
        "anchored" => vec![3, 2, 4, 2, 2, 2],
        _ => vec![],
    }
}

/// quick tier restrictions (everything else of `dims` is enumerated)
fn in_tier(family: &str, idx: &[usize], thorough: bool) -> bool {
    if thorough {
        return true;
    }
    match family {
        // all 3-point sequences, the 4-point sequences starting at 0 or 50, the designed shapes
        "iup" => idx[0] < 64 || idx[0] >= 320 || matches!((idx[0] - 64) % 4, 0 | 2),
        // the rotating profile follows the set; every set meets every axis kind
        "regions2" => idx[1] == 0,
        // the packed delta form rotates with the other indices; it is enumerated completely for the single-region
        // fonts with the two larger cvt tables
        "cvar" => idx[0] >= 5 || idx[5] == (idx[1] + idx[2] + idx[4]) % 8 || (idx[1] == 0 && (idx[0] == 3 || idx[0] == 4)),
        _ => true,
    }
}

fn decode(flat: usize, dims: &[usize]) -> Vec<usize> {
    let mut f = flat;
    let mut idx = vec![0; dims.len()];
    for (i, d) in dims.iter().enumerate().rev() {
        idx[i] = f % d;
        f /= d;
    }
    idx
}

// ------------------------------------------------------------------------------------------------ the check

struct Subject<'a> {
    family: &'a str,
    idx: &'a [usize],
    case: &'a Case,
    bytes: &'a [u8],
    prepared: Prepared<'a>,
    /// default values of the MVAR-controllable fields, read from the source tables
    mvar_defaults: Vec<(u32, i64)>,
}

fn field(tables: &otmodel::sfnt::Sfnt<'_>, value_tag: u32) -> Option<i64> {
    let (t, off, unsigned) = mvar_target(value_tag)?;
    let d = tables.table(t)?;
    let v = otmodel::be::u16_at(d, off)?;
    Some(if unsigned { v as i64 } else { v as i16 as i64 })
}

fn users_of(case: &Case, c: &[Coord]) -> Vec<i32> {
    c.iter().enumerate().map(|(i, c)| user_of(case.kinds[i], *c)).collect()
}

fn witness(s: &Subject<'_>, user: &[i32], extra: Value) -> Value {
    json!({
        "family": s.family,
        "idx": s.idx,
        "user_tuple_16.16": user,
        "axes_min_def_max_16.16": s.case.font.axes.iter().map(|a| vec![a.min, a.def, a.max]).collect::<Vec<_>>(),
        "avar": s.case.font.avar,
        "glyphs": s.case.font.glyphs.iter().map(|g| format!("{:?}", g)).collect::<Vec<_>>(),
        "gvar": s.case.font.gvar.iter().map(|g| format!("{:?}", g)).collect::<Vec<_>>(),
        "hvar": format!("{:?}", s.case.font.hvar),
        "mvar": format!("{:?}", s.case.font.mvar),
        "cvt": s.case.font.cvt.as_ref().map(|c| if c.len() <= 48 { json!(c) } else { json!(format!("{} entries: (i * 97) % 2001 - 1000", c.len())) }),
        "cvar": s.case.font.cvar.as_ref().map(|c| format!("{:?}", c).chars().take(3000).collect::<String>()),
        "font_hex": if s.bytes.len() <= 16384 { mcx::hex(s.bytes) } else { String::from("(omitted: regenerate from family and idx)") },
        "detail": extra,
    })
}

/// line-number independent key of a panic site, relative to whichever checkout of allsorts was compiled in
fn panic_site(p: &mcx::PanicInfo) -> String {
    let root = p.file.find("/src/").map(|i| p.file[..i].to_string()).unwrap_or_else(|| "/repo".to_string());
    p.site_key(&root)
}

fn err_class(e: &str) -> String {
    e.split(|c: char| c.is_ascii_digit()).next().unwrap_or("").trim().chars().take(50).collect::<String>().replace(' ', "-")
}

/// Compare one glyph of the output with an evaluation; returns a description of the first difference.
fn glyph_diff(shape: &Shape, e: &GlyphEval, out: &OutGlyph, exact: bool) -> Option<String> {
    let ok = |want: Rat, got: i32| if exact { want == Rat::int(got as i64) } else { want.within(got as i64, TOL.0, TOL.1) };
    match (shape, out) {
        (Shape::Empty, OutGlyph::Empty) => None,
        (Shape::Simple(contours), OutGlyph::Simple { contours: oc, .. }) => {
            if contours.len() != oc.len() || contours.iter().zip(oc).any(|(a, b)| a.len() != b.len()) {
                return Some(format!("structure: contour sizes {:?} became {:?}", contours.iter().map(|c| c.len()).collect::<Vec<_>>(), oc.iter().map(|c| c.len()).collect::<Vec<_>>()));
            }
            let mut i = 0;
            for (a, b) in contours.iter().zip(oc) {
                for (p, q) in a.iter().zip(b) {
                    if p.on != q.2 {
                        return Some(format!("structure: on-curve flag of point {} changed", i));
                    }
                    if !ok(e.pts[i].0, q.0) || !ok(e.pts[i].1, q.1) {
                        return Some(format!("point {}: expected ({}, {}) got ({}, {})", i, e.pts[i].0.to_f64(), e.pts[i].1.to_f64(), q.0, q.1));
                    }
                    i += 1;
                }
            }
            None
        }
        (Shape::Composite(comps), OutGlyph::Composite { comps: oc, .. }) => {
            if comps.len() != oc.len() {
                return Some(format!("structure: {} components became {}", comps.len(), oc.len()));
            }
            for (i, (c, o)) in comps.iter().zip(oc).enumerate() {
                if c.gid != o.gid || o.flags & 0x0002 == 0 || !o.transform.is_empty() {
                    return Some(format!("structure: component {} is glyph {} flags {:#06x}", i, o.gid, o.flags));
                }
                if !ok(e.pts[i].0, o.arg1) || !ok(e.pts[i].1, o.arg2) {
                    return Some(format!("component {} offset: expected ({}, {}) got ({}, {})", i, e.pts[i].0.to_f64(), e.pts[i].1.to_f64(), o.arg1, o.arg2));
                }
            }
            None
        }
        (Shape::RawComposite(_, comps), OutGlyph::Composite { comps: oc, instructions, .. }) => {
            // the component records must survive instancing: same glyph ids, transforms, instructions and flags. The only
            // flag instancing may change is ARG_1_AND_2_ARE_WORDS (0x0001), and only together with the argument size -
            // the reader above has already parsed the arguments with the size the flag announces and rejected records
            // with left-over bytes. Components placed by point numbers keep their numbers; xy offsets take the deltas.
            if comps.len() != oc.len() {
                return Some(format!("structure: {} components became {}", comps.len(), oc.len()));
            }
            for (i, (c, o)) in comps.iter().zip(oc).enumerate() {
                let want_flags = (c.flags & !0x0020) | if i + 1 < comps.len() { 0x0020 } else { 0 };
                if c.gid != o.gid || (want_flags ^ o.flags) & !0x0001 != 0 || c.transform != o.transform {
                    return Some(format!("structure: component {} (glyph {}, flags {:#06x}, transform {:?}) became glyph {}, flags {:#06x}, transform {:?}", i, c.gid, want_flags, c.transform, o.gid, o.flags, o.transform));
                }
                if c.flags & 0x0002 == 0 {
                    let (p1, p2) = if c.flags & 0x0001 != 0 { (c.arg1 as u16 as i32, c.arg2 as u16 as i32) } else { (c.arg1 as u8 as i32, c.arg2 as u8 as i32) };
                    if (p1, p2) != (o.arg1, o.arg2) {
                        return Some(format!("structure: component {} point numbers ({}, {}) became ({}, {})", i, p1, p2, o.arg1, o.arg2));
                    }
                } else if !ok(e.pts[i].0, o.arg1) || !ok(e.pts[i].1, o.arg2) {
                    return Some(format!("component {} offset: expected ({}, {}) got ({}, {})", i, e.pts[i].0.to_f64(), e.pts[i].1.to_f64(), o.arg1, o.arg2));
                }
            }
            let want_instr: &[u8] = if comps.last().map_or(false, |c| c.flags & 0x0100 != 0) { &RAW_COMPOSITE_INSTRUCTIONS } else { &[] };
            if instructions.as_slice() != want_instr {
                return Some(format!("structure: composite instructions {:?} became {:?}", want_instr, instructions));
            }
            None
        }
        (s, o) => Some(format!("structure: {} became {}", shape_kind(s), out_kind(o))),
    }
}

fn shape_kind(s: &Shape) -> &'static str {
    match s {
        Shape::Empty => "empty",
        Shape::Simple(_) => "simple",
        Shape::Composite(_) | Shape::RawComposite(..) => "composite",
    }
}
fn out_kind(s: &OutGlyph) -> &'static str {
    match s {
        OutGlyph::Empty => "empty",
        OutGlyph::Simple { .. } => "simple",
        OutGlyph::Composite { .. } => "composite",
    }
}

/// Deviation switches of the reference model. A disagreement is attributed to switch K (key `C12:deviation:K`) only if
/// the *whole* output of that evaluation (every glyph, every metric, every MVAR field) agrees with the reference
/// evaluated with exactly K switched on.
/// Neither switch describes the current tree (IUP was never missing; the region validity clauses were repaired in /repo,
/// see KNOWN_FINDINGS.txt), so none is a candidate: a return of either behaviour is reported under the generic keys.
const SWITCHES: [(&str, EvalOpts); 0] = [];
#[allow(dead_code)]
const RETIRED_SWITCHES: [(&str, EvalOpts); 2] = [
    ("inferred-deltas-not-applied", EvalOpts { no_region_validity_clauses: false, no_iup: true }),
    ("region-validity-clauses-of-the-scalar-algorithm-not-applied", EvalOpts { no_region_validity_clauses: true, no_iup: false }),
];

/// What allsorts produced for one user tuple, decoded independently.
struct Observed {
    sf: StaticFont,
    nc: Vec<i16>,
    /// MVAR-controllable fields of the output, in the order of `Subject::mvar_defaults`
    fields: Vec<Option<i64>>,
    /// 'cvt ' of the output
    cvt: Option<Vec<i16>>,
}

#[derive(Default)]
struct Flags {
    nontrivial: bool,
    inferred: bool,
}

/// Compare the observed instance with the reference model evaluated under `opts`; returns (key, detail) per mismatch.
fn compare(s: &Subject<'_>, prepared: &Prepared<'_>, o: &Observed, at_default: bool, flags: &mut Flags) -> Vec<(String, Value)> {
    let font = &s.case.font;
    let opts = prepared.opts;
    let (sf, nc) = (&o.sf, &o.nc);
    let mut bad: Vec<(String, Value)> = Vec::new();
    for g in 0..font.glyphs.len() {
        let e = prepared.eval_glyph(g, nc);
        flags.nontrivial |= e.moved && e.applicable > 0;
        flags.inferred |= e.inferred && e.moved;
        let shape = &font.glyphs[g].shape;
        // outlines / component offsets
        if let Some(d) = glyph_diff(shape, &e, &sf.glyphs[g], false) {
            let key = if d.starts_with("structure") { "C12:gvar:glyph-structure-changed" } else { "C12:gvar:outline-mismatch" };
            bad.push((key.into(), json!({"glyph": g, "normalised": nc, "difference": d, "output_glyph": format!("{:?}", sf.glyphs[g])})));
        } else if at_default && e.applicable == 0 {
            if let Some(d) = glyph_diff(shape, &e, &sf.glyphs[g], true) {
                bad.push(("C12:default-instance-differs-from-default-master".into(), json!({"glyph": g, "difference": d})));
            }
        }
        // glyph header bounding box: must describe the (flattened) instanced outline
        let demand_bbox = match shape {
            Shape::Composite(_) => true,
            Shape::Simple(_) => e.moved && e.applicable > 0,
            _ => false,
        };
        let header = match &sf.glyphs[g] {
            OutGlyph::Simple { bbox, .. } | OutGlyph::Composite { bbox, .. } => Some(*bbox),
            OutGlyph::Empty => None,
        };
        if let (true, Some(hd), Some(mb)) = (demand_bbox, header, prepared.instanced_bbox(g, nc)) {
            let ob = static_bbox(sf, g, 0);
            let ok = (0..4).all(|k| mb[k].within(hd[k] as i64, TOL.0, TOL.1) || ob.map_or(false, |o| (o[k] - hd[k] as i64).abs() <= 1));
            if !ok {
                let key = if matches!(shape, Shape::Composite(_)) { "C12:composite:bounding-box-mismatch" } else { "C12:simple:bounding-box-mismatch" };
                bad.push((key.into(), json!({"glyph": g, "normalised": nc, "header_bbox": hd, "model_bbox": mb.iter().map(|v| v.to_f64()).collect::<Vec<_>>(), "bbox_of_output_outline": ob})));
            }
        }
        // advance width
        let (adv, lsb) = sf.metrics[g];
        let adv_ph = e.phantom_x[1].sub(e.phantom_x[0]);
        let mut adv_want = Vec::new();
        match &font.hvar {
            Some(hv) => {
                match hvar_advance_delta(hv, g, nc, &opts) {
                    Some(d) => adv_want.push(Rat::int(font.glyphs[g].advance as i64).add(d)),
                    None => panic!("machinery: model HVAR has no delta set for glyph {}", g),
                }
                if s.case.hvar_inconsistent {
                    adv_want.push(adv_ph);
                }
            }
            None => adv_want.push(adv_ph),
        }
        if !adv_want.iter().any(|w| w.within(adv as i64, TOL.0, TOL.1)) {
            let key = if font.hvar.is_some() { "C12:hvar:advance-mismatch" } else { "C12:phantom-points:advance-mismatch" };
            bad.push((key.into(), json!({"glyph": g, "normalised": nc, "expected_advance": adv_want.iter().map(|w| w.to_f64()).collect::<Vec<_>>(), "got_advance": adv})));
        }
        // left side bearing
        let mut lsb_want: Vec<Rat> = Vec::new();
        let hv_lsb = font.hvar.as_ref().and_then(|hv| hvar_lsb_delta(hv, g, nc, &opts));
        if let Some(d) = hv_lsb {
            lsb_want.push(Rat::int(font.glyphs[g].lsb as i64).add(d));
        }
        if let (Shape::RawComposite(..), Some(hd)) = (shape, header) {
            // components placed by point numbers or transformed: the flattened extent is not modelled (see the assumption);
            // the side bearing must still be consistent with the xMin the instance declares for the glyph
            lsb_want.push(Rat::int(hd[0] as i64).sub(e.phantom_x[0]));
        } else if hv_lsb.is_none() || s.case.hvar_inconsistent {
            match prepared.instanced_xmin(g, nc) {
                Some(x) => {
                    lsb_want.push(x.sub(e.phantom_x[0]));
                    // the extent of the rounded output outline is an equally good reference for xMin
                    if let Some(xo) = static_xmin(sf, g, 0) {
                        lsb_want.push(Rat::int(xo).sub(e.phantom_x[0]));
                    }
                }
                None => {
                    // no contours: xMin is undefined; the hmtx specification asks for 0, lsb = 0 - pp1 is the formula
                    lsb_want.push(Rat::ZERO);
                    lsb_want.push(Rat::ZERO.sub(e.phantom_x[0]));
                }
            }
        }
        if !lsb_want.iter().any(|w| w.within(lsb as i64, TOL.0, TOL.1)) {
            let key = if hv_lsb.is_some() { "C12:hvar:lsb-mismatch" } else { "C12:phantom-points:lsb-mismatch" };
            bad.push((key.into(), json!({"glyph": g, "normalised": nc, "expected_lsb": lsb_want.iter().map(|w| w.to_f64()).collect::<Vec<_>>(), "got_lsb": lsb})));
        }
        let lsb_exact = !matches!(shape, Shape::RawComposite(..));
        if at_default && (adv != font.glyphs[g].advance || (lsb_exact && lsb != font.glyphs[g].lsb)) && e.applicable == 0 {
            bad.push(("C12:default-instance-differs-from-default-master".into(), json!({"glyph": g, "source_metrics": [font.glyphs[g].advance as i64, font.glyphs[g].lsb as i64], "got": [adv as i64, lsb as i64]})));
        }
    }
    // cvt values varied by cvar
    if let (Some(src), false) = (&font.cvt, cvar_malformed(font)) {
        match (&o.cvt, eval_cvt(font, nc, &opts)) {
            (None, _) => {
                // an empty cvt table carries nothing: dropping it is accepted
                if !src.is_empty() {
                    bad.push(("C12:cvar:cvt-missing-from-output".into(), json!({"source_cvt_entries": src.len()})));
                }
            }
            (Some(got), Some(want)) => {
                if got.len() != src.len() {
                    bad.push(("C12:cvar:cvt-length-changed".into(), json!({"source_cvt_entries": src.len(), "output_cvt_entries": got.len()})));
                } else {
                    for i in 0..src.len() {
                        let moved = want[i] != Rat::int(src[i] as i64);
                        flags.nontrivial |= moved;
                        if want[i].lt(Rat::int(-32768)) || Rat::int(32767).lt(want[i]) {
                            // not representable: no correct value exists for this entry
                            continue;
                        }
                        let ok = if moved { want[i].within(got[i] as i64, TOL.0, TOL.1) } else { got[i] == src[i] };
                        if !ok {
                            let key = if moved { "C12:cvar:value-mismatch" } else { "C12:cvar:unvaried-cvt-entry-changed" };
                            bad.push((key.into(), json!({"cvt_index": i, "normalised": nc, "default": src[i], "expected": want[i].to_f64(), "got": got[i]})));
                            break;
                        }
                    }
                }
            }
            (Some(_), None) => {}
        }
    }
    // MVAR-controlled metrics
    for (k, (vt, def)) in s.mvar_defaults.iter().enumerate() {
        let got = match o.fields[k] {
            Some(v) => v,
            None => {
                bad.push(("C12:mvar:target-table-missing".into(), json!({"value_tag": otmodel::tag_str(*vt)})));
                continue;
            }
        };
        let delta = font.mvar.as_ref().and_then(|m| mvar_delta(m, *vt, nc, &opts));
        let want = Rat::int(*def).add(delta.unwrap_or(Rat::ZERO));
        let moved = delta.map_or(false, |d| !d.is_zero());
        flags.nontrivial |= moved;
        let ok = if !moved { want == Rat::int(got) } else { want.within(got, TOL.0, TOL.1) };
        if !ok {
            let key = if delta.is_none() {
                "C12:mvar:untargeted-field-changed"
            } else if at_default && !moved {
                "C12:default-instance-differs-from-default-master"
            } else {
                "C12:mvar:value-mismatch"
            };
            bad.push((key.into(), json!({"value_tag": otmodel::tag_str(*vt), "normalised": nc, "default": def, "expected": want.to_f64(), "got": got})));
        }
    }
    bad
}

/// Run one (font, user tuple) evaluation. Returns (outcome hash, non-trivial, inferred deltas in play).
fn check_one(ctx: &Ctx, s: &Subject<'_>, provider: &impl allsorts::tables::FontTableProvider, user: &[i32]) -> (u64, bool, bool) {
    let font = &s.case.font;
    let fixed: Vec<Fixed> = user.iter().map(|u| Fixed::from_raw(*u)).collect();
    let r = guard(|| allsorts::variations::instance(provider, &fixed).map(|(out, t)| (out, t.iter().map(|v| v.raw_value()).collect::<Vec<i16>>())));
    let (out, got_tuple) = match r {
        Err(p) => {
            ctx.violation(&format!("C12:panic:{}", panic_site(&p)), || witness(s, user, json!({"panic": p.msg, "at": p.loc()})));
            return (H::new().str("panic").get(), false, false);
        }
        Ok(Err(e)) => {
            let e = format!("{:?}", e);
            if s.case.extreme {
                // advance widths above 32767 do not fit the i16 phantom points: allsorts refuses to instance such a
                // font. The property constrains *successful* instances only, so a clean refusal is accepted.
                return (H::new().str("extreme-refused").get(), false, false);
            }
            if font.cvar.is_some() {
                // a cvar that cannot be applied (no cvt, CVT index beyond the table) or whose result does not fit an
                // int16 may be refused cleanly
                let nc_exp: Vec<i16> = font.axes.iter().enumerate().map(|(i, a)| normalise(a, None, user[i] as i64)).map(|r| (r.n / r.d) as i16).collect();
                if cvar_malformed(font) || cvt_overflows(font, &nc_exp) {
                    return (H::new().str("cvar-refused").get(), false, false);
                }
                let key = format!("C12:cvar:wellformed-font-rejected:{}", err_class(&e));
                ctx.violation(&key, || witness(s, user, json!({"error": e})));
                return (H::new().str("error").get(), false, false);
            }
            let key = format!("C12:wellformed-font-rejected:{}", err_class(&e));
            ctx.violation(&key, || witness(s, user, json!({"error": e})));
            return (H::new().str("error").get(), false, false);
        }
        Ok(Ok(x)) => x,
    };
    // normalised coordinates: exact when there is no avar; within one unit of the exact avar value otherwise
    let mut nc: Vec<i16> = Vec::new();
    for (i, a) in font.axes.iter().enumerate() {
        let map = font.avar.as_ref().map(|m| m[i].as_slice());
        let want = normalise(a, map, user[i] as i64);
        let got = got_tuple.get(i).copied();
        let ok = match got {
            None => false,
            Some(g) => {
                if font.avar.is_none() {
                    want == Rat::int(g as i64)
                } else {
                    want.within(g as i64, 1, 1)
                }
            }
        };
        if !ok {
            ctx.violation("C12:normalised-coordinate-mismatch", || witness(s, user, json!({"axis": i, "expected_2.14": want.to_f64(), "got_tuple": got_tuple})));
            return (H::new().str("norm").get(), false, false);
        }
        nc.push(got.unwrap());
    }
    let at_default = user.iter().zip(&font.axes).all(|(u, a)| *u == a.def);
    if at_default && nc.iter().any(|c| *c != 0) {
        ctx.violation("C12:normalised-coordinate-mismatch", || witness(s, user, json!({"at_default_but_tuple": got_tuple})));
    }

    // the output: a static, loadable font
    let sf = match read_static(&out) {
        Ok(sf) => sf,
        Err(e) => {
            ctx.violation(&format!("C12:output-unreadable:{}", err_class(&e)), || witness(s, user, json!({"problem": e, "output_hex": mcx::hex(&out)})));
            return (H::new().str("unreadable").get(), false, false);
        }
    };
    for t in [b"fvar", b"avar", b"gvar", b"cvar", b"HVAR", b"MVAR", b"VVAR"] {
        if sf.tags.contains(&tag(t)) {
            ctx.violation(if t == b"cvar" { "C12:cvar:cvar-left-in-output" } else { "C12:variation-table-left-in-output" }, || witness(s, user, json!({"table": String::from_utf8_lossy(t)})));
        }
    }
    let loaded = guard(|| {
        let fd = ReadScope::new(&out).read::<FontData<'_>>().map_err(|e| format!("FontData {:?}", e))?;
        let p = fd.table_provider(0).map_err(|e| format!("table_provider {:?}", e))?;
        let f = Font::new(p).map_err(|e| format!("Font::new {:?}", e))?;
        Ok::<(bool, u16), String>((f.is_variable(), f.num_glyphs()))
    });
    match loaded {
        Err(p) => ctx.violation(&format!("C12:panic:{}", panic_site(&p)), || witness(s, user, json!({"panic_loading_output": p.msg}))),
        Ok(Err(e)) => ctx.violation(&format!("C12:output-does-not-load:{}", err_class(&e)), || witness(s, user, json!({"error": e}))),
        Ok(Ok((var, n))) => {
            if var {
                ctx.violation("C12:output-is-still-variable", || witness(s, user, json!({})));
            }
            if n as usize != font.glyphs.len() {
                ctx.violation("C12:glyph-count-changed", || witness(s, user, json!({"num_glyphs": n})));
            }
        }
    }
    if sf.glyphs.len() != font.glyphs.len() {
        ctx.violation("C12:glyph-count-changed", || witness(s, user, json!({"glyphs_in_output": sf.glyphs.len()})));
        return (H::new().str("count").get(), false, false);
    }
    let fields: Vec<Option<i64>> = match otmodel::sfnt::parse(&out) {
        Some(of) => s.mvar_defaults.iter().map(|(vt, _)| field(&of, *vt)).collect(),
        None => vec![None; s.mvar_defaults.len()],
    };
    let cvt_out: Option<Vec<i16>> = otmodel::sfnt::parse(&out).and_then(|of| of.table(tag(b"cvt ")).map(|d| d.chunks(2).filter(|c| c.len() == 2).map(|c| i16::from_be_bytes([c[0], c[1]])).collect()));
    let obs = Observed { sf, nc, fields, cvt: cvt_out };

    let mut flags = Flags::default();
    let bad = compare(s, &s.prepared, &obs, at_default, &mut flags);
    if !bad.is_empty() {
        let mut attributed = false;
        for (name, o) in SWITCHES {
            let alt = Prepared::new(font, o);
            if compare(s, &alt, &obs, at_default, &mut Flags::default()).is_empty() {
                ctx.violation(&format!("C12:deviation:{}", name), || witness(s, user, json!({"output_equals_the_reference_with_this_switch": name, "differences_from_the_specification": bad.iter().map(|b| json!({"key": b.0, "detail": b.1})).collect::<Vec<_>>()})));
                attributed = true;
                break;
            }
        }
        if !attributed {
            for (key, detail) in &bad {
                let key = if s.case.extreme { key.replace("C12:", "C12:extreme:") } else { key.clone() };
                ctx.violation(&key, || witness(s, user, detail.clone()));
            }
        }
    }

    let mut h = H::new();
    for (g, m) in obs.sf.metrics.iter().enumerate() {
        h = h.u64(m.0 as u64).u64(m.1 as u16 as u64);
        match &obs.sf.glyphs[g] {
            OutGlyph::Simple { contours, .. } => {
                for p in contours.iter().flatten() {
                    h = h.u64(p.0 as u32 as u64).u64(p.1 as u32 as u64);
                }
            }
            OutGlyph::Composite { comps, .. } => {
                for c in comps {
                    h = h.u64(c.arg1 as u32 as u64).u64(c.arg2 as u32 as u64);
                }
            }
            OutGlyph::Empty => {}
        }
    }
    for f in &obs.fields {
        h = h.u64(f.unwrap_or(i64::MIN) as u64);
    }
    for v in obs.cvt.iter().flatten() {
        h = h.u64(*v as u16 as u64);
    }
    (h.get(), flags.nontrivial, flags.inferred)
}

/// Build the subject for one case and evaluate the given coordinate tuples. Returns the number of evaluations.
fn run_case(ctx: &Ctx, family: &str, idx: &[usize], case: &Case, users: &[Vec<i32>]) -> u64 {
    let bytes = build_font(&case.font);
    let problems = otmodel::sfnt::validate(&bytes);
    assert!(problems.is_empty(), "machinery: model font is not a valid sfnt: {:?}", problems);
    let src = otmodel::sfnt::parse(&bytes).expect("machinery: model font");
    let mvar_defaults: Vec<(u32, i64)> = MVAR_TAGS.iter().map(|t| (tag(t), field(&src, tag(t)).expect("machinery: default field"))).collect();
    let s = Subject { family, idx, case, bytes: &bytes, prepared: Prepared::new(&case.font, EvalOpts::default()), mvar_defaults };
    let fd = match guard(|| ReadScope::new(&bytes).read::<FontData<'_>>()) {
        Ok(Ok(fd)) => fd,
        other => {
            ctx.violation("C12:wellformed-font-rejected:FontData", || witness(&s, &[], json!({"result": format!("{:?}", other.map(|r| r.map(|_| ())))})));
            return 0;
        }
    };
    let provider = match fd.table_provider(0) {
        Ok(p) => p,
        Err(e) => {
            ctx.violation("C12:wellformed-font-rejected:table_provider", || witness(&s, &[], json!({"error": format!("{:?}", e)})));
            return 0;
        }
    };
    let case_hash = H::new().str(family).bytes(&idx.iter().flat_map(|i| (*i as u32).to_le_bytes()).collect::<Vec<u8>>());
    let mut n = 0;
    for (k, user) in users.iter().enumerate() {
        let (outcome, nontrivial, inferred) = check_one(ctx, &s, &provider, user);
        n += 1;
        ctx.mark_outcome(outcome);
        let ch = case_hash.u64(k as u64).bytes(&user.iter().flat_map(|u| u.to_le_bytes()).collect::<Vec<u8>>()).get();
        if nontrivial {
            ctx.mark_nontrivial(ch);
        }
        if inferred {
            INFERRED.fetch_add(1, std::sync::atomic::Ordering::Relaxed);
        }
        ctx.sample(ch, || {
            let g1: String = format!("{:?}", case.font.gvar.get(1)).chars().take(700).collect();
            json!({"family": family, "idx": idx, "user_tuple_16.16": user, "moved_something": nontrivial, "inferred_deltas": inferred, "gvar_glyph1": g1})
        });
    }
    n
}

static INFERRED: std::sync::atomic::AtomicU64 = std::sync::atomic::AtomicU64::new(0);

fn run_family(ctx: &Ctx, family: &str, thorough: bool) {
    let t0 = ctx.elapsed();
    let d = dims(family, thorough);
    let total: usize = d.iter().product();
    let (fonts, evals): (u64, u64) = (0..total)
        .into_par_iter()
        .map(|flat| {
            let idx = decode(flat, &d);
            if !in_tier(family, &idx, thorough) {
                return (0, 0);
            }
            match gen(family, &idx) {
                None => (0, 0),
                Some(case) => {
                    let users: Vec<Vec<i32>> = case.coords.iter().map(|c| users_of(&case, c)).collect();
                    (1, run_case(ctx, family, &idx, &case, &users))
                }
            }
        })
        .reduce(|| (0, 0), |a, b| (a.0 + b.0, a.1 + b.1));
    ctx.evals(evals);
    ctx.add_states(total as u64 + fonts + evals);
    ctx.add_transitions(fonts + evals);
    ctx.set(&format!("family_{}", family), json!({"index_space": d, "fonts": fonts, "instances": evals, "wall_s": ((ctx.elapsed() - t0) * 100.0).round() / 100.0}));
}

/// Model fonts and user tuples handed to C09, which runs the structural validator on the instancer's output: a
/// deterministic slice (every `stride`-th member of the index space) of the families whose glyph sets contain
/// composites, several contours, many points and HVAR/MVAR metrics.
pub fn corpus_for_c09(thorough: bool) -> Vec<(String, Vec<u8>, Vec<Vec<i32>>)> {
    let mut out = Vec::new();
    for (family, stride) in [("regions1", if thorough { 3usize } else { 11 }), ("regions2", if thorough { 7 } else { 5 }), ("metrics", 5), ("packing", 13), ("iup", if thorough { 211 } else { 1999 })] {
        let d = dims(family, thorough);
        let total: usize = d.iter().product();
        for flat in (0..total).step_by(stride) {
            let idx = decode(flat, &d);
            if !in_tier(family, &idx, thorough) {
                continue;
            }
            if let Some(case) = gen(family, &idx) {
                let users: Vec<Vec<i32>> = case.coords.iter().map(|c| users_of(&case, c)).collect();
                out.push((format!("c12 model font {} {:?}", family, idx), build_font(&case.font), users));
            }
        }
    }
    out
}

/// A few model fonts used as seeds of the C01 fault sweep: one per HVAR kind (direct, mapped, several subtables,
/// LONG_WORDS ...) with an MVAR, one with intermediate regions and shared points, the 300-point packing glyph.
pub fn seeds_for_c01() -> Vec<(String, Vec<u8>)> {
    let mut out = Vec::new();
    let mut add = |family: &str, idx: Vec<usize>| {
        if let Some(case) = gen(family, &idx) {
            out.push((format!("c12-{}-{}", family, idx.iter().map(|i| i.to_string()).collect::<Vec<_>>().join("-")), build_font(&case.font)));
        }
    };
    for hk in 0..8 {
        add("metrics", vec![hk, hk % 4, 1, hk % 2, hk % 3]);
    }
    add("regions1", vec![60, 3, 0, 1]);
    add("regions2", vec![40, 0]);
    add("packing", vec![1, 1, 1, 4, 1, 1, 1]);
    // well-formed cvt + cvar: 40 CVT entries, three tuples incl. an intermediate region, shared and private CVT index
    // lists; 3 entries on two axes with all-entries tuples
    add("cvar", vec![3, 4, 3, 1, 0, 0]);
    add("cvar", vec![2, 6, 0, 0, 0, 6]);
    out.extend(composite_seeds());
    out
}

/// Variable fonts whose composite glyphs are nested, cyclic or otherwise unusual, each composite with gvar data so
/// that the instancer moves its components and recalculates its bounding box through the component tree.
/// Only for the crash checks (C01): the reference evaluator does not interpret these components.
pub fn composite_seeds() -> Vec<(String, Vec<u8>)> {
    const XY: u16 = 0x0002 | 0x0004; // ARGS_ARE_XY_VALUES | ROUND_XY_TO_GRID
    let rc = |gid: u16, dx: i16, dy: i16| RawComp { flags: XY | 0x0001, gid, arg1: dx, arg2: dy, transform: vec![] };
    let square = GlyphDef { shape: Shape::Simple(vec![vec![pt(0, 0, true), pt(100, 0, true), pt(100, 100, true), pt(0, 100, true)]]), advance: 1000, lsb: 0 };
    let raw = |comps: Vec<RawComp>| GlyphDef { shape: Shape::RawComposite([0, 0, 100, 100], comps), advance: 1000, lsb: 0 };
    // one tuple at peak +1 with a delta for every component and phantom point
    let var = |n: usize, g: usize| -> Option<GlyphVar> {
        let d: Vec<(i16, i16)> = (0..n + 4).map(|j| (M[(g + 2 * j + 3) % 13], M[(3 * g + j + 5) % 13])).collect();
        Some(GlyphVar { tuples: vec![tuple(vec![ONE], None, PointSel::All, d)], shared_points: None, shared_pt_pack: PtPack::default() })
    };
    let build = |name: &str, glyphs: Vec<GlyphDef>| -> (String, Vec<u8>) {
        let gvar: Vec<Option<GlyphVar>> = glyphs.iter().enumerate().map(|(g, gd)| if g == 0 { None } else { var(gd.shape.num_points(), g) }).collect();
        (format!("c12-composite-{}", name), build_font(&base_font(vec![axis(0, 0)], glyphs, gvar)))
    };
    let mut out = Vec::new();
    // (a) a composite whose component is itself; and one that enters the self-cycle from outside
    out.push(build("self-cycle", vec![empty_glyph(600), square.clone(), raw(vec![rc(2, 10, 10)])]));
    out.push(build("enters-self-cycle", vec![empty_glyph(600), square.clone(), raw(vec![rc(1, 0, 0), rc(2, 10, 10)]), raw(vec![rc(2, 5, 5)])]));
    // (b) two composites referencing each other; and a third one that enters that cycle from outside
    out.push(build("mutual-cycle", vec![empty_glyph(600), square.clone(), raw(vec![rc(3, 10, 0)]), raw(vec![rc(2, 0, 10)])]));
    out.push(build("enters-mutual-cycle", vec![empty_glyph(600), square.clone(), raw(vec![rc(1, 0, 0), rc(3, 10, 0)]), raw(vec![rc(2, 0, 10)]), raw(vec![rc(2, 5, 5)])]));
    out.push(build("three-cycle", vec![empty_glyph(600), square.clone(), raw(vec![rc(3, 10, 0)]), raw(vec![rc(4, 0, 10)]), raw(vec![rc(2, 3, 3), rc(1, 0, 0)])]));
    // (c) chains of nested composites: glyph 2 -> 1, glyph 3 -> 2, ...
    for depth in [3usize, 7, 12] {
        let mut g = vec![empty_glyph(600), square.clone()];
        for k in 0..depth {
            g.push(raw(vec![rc(1 + k as u16, 10, -10), rc(1, 200, 0)]));
        }
        out.push(build(&format!("chain-depth-{}", depth), g));
    }
    // the deepest glyph first, so that it is processed before its children
    {
        let depth = 12u16;
        let mut g = vec![empty_glyph(600), square.clone()];
        for k in 0..depth {
            let child = if k + 1 == depth { 1 } else { 3 + k };
            g.push(raw(vec![rc(child, 10, -10)]));
        }
        out.push(build("chain-depth-12-parent-first", g));
    }
    // (d) a component glyph id beyond numGlyphs
    out.push(build("component-beyond-num-glyphs", vec![empty_glyph(600), square.clone(), raw(vec![rc(1, 0, 0), rc(999, 10, 10)]), raw(vec![rc(0xFFFF, 1, 1)])]));
    // (e) point-number arguments (ARGS_ARE_XY_VALUES clear), bytes and words, in range and out of range
    out.push(build(
        "point-number-arguments",
        vec![
            empty_glyph(600),
            square.clone(),
            raw(vec![rc(1, 0, 0), RawComp { flags: 0, gid: 1, arg1: 2, arg2: 1, transform: vec![] }]),
            raw(vec![rc(1, 0, 0), RawComp { flags: 0x0001, gid: 1, arg1: 3, arg2: 0, transform: vec![] }]),
        ],
    ));
    out.push(build(
        "point-number-arguments-out-of-range",
        vec![empty_glyph(600), square.clone(), raw(vec![rc(1, 0, 0), RawComp { flags: 0x0001, gid: 1, arg1: 300, arg2: -1, transform: vec![] }])],
    ));
    // (f) 2x2 transform with SCALED_COMPONENT_OFFSET; also a plain scale and an x/y scale with UNSCALED_COMPONENT_OFFSET
    out.push(build(
        "transforms",
        vec![
            empty_glyph(600),
            square.clone(),
            raw(vec![RawComp { flags: XY | 0x0001 | 0x0080 | 0x0800, gid: 1, arg1: 50, arg2: -30, transform: vec![8192, 4096, -4096, 16384] }]),
            raw(vec![
                RawComp { flags: XY | 0x0008 | 0x0800, gid: 1, arg1: 5, arg2: 6, transform: vec![-32768] },
                RawComp { flags: XY | 0x0001 | 0x0040 | 0x1000, gid: 2, arg1: 500, arg2: 0, transform: vec![32767, -16384] },
            ]),
        ],
    ));
    out
}

/// thorough: every normalised value of a 1-axis font
fn run_full_grid(ctx: &Ctx) {
    let mut cases: Vec<(&str, Vec<usize>)> = Vec::new();
    for si in 0..R1_SETS {
        // axis kind 0 (-1..0..1) for even sets, kind 1 (-16384..0..16384) for odd sets
        cases.push(("regions1", vec![si, si % 6, si % 2, 0]));
    }
    for hk in 0..8 {
        for rk in 0..2 {
            cases.push(("metrics", vec![hk, (hk + rk) % 4, 1 + (hk + rk) % 2, hk % 2, rk]));
        }
    }
    for (si, s, ph, pat) in [(7usize, 5usize, 1usize, 1usize), (100, 9, 0, 2), (200, 6, 2, 3), (321, 0b100101, 1, 1), (322, 0b001001, 2, 4), (324, 0b010010, 0, 1), (325, 0b100001, 1, 3)] {
        cases.push(("iup", vec![si, s, ph, pat]));
    }
    // split each font's grid into 8 chunks for load balancing
    let chunks: Vec<(usize, usize)> = (0..cases.len()).flat_map(|c| (0..8).map(move |k| (c, k))).collect();
    let (evals, fonts): (u64, u64) = chunks
        .par_iter()
        .map(|&(c, k)| {
            let (family, idx) = &cases[c];
            let case = gen(family, idx).expect("machinery: full grid case");
            let kind = case.kinds[0];
            let lo = -16384 + k as i32 * 4097;
            let hi = (lo + 4096).min(16384);
            let users: Vec<Vec<i32>> = (lo..=hi).map(|n| vec![user_of(kind, Coord::N(n))]).collect();
            (run_case(ctx, family, idx, &case, &users), if k == 0 { 1 } else { 0 })
        })
        .reduce(|| (0, 0), |a, b| (a.0 + b.0, a.1 + b.1));
    ctx.evals(evals);
    ctx.add_states(evals + fonts);
    ctx.add_transitions(evals);
    ctx.set("full_grid", json!({"fonts": fonts, "normalised_values_per_font": 32769, "instances": evals}));
}

pub fn run(ctx: &Ctx) {
    let thorough = ctx.tier.thorough();
    ctx.set_rule(
        "case = (model font from one of five index spaces: iup = glyph geometry x referenced point subset x phantom selection x delta pattern; \
         regions1/regions2 = set of 1..3 regions on 1 or 2 axes x encoding profile (embedded/shared peaks, private/shared/all point numbers) x axis kind x avar; \
         packing = 300-point glyph x delta fill x packed delta run form x packed point number form; metrics = HVAR kind x MVAR kind x phantom deltas x \
         numberOfHMetrics x region set; invalid1 = a region the scalar algorithm declares invalid, alone or with a valid one, x encoding profile; \
         extreme = 4 fonts whose advance widths leave the int16 range; nested = glyph order x nesting depth 2/3 x HVAR none/advance/advance+lsb x \
         component pattern) x (user coordinate: every region start/peak/end +-1 unit, midpoints, thirds, 0, +-1, beyond the axis range; thorough: \
         all 32769 normalised values for 1-axis fonts); non-trivial = some region has a non-zero scalar and a non-zero delta for some glyph, or an MVAR delta \
         is non-zero; distinct by (family, index vector, user tuple)",
    );
    ctx.assume("a font whose advance width exceeds 32767 (family extreme) may be refused with an error: the property constrains successful instances only");
    ctx.assume("tolerance = one font unit (+2^-10: the specification asks implementations for at least 16 fractional bits) per coordinate, offset, advance, side bearing and MVAR value");
    ctx.assume("left side bearing of a glyph with contours = xMin - pp1.x; xMin may be taken from the exact model or from the rounded output outline");
    ctx.assume("a glyph without contours has no xMin: lsb 0 (hmtx recommendation) and 0 - pp1.x are both accepted");
    ctx.assume("when HVAR disagrees with the gvar phantom point deltas (font not self-consistent) either source is accepted for the advance (HarfBuzz uses HVAR, fontTools the phantom points)");
    ctx.assume("the glyf header bounding box is the box of all points of the (flattened) outline, on- and off-curve ('coordinate data'); it is demanded for composites and for simple glyphs whose points moved, against the exact model or the rounded output outline, each value within one unit");
    ctx.assume("cvar: cvt[i] = default + sum scalar * delta, any rounding of the sum within one unit is accepted (the specification says the deltas are applied to the CVT values and is silent on rounding; fontTools and allsorts round the summed delta once); entries no region touches must be byte-identical; an entry whose exact value leaves the int16 range has no correct value (any value, or a clean error, is accepted)");
    ctx.assume("cvar without a cvt table, or referring to a CVT index beyond the table, is malformed: the specification gives no rule; a clean error or an instance that ignores the variation is accepted, a panic is not");
    ctx.assume("family anchored: the component records of the instance are compared (glyph ids, flags except ARG_1_AND_2_ARE_WORDS, point numbers, transforms, instructions; xy offsets = default + scaled delta within one unit; point-number components ignore deltas as gvar prescribes). The flattened extent of composites with anchored or transformed components is not modelled (allsorts places anchored components at offset zero, known finding of C16): their header bounding box is not compared and their left side bearing is checked against the xMin the instance itself declares");
    ctx.assume("STAT is not a variation table (static fonts carry it); fvar, avar, gvar, cvar, HVAR, MVAR, VVAR must be absent from the output");
    ctx.assume("packed deltas are encoded with runs that do not span the boundary between the x and y arrays (FreeType and HarfBuzz decode the two arrays separately)");
    ctx.assume("model fonts: axis tags TSTA/TSTB (no wght/wdth/slnt side effects on OS/2), axes -1..0..1, -16384..0..16384 and 0..0..1 so that user values hit normalised grid values exactly");
    ctx.assume("regions with start > peak, peak > end, or start < 0 < end with a non-zero peak are evaluated as the scalar algorithm prescribes (the axis is ignored: scalar 1); HarfBuzz and fontTools do the same");
    ctx.assume("family extreme: an advance width above 32767 is a valid uint16 hmtx value; instancing such a font must either produce the interpolated advance or fail cleanly - a panic, a saturated value, or the rejection of a font whose default advance exceeds 32767 is reported under C12:extreme:* / C12:panic:*");
    for f in FAMILIES {
        run_family(ctx, f, thorough);
    }
    // CFF2 variable fonts through variations::instance (CFF2::instance_char_strings, HVAR) against the blend model
    crate::c12cff2::run_phase(ctx);
    if thorough {
        run_full_grid(ctx);
    }
    ctx.set("instances_with_inferred_deltas_in_play", json!(INFERRED.load(std::sync::atomic::Ordering::Relaxed)));
    ctx.set(
        "bounds",
        json!({
            "axes": "1..2", "glyph_points": "3..6 (iup), 300 (packing)", "contours": "1..3", "tuples_per_glyph": "1..3",
            "peaks": "+-1, +-0.5 and intermediate regions", "deltas": M, "composite": "2 components, xy offsets", "tier": ctx.tier.name(),
        }),
    );
}

pub fn replay(w: &Value) -> Result<(), String> {
    let family = w["family"].as_str().ok_or("witness has no family")?.to_string();
    if family == "cff2" {
        return crate::c12cff2::replay(w);
    }
    let idx: Vec<usize> = w["idx"].as_array().ok_or("witness has no idx")?.iter().map(|v| v.as_u64().unwrap_or(0) as usize).collect();
    let user: Vec<i32> = w["user_tuple_16.16"].as_array().ok_or("witness has no user tuple")?.iter().map(|v| v.as_i64().unwrap_or(0) as i32).collect();
    let case = gen(&family, &idx).ok_or("the index vector does not denote a case")?;
    if let Some(hexs) = w["font_hex"].as_str() {
        if !hexs.starts_with('(') && mcx::unhex(hexs) != build_font(&case.font) {
            return Err("machinery: the regenerated model font differs from the recorded font bytes".into());
        }
    }
    let ctx = Ctx::new("C12", mcx::Tier::Quick, "model_checking");
    let users = if user.is_empty() { case.coords.iter().map(|c| users_of(&case, c)).collect() } else { vec![user] };
    run_case(&ctx, &family, &idx, &case, &users);
    let keys = ctx.violation_keys();
    if keys.is_empty() {
        Ok(())
    } else {
        Err(format!("{:?}", keys))
    }
}
