//! C17 — text preprocessing only reorders marks and applies the documented decompositions.
//!
//! Subject: `allsorts::scripts::preprocess_text(&mut Vec<char>, script_tag)` (what `Font::map_glyphs`
//! runs before mapping characters to glyphs).
//!
//! Space: per script tag (all 20 tags `ScriptType::from` maps + 3 unmapped ones) an alphabet of 12–14
//! code points; EVERY string over the alphabet up to a length bound (5 quick / 7 thorough) is fed to the
//! real function and compared with reference models written from the specifications:
//!
//! * canonical reordering by *modified* combining class (Unicode canonical ordering with the class
//!   remappings of the OpenType shaping documents: SBL-Hebrew order, Thai 103→3, Telugu 84→4 / 91→5),
//! * UTR #53 (AMTRA) steps 2a–2c for Arabic,
//! * SARA AM / Lao AM decomposition with NIKHAHIT moved before the above-base marks (Thai/Lao),
//! * Khmer split vowels (prefix U+17C1), Indic two/three-part matras (= the canonical decompositions
//!   of UnicodeData.txt), Bengali YA+NUKTA→YYA, Kannada RA HALANT ZWJ → RA ZWJ HALANT,
//!   U+25CC between the prohibited "independent vowel + dependent vowel" pairs of the USE document.
//!
//! The property restricts *which changes may happen*; it does not demand that every documented
//! rewrite is applied. So every rewrite site is a binary choice in the reference model: the strict
//! model applies all of them; an output that equals the model for *some* choice vector is accepted
//! and, when the vector is not all-apply, counted as an informational observation ("documented
//! rewrite not applied"), never as a violation.
//!
//! Plus: all Arabic strings `base + marks` over {fatha, shadda, kasra, MCM above | MCM below} of 17..=22
//! (thorough: ..=24) marks with at most 3 positions deviating from fatha (std's stable sort leaves its
//! insertion-sort path above 20 elements, and allsorts' shadda comparator is not a total order); a
//! sweep over every (class < 33)^a shadda^b (class > 33)^c pattern up to 40 (64) marks in three input
//! orders; and `Font::map_glyphs` on every string up to length 3 (4): the characters it maps must be
//! exactly `preprocess_text`'s output.
//!
//! Witness = {tag, input code points}; `replay` calls `preprocess_text` directly and re-applies the oracles.

use allsorts::font::MatchingPresentation;
use allsorts::gsub::GlyphOrigin;
use allsorts::scripts::preprocess_text;
use mcx::{guard, Ctx, H};
use rayon::prelude::*;
use serde_json::{json, Value};
use std::collections::BTreeMap;
use std::sync::Mutex;
use unicode_canonical_combining_class::get_canonical_combining_class;

// ---------------------------------------------------------------------------------------------
// script table (written from the OpenType script-tag registry, not from allsorts' tag.rs)
// ---------------------------------------------------------------------------------------------

const fn tag(b: &[u8; 4]) -> u32 {
    u32::from_be_bytes(*b)
}

#[derive(Clone, Copy, PartialEq, Eq, Debug)]
enum Fam {
    /// canonical reordering by modified combining class only
    Default,
    Syriac,
    Arabic,
    ThaiLao,
    Khmer,
    /// allsorts does nothing; identity and the canonical reordering are both accepted
    Myanmar,
    Indic,
}

#[derive(Clone, Copy, PartialEq, Eq, Debug)]
enum Sub {
    None,
    Bengali,
    Kannada,
}

struct Spec {
    name: &'static str,
    tag: u32,
    fam: Fam,
    sub: Sub,
    alpha: &'static [u32],
}

const ZWJ: u32 = 0x200D;
const ZWNJ: u32 = 0x200C;
const DOTTED_CIRCLE: char = '\u{25CC}';

#[rustfmt::skip]
static SPECS: &[Spec] = &[
    // ---- scripts without decompositions
    Spec { name: "latn", tag: tag(b"latn"), fam: Fam::Default, sub: Sub::None,
        // a, acute(230) grave(230) dot-below(220) cedilla(202) tilde-overlay(1) ypogegrammeni(240)
        // musical stem U+1D165(216, non-BMP) CGJ(ccc 0 mark) ZWJ ZWNJ e-acute
        alpha: &[0x61, 0x301, 0x300, 0x323, 0x327, 0x334, 0x345, 0x1D165, 0x34F, ZWJ, ZWNJ, 0xE9] },
    Spec { name: "cyrl", tag: tag(b"cyrl"), fam: Fam::Default, sub: Sub::None,
        // titlo(230) palatalization(230) dot-below(220) ogonek(202) short-stroke-overlay(1) double-inverted-breve(234)
        // millions sign (Me, ccc 0) U+1D167 (1, non-BMP)
        alpha: &[0x430, 0x483, 0x484, 0x323, 0x328, 0x335, 0x361, 0x489, 0x1D167, ZWJ, ZWNJ, 0x431] },
    Spec { name: "grek", tag: tag(b"grek"), fam: Fam::Default, sub: Sub::None,
        alpha: &[0x3B1, 0x301, 0x342, 0x345, 0x323, 0x331, 0x35F, 0x334, 0x1D242, ZWJ, ZWNJ, 0x3C9] },
    Spec { name: "syrc", tag: tag(b"syrc"), fam: Fam::Syriac, sub: Sub::None,
        // alaph, superscript alaph(36), pthaha above(230) dotted(230), pthaha below(220) zqapha below(220),
        // fatha(30) fathatan(27) superscript alef(35)
        // + shadda(33), hamza above (230, an Arabic modifier combining mark) and hamza below (220): Garshuni-style runs -
        // under the syrc tag they are sorted like any other mark (the shadda / MCM exceptions belong to the arab tag)
        alpha: &[0x710, 0x711, 0x730, 0x732, 0x731, 0x734, 0x64E, 0x64B, 0x670, 0x1D165, ZWJ, ZWNJ, 0x651, 0x654, 0x655] },
    Spec { name: "arab", tag: tag(b"arab"), fam: Fam::Arabic, sub: Sub::None,
        // beh, shadda(33), fatha(30) kasra(32) damma(31), hamza above (MCM 230), hamza below (MCM 220),
        // madda above (230), subscript alef (220), Mende number mark U+1E8D0 (220, non-BMP), small high seen (MCM 230)
        // + combining long solidus overlay (ccc 1: a non-starter below every Arabic fixed-position class; shadda still moves in front of it)
        alpha: &[0x628, 0x651, 0x64E, 0x650, 0x64F, 0x654, 0x655, 0x653, 0x656, 0x1E8D0, ZWJ, ZWNJ, 0x6DC, 0x338] },
    Spec { name: "mymr", tag: tag(b"mymr"), fam: Fam::Myanmar, sub: Sub::None,
        alpha: &[0x1000, 0x1037, 0x1039, 0x103A, 0x108D, 0x102B, 0x1036, 0x1D165, ZWJ, ZWNJ, 0x103B, 0x323] },
    Spec { name: "mym2", tag: tag(b"mym2"), fam: Fam::Myanmar, sub: Sub::None,
        alpha: &[0x1000, 0x1037, 0x1039, 0x103A, 0x108D, 0x102B, 0x1036, 0x1D165, ZWJ, ZWNJ, 0x103B, 0x323] },
    // ---- unmapped tags (must behave like Default)
    Spec { name: "hebr(unmapped)", tag: tag(b"hebr"), fam: Fam::Default, sub: Sub::None,
        // alef; sheva(10) hiriq(14) qamats(18) qamats-qatan(18) holam(19) dagesh(21) meteg(22) shin-dot(24) etnahta(220)
        alpha: &[0x5D0, 0x5B0, 0x5B4, 0x5B8, 0x5C7, 0x5B9, 0x5BC, 0x5BD, 0x5C1, 0x591, 0x1D165, ZWJ] },
    Spec { name: "DFLT(unmapped)", tag: tag(b"DFLT"), fam: Fam::Default, sub: Sub::None,
        // shin; hataf segol(11) hataf patah(12) hataf qamats(13) tsere(15) segol(16) patah(17) qubuts(20) rafe(23)
        // sin-dot(25) judeo-spanish varika(26)
        alpha: &[0x5E9, 0x5B1, 0x5B2, 0x5B3, 0x5B5, 0x5B6, 0x5B7, 0x5BB, 0x5BF, 0x5C2, 0xFB1E, ZWNJ] },
    Spec { name: "bng2(unmapped)", tag: tag(b"bng2"), fam: Fam::Default, sub: Sub::None,
        // Bengali text under a tag allsorts does not map: only canonical reordering may happen
        alpha: &[0x9AF, 0x9BC, 0x9CD, 0x9CB, 0x9BE, 0x985, 0x9C7, 0x9FE, 0x981, 0x1D165, ZWJ, 0x951] },
    // ---- Thai / Lao
    Spec { name: "thai", tag: tag(b"thai"), fam: Fam::ThaiLao, sub: Sub::None,
        // ko kai, SARA AM, SARA AA, mai ek(107) mai tho(107), NIKHAHIT(0), PHINTHU(9), SARA U(103), SARA I(0)
        alpha: &[0xE01, 0xE33, 0xE32, 0xE48, 0xE49, 0xE4D, 0xE3A, 0xE38, 0xE34, 0x1D165, ZWJ, ZWNJ] },
    Spec { name: "lao", tag: tag(b"lao "), fam: Fam::ThaiLao, sub: Sub::None,
        alpha: &[0xE81, 0xEB3, 0xEB2, 0xEC8, 0xEC9, 0xECD, 0xEBA, 0xEB8, 0xEB4, 0x1D165, ZWJ, 0xEBB] },
    // ---- Khmer
    Spec { name: "khmr", tag: tag(b"khmr"), fam: Fam::Khmer, sub: Sub::None,
        // ka; the five split vowels; SIGN E; coeng(9); atthacan(230) bathamasat(230); dot below(220)
        alpha: &[0x1780, 0x17BE, 0x17BF, 0x17C0, 0x17C4, 0x17C5, 0x17C1, 0x17D2, 0x17DD, 0x323, 0x1D165, ZWJ, 0x17D3] },
    // ---- Indic
    Spec { name: "deva", tag: tag(b"deva"), fam: Fam::Indic, sub: Sub::None,
        // ra halant(9) I A aa nukta(7) udatta(230) anudatta(220) AA candra-e; U+1CDA (230)
        alpha: &[0x930, 0x94D, 0x907, 0x905, 0x93E, 0x93C, 0x951, 0x952, 0x906, 0x945, 0x1D165, ZWJ, 0x1CDA] },
    Spec { name: "beng", tag: tag(b"beng"), fam: Fam::Indic, sub: Sub::Bengali,
        // all three prohibited pairs, both split matras, YA + NUKTA(7), hasant(9), sandhi mark(230)
        alpha: &[0x985, 0x9BE, 0x98B, 0x9C3, 0x98C, 0x9E2, 0x9CB, 0x9CC, 0x9AF, 0x9BC, 0x9CD, ZWJ, 0x9FE, 0x1D165] },
    Spec { name: "guru", tag: tag(b"guru"), fam: Fam::Indic, sub: Sub::None,
        alpha: &[0xA15, 0xA05, 0xA72, 0xA3E, 0xA3F, 0xA48, 0xA3C, 0xA4D, 0xA71, 0x1D165, ZWJ, ZWNJ, 0x951, 0x952] },
    Spec { name: "gujr", tag: tag(b"gujr"), fam: Fam::Indic, sub: Sub::None,
        // every prohibited Gujarati pair incl. the overlapping A+CANDRA E+AA triple
        alpha: &[0xA95, 0xA85, 0xABE, 0xAC5, 0xAC7, 0xAC8, 0xAC9, 0xACB, 0xACC, 0xABC, 0xACD, ZWJ, 0x1D165] },
    Spec { name: "orya", tag: tag(b"orya"), fam: Fam::Indic, sub: Sub::None,
        // all three prohibited pairs, the three split matras
        alpha: &[0xB05, 0xB3E, 0xB0F, 0xB57, 0xB13, 0xB48, 0xB4B, 0xB4C, 0xB47, 0xB3C, 0xB4D, ZWJ, 0x1D165] },
    Spec { name: "taml", tag: tag(b"taml"), fam: Fam::Indic, sub: Sub::None,
        alpha: &[0xB95, 0xBCA, 0xBCB, 0xBCC, 0xBC6, 0xBBE, 0xBD7, 0xBCD, 0xB85, 0xBC2, ZWJ, ZWNJ, 0x1D165, 0x951] },
    Spec { name: "telu", tag: tag(b"telu"), fam: Fam::Indic, sub: Sub::None,
        // all five prohibited pairs, split AI, length marks (84, 91), virama(9), nukta(7)
        alpha: &[0xC15, 0xC12, 0xC55, 0xC4C, 0xC3F, 0xC46, 0xC4A, 0xC48, 0xC56, 0xC4D, 0xC3C, ZWJ, 0x1D165] },
    Spec { name: "knda", tag: tag(b"knda"), fam: Fam::Indic, sub: Sub::Kannada,
        // RA HALANT ZWJ, the five split matras (one three-part), a prohibited pair, nukta
        // + Telugu RA and virama, Devanagari RA: the swap is for the Kannada triple U+0CB0 U+0CCD U+200D only
        alpha: &[0xCB0, 0xCCD, ZWJ, 0xCC0, 0xCC7, 0xCC8, 0xCCA, 0xCCB, 0xC89, 0xCBE, 0xCBC, 0x1D165, ZWNJ, 0xC30, 0xC4D, 0x930] },
    Spec { name: "mlym", tag: tag(b"mlym"), fam: Fam::Indic, sub: Sub::None,
        // all five prohibited pairs, three split matras, virama(9) + vertical bar virama(9)
        alpha: &[0xD07, 0xD09, 0xD57, 0xD0E, 0xD46, 0xD12, 0xD3E, 0xD4A, 0xD4B, 0xD4C, 0xD4D, ZWJ, 0x1D165, 0xD3B] },
    Spec { name: "sinh", tag: tag(b"sinh"), fam: Fam::Indic, sub: Sub::None,
        // E + {al-lakuna, kombuva, 3 split matras}, A + aela-pilla, all four split matras (one three-part)
        alpha: &[0xD9A, 0xD91, 0xDCA, 0xDD9, 0xDDA, 0xDDC, 0xDDD, 0xDDE, 0xD85, 0xDCF, ZWJ, 0x1D165] },
];

/// Which treatment a script tag receives (the property's "scripts": Arabic; Thai, Lao; Khmer; the ten
/// Indic scripts of the Indic shaping model; everything else only gets canonical reordering).
fn family_of_tag(t: u32) -> (Fam, Sub) {
    match &t.to_be_bytes() {
        b"arab" => (Fam::Arabic, Sub::None),
        b"syrc" => (Fam::Syriac, Sub::None),
        b"thai" | b"lao " => (Fam::ThaiLao, Sub::None),
        b"khmr" => (Fam::Khmer, Sub::None),
        b"mymr" | b"mym2" => (Fam::Myanmar, Sub::None),
        b"beng" => (Fam::Indic, Sub::Bengali),
        b"knda" => (Fam::Indic, Sub::Kannada),
        b"deva" | b"guru" | b"gujr" | b"orya" | b"taml" | b"telu" | b"mlym" | b"sinh" => (Fam::Indic, Sub::None),
        _ => (Fam::Default, Sub::None),
    }
}

fn tag_name(t: u32) -> String {
    t.to_be_bytes().iter().map(|b| if b.is_ascii_graphic() || *b == b' ' { *b as char } else { '?' }).collect()
}

// ---------------------------------------------------------------------------------------------
// character data
// ---------------------------------------------------------------------------------------------

fn ccc(c: char) -> u8 {
    get_canonical_combining_class(c) as u8
}

/// Modified combining class: Unicode ccc with the remappings of the OpenType shaping documents that
/// allsorts states it follows (src/unicode/mcc.rs doc comments): Hebrew points in SBL Hebrew manual
/// order, Thai SARA U/UU 103→3 (so PHINTHU, 9, sorts after them), Telugu length marks 84→4 and 91→5
/// (so they are not moved behind a virama). Everything else keeps its class.
fn mcc(c: char) -> u8 {
    match ccc(c) {
        10 => 22, // sheva
        11 => 15, // hataf segol
        12 => 16, // hataf patah
        13 => 17, // hataf qamats
        14 => 23, // hiriq
        15 => 18, // tsere
        16 => 19, // segol
        17 => 20, // patah
        18 => 21, // qamats
        19 => 14, // holam
        20 => 24, // qubuts
        21 => 12, // dagesh
        22 => 25, // meteg
        23 => 13, // rafe
        24 => 10, // shin dot
        25 => 11, // sin dot
        84 => 4,
        91 => 5,
        103 => 3,
        k => k,
    }
}

/// ccc = 0 characters of General_Category M* that occur in the alphabets (the harness has no
/// general-category data; every ccc != 0 character is a mark).
const CCC0_MARKS: &[u32] = &[
    0x34F, 0x489, 0x9CB, 0x9BE, 0x9C7, 0x981, 0x102B, 0x1036, 0x103B, 0xE4D, 0xE34, 0xECD, 0xEB4, 0xEBB, 0x17BE, 0x17BF,
    0x17C0, 0x17C4, 0x17C5, 0x17C1,
];

fn is_mark(c: char) -> bool {
    ccc(c) != 0 || CCC0_MARKS.contains(&(c as u32))
}

/// UTR #53 (tr53-6) section 3.1: Modifier Combining Marks.
fn is_mcm(c: char) -> bool {
    matches!(
        c as u32,
        0x654 | 0x655 | 0x658 | 0x6DC | 0x6E3 | 0x6E7 | 0x6E8 | 0x8CA | 0x8CB | 0x8CD | 0x8CE | 0x8CF | 0x8D3 | 0x8F3
    )
}

/// Two- and three-part dependent vowels = canonical decompositions (UnicodeData.txt field 5, applied
/// recursively) of the Indic matras whose parts sit on different sides of the base.
fn indic_split(c: char) -> Option<&'static [char]> {
    Some(match c as u32 {
        0x09CB => &['\u{09C7}', '\u{09BE}'],
        0x09CC => &['\u{09C7}', '\u{09D7}'],
        0x0B48 => &['\u{0B47}', '\u{0B56}'],
        0x0B4B => &['\u{0B47}', '\u{0B3E}'],
        0x0B4C => &['\u{0B47}', '\u{0B57}'],
        0x0BCA => &['\u{0BC6}', '\u{0BBE}'],
        0x0BCB => &['\u{0BC7}', '\u{0BBE}'],
        0x0BCC => &['\u{0BC6}', '\u{0BD7}'],
        0x0C48 => &['\u{0C46}', '\u{0C56}'],
        0x0CC0 => &['\u{0CBF}', '\u{0CD5}'],
        0x0CC7 => &['\u{0CC6}', '\u{0CD5}'],
        0x0CC8 => &['\u{0CC6}', '\u{0CD6}'],
        0x0CCA => &['\u{0CC6}', '\u{0CC2}'],
        0x0CCB => &['\u{0CC6}', '\u{0CC2}', '\u{0CD5}'],
        0x0D4A => &['\u{0D46}', '\u{0D3E}'],
        0x0D4B => &['\u{0D47}', '\u{0D3E}'],
        0x0D4C => &['\u{0D46}', '\u{0D57}'],
        0x0DDA => &['\u{0DD9}', '\u{0DCA}'],
        0x0DDC => &['\u{0DD9}', '\u{0DCF}'],
        0x0DDD => &['\u{0DD9}', '\u{0DCF}', '\u{0DCA}'],
        0x0DDE => &['\u{0DD9}', '\u{0DDF}'],
        _ => return None,
    })
}

const INDIC_SPLITTABLE: &[u32] = &[
    0x09CB, 0x09CC, 0x0B48, 0x0B4B, 0x0B4C, 0x0BCA, 0x0BCB, 0x0BCC, 0x0C48, 0x0CC0, 0x0CC7, 0x0CC8, 0x0CCA, 0x0CCB, 0x0D4A,
    0x0D4B, 0x0D4C, 0x0DDA, 0x0DDC, 0x0DDD, 0x0DDE,
];

/// Prohibited "independent vowel + dependent vowel" combinations (Microsoft USE specification,
/// section "Independent vowel (IV) plus dependent vowel (DV) constraints"; the same list HarfBuzz
/// generates its vowel-constraint code from), restricted to the ten Indic-model scripts.
fn prohibited_pair(a: char, b: char) -> bool {
    let (a, b) = (a as u32, b as u32);
    match a {
        0x0905 => matches!(b, 0x093A | 0x093B | 0x093E | 0x0945 | 0x0946 | 0x0949 | 0x094A | 0x094B | 0x094C | 0x094F | 0x0956 | 0x0957),
        0x0906 => matches!(b, 0x093A | 0x0945 | 0x0946 | 0x0947 | 0x0948),
        0x0909 => b == 0x0941,
        0x090F => matches!(b, 0x0945 | 0x0946 | 0x0947),
        0x0985 => b == 0x09BE,
        0x098B => b == 0x09C3,
        0x098C => b == 0x09E2,
        0x0A05 => matches!(b, 0x0A3E | 0x0A48 | 0x0A4C),
        0x0A72 => matches!(b, 0x0A3F | 0x0A40 | 0x0A47),
        0x0A73 => matches!(b, 0x0A41 | 0x0A42 | 0x0A4B),
        0x0A85 => matches!(b, 0x0ABE | 0x0AC5 | 0x0AC7 | 0x0AC8 | 0x0AC9 | 0x0ACB | 0x0ACC),
        0x0AC5 => b == 0x0ABE,
        0x0B05 => b == 0x0B3E,
        0x0B0F | 0x0B13 => b == 0x0B57,
        0x0B85 => b == 0x0BC2,
        0x0C12 => matches!(b, 0x0C4C | 0x0C55),
        0x0C3F | 0x0C46 | 0x0C4A => b == 0x0C55,
        0x0C89 | 0x0C8B => b == 0x0CBE,
        0x0C92 => b == 0x0CCC,
        0x0D07 | 0x0D09 => b == 0x0D57,
        0x0D0E => b == 0x0D46,
        0x0D12 => matches!(b, 0x0D3E | 0x0D57),
        0x0D85 => matches!(b, 0x0DCF | 0x0DD0 | 0x0DD1),
        0x0D8B | 0x0D8F | 0x0D94 => b == 0x0DDF,
        0x0D8D => b == 0x0DD8,
        0x0D91 => matches!(b, 0x0DCA | 0x0DD9 | 0x0DDA | 0x0DDC | 0x0DDD),
        _ => false,
    }
}

/// dotted-circle site between v[i] and v[i+1]? (pairs, plus Devanagari "reph + I": RA HALANT | I)
fn circle_site(v: &[char], i: usize) -> bool {
    if i + 1 >= v.len() {
        return false;
    }
    prohibited_pair(v[i], v[i + 1]) || (i >= 1 && v[i - 1] == '\u{0930}' && v[i] == '\u{094D}' && v[i + 1] == '\u{0907}')
}

fn am_parts(c: char) -> Option<(char, char)> {
    match c {
        '\u{0E33}' => Some(('\u{0E4D}', '\u{0E32}')), // THAI SARA AM = NIKHAHIT + SARA AA
        '\u{0EB3}' => Some(('\u{0ECD}', '\u{0EB2}')), // LAO AM = NIGGAHITA + AA
        _ => None,
    }
}

/// marks the NIKHAHIT of a decomposed AM is moved in front of
fn thai_above(c: char, tone_only: bool) -> bool {
    let u = c as u32;
    if tone_only {
        (0x0E48..=0x0E4B).contains(&u) || (0x0EC8..=0x0ECB).contains(&u)
    } else {
        u == 0x0E31
            || (0x0E34..=0x0E37).contains(&u)
            || (0x0E47..=0x0E4E).contains(&u)
            || u == 0x0EB1
            || (0x0EB4..=0x0EB7).contains(&u)
            || u == 0x0EBB
            || (0x0EC8..=0x0ECE).contains(&u)
    }
}

fn khmer_split_vowel(c: char) -> bool {
    matches!(c as u32, 0x17BE | 0x17BF | 0x17C0 | 0x17C4 | 0x17C5)
}

// ---------------------------------------------------------------------------------------------
// reference models
// ---------------------------------------------------------------------------------------------

/// Canonical ordering with modified classes: every maximal run of characters with class != 0 is
/// sorted stably by class (written as an insertion sort so that it shares no code with std's sort).
fn sort_runs(v: &mut [char]) {
    let mut i = 0;
    while i < v.len() {
        if mcc(v[i]) == 0 {
            i += 1;
            continue;
        }
        let mut j = i;
        while j < v.len() && mcc(v[j]) != 0 {
            j += 1;
        }
        for a in i + 1..j {
            let x = v[a];
            let kx = mcc(x);
            let mut b = a;
            while b > i && mcc(v[b - 1]) > kx {
                v[b] = v[b - 1];
                b -= 1;
            }
            v[b] = x;
        }
        i = j;
    }
}

/// UTR #53 AMTRA on text that is not decomposed: canonical ordering, then per maximal non-starter
/// run S: 2a shaddas (ccc 33) to the front of S; 2b if the ccc=230 group begins with MCMs move those to
/// the front of S; 2c the same for the ccc=220 group.
fn arabic_model(v: &mut [char]) {
    sort_runs(v);
    let mut i = 0;
    while i < v.len() {
        if ccc(v[i]) == 0 {
            i += 1;
            continue;
        }
        let mut j = i;
        while j < v.len() && ccc(v[j]) != 0 {
            j += 1;
        }
        let mut s: Vec<char> = v[i..j].iter().copied().filter(|&c| ccc(c) == 33).collect();
        s.extend(v[i..j].iter().copied().filter(|&c| ccc(c) != 33));
        for cls in [230u8, 220u8] {
            if let Some(f) = s.iter().position(|&c| ccc(c) == cls) {
                let mut k = 0;
                while f + k < s.len() && ccc(s[f + k]) == cls && is_mcm(s[f + k]) {
                    k += 1;
                }
                let moved: Vec<char> = s.drain(f..f + k).collect();
                s.splice(0..0, moved);
            }
        }
        v[i..j].copy_from_slice(&s);
        i = j;
    }
}

/// Rewrites whose omission at a site is an accepted alternative (they are still counted in the evidence `observations`):
/// * Kannada RA HALANT ZWJ inside the text: allsorts swaps at the start of the run only and its own unit test
///   `test_non_initial_ra_halant_zwj` pins that; HarfBuzz does it per syllable; the shaping documents speak of the sequence
///   without saying where.
/// * the second of two overlapping prohibited vowel pairs (A, CANDRA E, AA): one dotted circle already breaks the sequence.
/// * Tamil prohibited pairs: listed in the Unicode core specification, not in the OpenType shaping documents.
const ACCEPTED_DECLINES: [&str; 3] = [
    "indic:kannada-ra-halant-zwj-not-swapped-inside-text",
    "indic:no-dotted-circle-at-second-of-two-overlapping-pairs",
    "indic:no-dotted-circle-at-tamil-pair",
];

/// Decision source for the rewrite sites of a model run: site k is applied unless `dec[k] == false`.
struct Dec<'a> {
    dec: &'a [bool],
    n: usize,
    declined: Vec<&'static str>,
}

impl<'a> Dec<'a> {
    fn new(dec: &'a [bool]) -> Self {
        Dec { dec, n: 0, declined: Vec::new() }
    }
    fn apply(&mut self, kind: &'static str) -> bool {
        let r = self.dec.get(self.n).copied().unwrap_or(true);
        self.n += 1;
        if !r {
            self.declined.push(kind);
        }
        r
    }
}

fn thai_model(v: &mut Vec<char>, d: &mut Dec<'_>, tone_only: bool) {
    let mut i = 0;
    while i < v.len() {
        match am_parts(v[i]) {
            Some((nik, aa)) if d.apply("thai-lao:sara-am-left-undecomposed") => {
                v[i] = aa;
                let mut j = i;
                while j > 0 && thai_above(v[j - 1], tone_only) {
                    j -= 1;
                }
                v.insert(j, nik);
                i += 2;
            }
            _ => i += 1,
        }
    }
    sort_runs(v);
}

fn khmer_model(v: &mut Vec<char>, d: &mut Dec<'_>) {
    let mut out = Vec::with_capacity(v.len() * 2);
    for &c in v.iter() {
        if khmer_split_vowel(c) && d.apply("khmer:split-vowel-left-undecomposed") {
            out.push('\u{17C1}');
        }
        out.push(c);
    }
    sort_runs(&mut out);
    *v = out;
}

fn indic_model(v: &mut Vec<char>, sub: Sub, d: &mut Dec<'_>) {
    // 1. vowel constraints, on the text as typed
    let mut a = Vec::with_capacity(v.len() * 3 + 2);
    for i in 0..v.len() {
        a.push(v[i]);
        if circle_site(v, i) {
            // which prohibited pairs may legitimately stay without a dotted circle (see ACCEPTED_DECLINES): the second of two
            // overlapping pairs (the circle of the first pair already separates the sequence; allsorts resumes behind the pair
            // it just handled), and the Tamil pairs (they come from the Unicode core specification's table, the shaping
            // documents allsorts follows list none for Tamil)
            let overlaps_previous = i >= 1 && circle_site(v, i - 1);
            let tamil = (0x0B80..=0x0BFF).contains(&(v[i] as u32));
            let kind = if overlaps_previous {
                "indic:no-dotted-circle-at-second-of-two-overlapping-pairs"
            } else if tamil {
                "indic:no-dotted-circle-at-tamil-pair"
            } else {
                "indic:no-dotted-circle-at-prohibited-pair"
            };
            if d.apply(kind) {
                a.push(DOTTED_CIRCLE);
            }
        }
    }
    // 2. multi-part matras
    let mut b = Vec::with_capacity(a.len() * 3);
    for &c in &a {
        match indic_split(c) {
            Some(parts) if d.apply("indic:split-matra-left-undecomposed") => b.extend_from_slice(parts),
            _ => b.push(c),
        }
    }
    // 3. canonical reordering
    sort_runs(&mut b);
    // 4. script specific
    match sub {
        Sub::Bengali => {
            let mut c = Vec::with_capacity(b.len());
            let mut i = 0;
            while i < b.len() {
                if b[i] == '\u{09AF}' && i + 1 < b.len() && b[i + 1] == '\u{09BC}' && d.apply("indic:bengali-ya-nukta-not-recomposed") {
                    c.push('\u{09DF}');
                    i += 2;
                } else {
                    c.push(b[i]);
                    i += 1;
                }
            }
            b = c;
        }
        Sub::Kannada => {
            let mut i = 0;
            while i + 2 < b.len() {
                if b[i] == '\u{0CB0}' && b[i + 1] == '\u{0CCD}' && b[i + 2] == '\u{200D}' {
                    let kind = if i == 0 {
                        "indic:kannada-ra-halant-zwj-not-swapped-at-text-start"
                    } else {
                        "indic:kannada-ra-halant-zwj-not-swapped-inside-text"
                    };
                    if d.apply(kind) {
                        b.swap(i + 1, i + 2);
                    }
                    i += 3;
                } else {
                    i += 1;
                }
            }
        }
        Sub::None => {}
    }
    *v = b;
}

/// One model run for the decomposing families; returns (output, number of rewrite sites met, declined kinds).
fn model_run(fam: Fam, sub: Sub, input: &[char], dec: &[bool], variant: u8) -> (Vec<char>, usize, Vec<&'static str>) {
    let mut v = input.to_vec();
    let mut d = Dec::new(dec);
    match fam {
        Fam::ThaiLao => thai_model(&mut v, &mut d, variant == 1),
        Fam::Khmer => khmer_model(&mut v, &mut d),
        Fam::Indic => indic_model(&mut v, sub, &mut d),
        _ => unreachable!(),
    }
    (v, d.n, d.declined)
}

/// Is `target` the model output for some decision vector? Enumerates every vector exactly once (a
/// vector is visited from its longest all-apply-extended prefix). Returns the declined kinds.
fn permitted(fam: Fam, sub: Sub, input: &[char], target: &[char], variant: u8, prefix: &mut Vec<bool>, budget: &mut u32) -> Option<Vec<&'static str>> {
    if *budget == 0 {
        return None;
    }
    *budget -= 1;
    let (out, n, declined) = model_run(fam, sub, input, prefix, variant);
    if out == target {
        return Some(declined);
    }
    let base = prefix.len();
    for k in base..n {
        prefix.truncate(base);
        prefix.extend(std::iter::repeat(true).take(k - base));
        prefix.push(false);
        if let Some(r) = permitted(fam, sub, input, target, variant, prefix, budget) {
            return Some(r);
        }
    }
    prefix.truncate(base);
    None
}

// ---------------------------------------------------------------------------------------------
// oracles
// ---------------------------------------------------------------------------------------------

fn remove_n(v: &mut Vec<char>, c: char, n: i64) -> bool {
    for _ in 0..n {
        match v.iter().position(|&x| x == c) {
            Some(p) => {
                v.swap_remove(p);
            }
            None => return false,
        }
    }
    true
}

fn count(v: &[char], c: char) -> i64 {
    v.iter().filter(|&&x| x == c).count() as i64
}

/// Relational oracle. Scripts without decompositions: same length, every non-mark keeps its index,
/// every maximal run of marks holds the same multiset. Decomposing scripts: the multiset of
/// characters is the input's after replacing some AMs / split matras by their parts, some YA+NUKTA by
/// YYA, plus at most one U+17C1 per Khmer split vowel / one U+25CC per prohibited pair.
fn relational(fam: Fam, sub: Sub, input: &[char], out: &[char]) -> Result<(), &'static str> {
    match fam {
        Fam::Default | Fam::Syriac | Fam::Arabic | Fam::Myanmar => {
            if input.len() != out.len() {
                return Err("content-not-preserved");
            }
            let mut a = input.to_vec();
            let mut b = out.to_vec();
            a.sort_unstable();
            b.sort_unstable();
            if a != b {
                return Err("content-not-preserved");
            }
            let mut i = 0;
            while i < input.len() {
                if !is_mark(input[i]) {
                    if out[i] != input[i] {
                        return Err("base-character-moved");
                    }
                    i += 1;
                    continue;
                }
                let mut j = i;
                while j < input.len() && is_mark(input[j]) {
                    j += 1;
                }
                let mut a = input[i..j].to_vec();
                let mut b = out[i..j].to_vec();
                a.sort_unstable();
                b.sort_unstable();
                if a != b {
                    return Err("mark-left-its-run");
                }
                i = j;
            }
            Ok(())
        }
        Fam::ThaiLao | Fam::Khmer | Fam::Indic => {
            let mut exp = input.to_vec();
            match fam {
                Fam::ThaiLao => {
                    for am in ['\u{0E33}', '\u{0EB3}'] {
                        let (nik, aa) = am_parts(am).unwrap();
                        let dn = count(input, am) - count(out, am);
                        if dn < 0 || !remove_n(&mut exp, am, dn) {
                            return Err("content-not-preserved");
                        }
                        for _ in 0..dn {
                            exp.push(nik);
                            exp.push(aa);
                        }
                    }
                }
                Fam::Khmer => {
                    let j = count(out, '\u{17C1}') - count(input, '\u{17C1}');
                    let sites = input.iter().filter(|&&c| khmer_split_vowel(c)).count() as i64;
                    if j < 0 || j > sites {
                        return Err("content-not-preserved");
                    }
                    for _ in 0..j {
                        exp.push('\u{17C1}');
                    }
                }
                _ => {
                    for &s in INDIC_SPLITTABLE {
                        let s = char::from_u32(s).unwrap();
                        let dn = count(input, s) - count(out, s);
                        if dn == 0 {
                            continue;
                        }
                        if dn < 0 || !remove_n(&mut exp, s, dn) {
                            return Err("content-not-preserved");
                        }
                        for _ in 0..dn {
                            exp.extend_from_slice(indic_split(s).unwrap());
                        }
                    }
                    let r = count(out, '\u{09DF}') - count(input, '\u{09DF}');
                    if r != 0 {
                        if sub != Sub::Bengali || r < 0 || !remove_n(&mut exp, '\u{09AF}', r) || !remove_n(&mut exp, '\u{09BC}', r) {
                            return Err("content-not-preserved");
                        }
                        for _ in 0..r {
                            exp.push('\u{09DF}');
                        }
                    }
                    let c = count(out, DOTTED_CIRCLE) - count(input, DOTTED_CIRCLE);
                    let sites = (0..input.len()).filter(|&i| circle_site(input, i)).count() as i64;
                    if c < 0 || c > sites {
                        return Err("content-not-preserved");
                    }
                    for _ in 0..c {
                        exp.push(DOTTED_CIRCLE);
                    }
                }
            }
            let mut b = out.to_vec();
            exp.sort_unstable();
            b.sort_unstable();
            if exp != b {
                return Err("content-not-preserved");
            }
            Ok(())
        }
    }
}

struct Viol {
    key: String,
    expected: Option<Vec<char>>,
    note: String,
}

struct Verdict {
    out: Option<Vec<char>>,
    viols: Vec<Viol>,
    /// documented rewrites the real code did not apply (informational)
    declined: Vec<&'static str>,
    /// the subset search ran out of budget (reported as a cap, never as a violation)
    undecided: bool,
}

/// model runs allowed per string when searching for a matching subset of rewrites
const SEARCH_BUDGET: u32 = 1 << 17;

fn sort_key(fam: Fam, expected: &[char], out: &[char]) -> String {
    let pre = match fam {
        Fam::Arabic => "arabic",
        Fam::Syriac | Fam::Default | Fam::Myanmar => "sort",
        Fam::ThaiLao => "thai-lao",
        Fam::Khmer => "khmer",
        Fam::Indic => "indic",
    };
    if expected.len() == out.len() && expected.iter().zip(out).all(|(a, b)| mcc(*a) == mcc(*b) && (mcc(*a) != 0 || a == b)) {
        format!("C17:{}:unstable-among-equal-class", pre)
    } else if matches!(fam, Fam::Default | Fam::Syriac) {
        "C17:sort:wrong-order-by-modified-class".to_string()
    } else {
        format!("C17:{}:mismatch", pre)
    }
}

/// Run the real function on one string and apply every oracle.
fn check_one(tag: u32, fam: Fam, sub: Sub, input: &[char]) -> Verdict {
    let mut buf = input.to_vec();
    let res = guard(move || {
        preprocess_text(&mut buf, tag);
        buf
    });
    let out = match res {
        Ok(o) => o,
        Err(p) => {
            return Verdict {
                out: None,
                viols: vec![Viol { key: format!("C17:panic:{}", p.site_key("/repo")), expected: None, note: format!("{} at {}", p.msg, p.loc()) }],
                declined: Vec::new(),
                undecided: false,
            }
        }
    };
    let mut viols = Vec::new();
    let mut declined_kinds = Vec::new();
    let mut undecided = false;
    if out.len() > 4 * input.len() {
        viols.push(Viol { key: "C17:length-bound".into(), expected: None, note: "output longer than 4x the input".into() });
    }
    if let Err(k) = relational(fam, sub, input, &out) {
        viols.push(Viol { key: format!("C17:relational:{}", k), expected: None, note: String::new() });
    }
    match fam {
        Fam::Default | Fam::Syriac => {
            let mut e = input.to_vec();
            sort_runs(&mut e);
            if e != out {
                viols.push(Viol { key: sort_key(fam, &e, &out), expected: Some(e), note: "stable sort of each non-starter run by modified combining class".into() });
            }
        }
        Fam::Myanmar => {
            if out != input {
                let mut e = input.to_vec();
                sort_runs(&mut e);
                if e != out {
                    viols.push(Viol { key: "C17:myanmar:mismatch".into(), expected: Some(e), note: "neither the input nor its canonical reordering".into() });
                }
            }
        }
        Fam::Arabic => {
            let mut e = input.to_vec();
            arabic_model(&mut e);
            if e != out {
                viols.push(Viol { key: sort_key(fam, &e, &out), expected: Some(e), note: "UTR #53 steps 1, 2a, 2b, 2c".into() });
            }
        }
        Fam::ThaiLao | Fam::Khmer | Fam::Indic => {
            let (strict, _, _) = model_run(fam, sub, input, &[], 0);
            if strict != out {
                let variants: &[u8] = if fam == Fam::ThaiLao { &[0, 1] } else { &[0] };
                let mut found = None;
                let mut exhausted = false;
                for &var in variants {
                    let mut budget = SEARCH_BUDGET;
                    let mut prefix = Vec::new();
                    if let Some(d) = permitted(fam, sub, input, &out, var, &mut prefix, &mut budget) {
                        found = Some(d);
                        break;
                    }
                    exhausted |= budget == 0;
                }
                match found {
                    Some(d) => {
                        // a documented rewrite that was not applied is accepted only where that has been looked at and
                        // justified; anywhere else it is a violation like any other difference
                        for k in d.iter().filter(|k| !ACCEPTED_DECLINES.contains(*k)) {
                            viols.push(Viol {
                                key: format!("C17:documented-rewrite-not-applied:{}", k),
                                expected: Some(strict.clone()),
                                note: "the output is the reference model with this documented rewrite left out at some site (expected = all applied)".into(),
                            });
                        }
                        declined_kinds = d
                    }
                    None if exhausted => undecided = true,
                    None => viols.push(Viol {
                        key: sort_key(fam, &strict, &out),
                        expected: Some(strict),
                        note: "output is not the reference model for ANY subset of the documented rewrites (expected = all applied)".into(),
                    }),
                }
            }
        }
    }
    Verdict { out: Some(out), viols, declined: declined_kinds, undecided }
}

// ---------------------------------------------------------------------------------------------
// driver
// ---------------------------------------------------------------------------------------------

fn cps(v: &[char]) -> Vec<u32> {
    v.iter().map(|c| *c as u32).collect()
}

fn show(v: &[char]) -> String {
    v.iter().map(|c| format!("U+{:04X}", *c as u32)).collect::<Vec<_>>().join(" ")
}

fn hash_chars(mut h: H, v: &[char]) -> H {
    for c in v {
        let u = *c as u32;
        h = h.u8(u as u8).u8((u >> 8) as u8).u8((u >> 16) as u8);
    }
    h.u8(0xfd)
}

#[derive(Default)]
struct Obs {
    count: u64,
    witness: Option<(usize, Vec<u32>, u32, Vec<u32>)>,
}

struct Acc<'a> {
    ctx: &'a Ctx,
    obs: Mutex<BTreeMap<String, Obs>>,
    viols: Mutex<BTreeMap<String, (u64, Vec<u32>, Value)>>,
    /// strings of length <= this get exact distinct-case hashes; longer ones a coarse shape hash
    full_hash_len: usize,
}

impl<'a> Acc<'a> {
    /// returns true if the string was changed by preprocessing
    fn process(&self, tag: u32, fam: Fam, sub: Sub, input: &[char], space: &str) -> bool {
        let v = check_one(tag, fam, sub, input);
        if !v.viols.is_empty() {
            // keep the smallest witness per key (shortest, then lexicographic) so that the replay file
            // does not depend on thread scheduling; handed to Ctx after the parallel phase
            let mut m = self.viols.lock().unwrap();
            for viol in &v.viols {
                let e = m.entry(viol.key.clone()).or_insert_with(|| (0, Vec::new(), Value::Null));
                e.0 += 1;
                let cand = cps(input);
                if e.2.is_null() || (cand.len(), &cand) < (e.1.len(), &e.1) {
                    let out = v.out.as_ref();
                    e.2 = json!({
                        "script": tag_name(tag), "tag": tag, "space": space,
                        "input": cand, "input_text": show(input),
                        "observed": out.map(|o| cps(o)), "observed_text": out.map(|o| show(o)),
                        "expected": viol.expected.as_ref().map(|e| cps(e)), "expected_text": viol.expected.as_ref().map(|e| show(e)),
                        "note": viol.note,
                    });
                    e.1 = cand;
                }
            }
        }
        if v.undecided {
            self.ctx.not_exhaustive("subset-of-rewrites search exceeded its budget for some string (left undecided)");
        }
        let out = match &v.out {
            Some(o) => o,
            None => return false,
        };
        if !v.declined.is_empty() {
            let mut kinds: Vec<&str> = v.declined.clone();
            kinds.sort();
            kinds.dedup();
            let mut m = self.obs.lock().unwrap();
            for k in kinds {
                let e = m.entry(format!("{}:{}", tag_name(tag).trim(), k)).or_default();
                e.count += 1;
                let cand = (input.len(), cps(input), tag, cps(out));
                let better = match &e.witness {
                    None => true,
                    Some(w) => (cand.0, &cand.1) < (w.0, &w.1),
                };
                if better {
                    e.witness = Some(cand);
                }
            }
        }
        let changed = out.as_slice() != input;
        if input.len() <= self.full_hash_len {
            self.ctx.mark_outcome(hash_chars(H::new().u64(tag as u64), out).get());
            if changed {
                let h = hash_chars(H::new().u64(tag as u64), input).get();
                self.ctx.mark_nontrivial(h);
            }
        } else {
            // coarse, bounded: which positions differ + lengths
            let mut mask = 0u64;
            for (i, c) in out.iter().enumerate().take(60) {
                if input.get(i) != Some(c) {
                    mask |= 1 << i;
                }
            }
            let h = H::new().u64(tag as u64).u64(input.len() as u64).u64(out.len() as u64).u64(mask).get();
            self.ctx.mark_outcome(h);
            if changed {
                self.ctx.mark_nontrivial(h);
            }
        }
        changed
    }
}

struct Task {
    si: usize,
    len: usize,
    fixed: Vec<usize>,
}

fn enumerate_strings(acc: &Acc<'_>, max_len: usize) -> Vec<Value> {
    let mut tasks: Vec<Task> = Vec::new();
    for (si, sp) in SPECS.iter().enumerate() {
        let n = sp.alpha.len();
        for len in 0..=max_len {
            if len < 3 {
                tasks.push(Task { si, len, fixed: vec![] });
            } else {
                for a in 0..n {
                    for b in 0..n {
                        tasks.push(Task { si, len, fixed: vec![a, b] });
                    }
                }
            }
        }
    }
    // longest first so that the pool drains evenly
    tasks.sort_by_key(|t| std::cmp::Reverse(t.len));
    let res: Vec<(usize, usize, u64, u64)> = tasks
        .par_iter()
        .map(|t| {
            let sp = &SPECS[t.si];
            let alpha: Vec<char> = sp.alpha.iter().map(|&u| char::from_u32(u).unwrap()).collect();
            let n = alpha.len();
            let mut idx = vec![0usize; t.len];
            let fixed = t.fixed.len();
            idx[..fixed].copy_from_slice(&t.fixed);
            let mut s = vec!['\0'; t.len];
            let (mut evals, mut changed) = (0u64, 0u64);
            'outer: loop {
                for p in 0..t.len {
                    s[p] = alpha[idx[p]];
                }
                evals += 1;
                if acc.process(sp.tag, sp.fam, sp.sub, &s, "all-strings") {
                    changed += 1;
                }
                let mut p = t.len;
                loop {
                    if p == fixed {
                        break 'outer;
                    }
                    p -= 1;
                    idx[p] += 1;
                    if idx[p] < n {
                        break;
                    }
                    idx[p] = 0;
                }
            }
            (t.si, t.len, evals, changed)
        })
        .collect();
    let mut per: BTreeMap<(usize, usize), (u64, u64)> = BTreeMap::new();
    for (si, len, e, c) in res {
        let x = per.entry((si, len)).or_default();
        x.0 += e;
        x.1 += c;
    }
    let mut total = 0u64;
    let mut rows = Vec::new();
    for (si, sp) in SPECS.iter().enumerate() {
        let mut strings = 0u64;
        let mut changed = Vec::new();
        for len in 0..=max_len {
            let (e, c) = per[&(si, len)];
            let want = (sp.alpha.len() as u64).pow(len as u32);
            if e != want {
                acc.ctx.violation("C17:machinery:enumeration-count", || json!({"script": sp.name, "len": len, "expected": want, "got": e}));
            }
            strings += e;
            changed.push(c);
        }
        total += strings;
        rows.push(json!({"script": sp.name, "alphabet": sp.alpha.iter().map(|u| format!("U+{:04X}", u)).collect::<Vec<_>>(),
                         "strings": strings, "changed_by_length": changed}));
    }
    acc.ctx.evals(total);
    acc.ctx.add_states(total);
    acc.ctx.add_transitions(total - SPECS.len() as u64);
    rows
}

/// Arabic: base + 17..=22 marks over {fatha, shadda, kasra, MCM}, at most 3 positions not fatha.
fn arabic_long_runs(acc: &Acc<'_>, lens: std::ops::RangeInclusive<usize>, bound: u32) -> Value {
    let lens: Vec<usize> = lens.collect();
    let tag = tag(b"arab");
    let stats = mcx::explore_par(bound, 3, |c| {
        let mcm = if c.pick(2) == 0 { '\u{0654}' } else { '\u{0655}' };
        let n = *c.of(&lens);
        let marks = ['\u{064E}', '\u{0651}', '\u{0650}', mcm];
        let mut s = Vec::with_capacity(n + 1);
        s.push('\u{0628}');
        for _ in 0..n {
            s.push(*c.dev_of(&marks));
        }
        acc.process(tag, Fam::Arabic, Sub::None, &s, "arabic-long-runs");
    });
    acc.ctx.add_explore(&stats);
    json!({"mark_run_lengths": lens, "max_positions_deviating_from_fatha": bound, "executions": stats.executions})
}

/// Every code point of the blocks a script's rules classify (Arabic modifier combining marks, Hebrew and Thai / Lao
/// special cases, split vowels ...) in five small contexts under that script's tag: the alphabets above hold one
/// representative per class, so a character that a rule lists (or must not list) is only reached here. The model decides
/// each character by its own tables (combining class from the Unicode data crate, the rule lists written out above).
fn classification_sweep(acc: &Acc<'_>) -> Value {
    // (spec name, base letter, two marks of the script with different classes, ranges swept)
    let plans: [(&str, u32, u32, u32, &[(u32, u32)]); 9] = [
        ("arab", 0x628, 0x64E, 0x651, &[(0x600, 0x6FF), (0x750, 0x77F), (0x8A0, 0x8FF), (0xFB50, 0xFBC2), (0xFE70, 0xFE7F), (0x10EFD, 0x10EFF)]),
        ("syrc", 0x710, 0x730, 0x651, &[(0x600, 0x6FF), (0x700, 0x74F), (0x8A0, 0x8FF)]),
        ("hebr(unmapped)", 0x5D0, 0x5B4, 0x5BC, &[(0x591, 0x5F4), (0xFB1D, 0xFB4F)]),
        ("thai", 0xE01, 0xE34, 0xE48, &[(0xE01, 0xE5B)]),
        ("lao", 0xE81, 0xEB4, 0xEC8, &[(0xE81, 0xEDF)]),
        ("latn", 0x61, 0x301, 0x323, &[(0x2F0, 0x36F), (0x1AB0, 0x1AFF), (0x1DC0, 0x1DFF), (0x20D0, 0x20FF), (0xFE20, 0xFE2F)]),
        ("mlym", 0xD15, 0xD3E, 0xD4D, &[(0xD00, 0xD7F)]),
        ("knda", 0xC95, 0xCBE, 0xCCD, &[(0xC80, 0xCFF)]),
        ("khmr", 0x1780, 0x17B6, 0x17D2, &[(0x1780, 0x17FF)]),
    ];
    let mut total = 0u64;
    let mut swept = 0u64;
    for (name, base, m1, m2, ranges) in plans.iter() {
        let Some(sp) = SPECS.iter().find(|s| s.name == *name) else { continue };
        let (b, m1, m2) = (char::from_u32(*base).unwrap(), char::from_u32(*m1).unwrap(), char::from_u32(*m2).unwrap());
        let cps: Vec<char> = ranges.iter().flat_map(|&(a, z)| (a..=z).filter_map(char::from_u32)).collect();
        swept += cps.len() as u64;
        total += cps
            .par_iter()
            .map(|&c| {
                let contexts: [Vec<char>; 5] = [vec![b, m1, c], vec![b, c, m1], vec![b, c, m2], vec![b, m2, c, m1], vec![c, b, c]];
                for s in &contexts {
                    acc.process(sp.tag, sp.fam, sp.sub, s, "classification-sweep");
                }
                contexts.len() as u64
            })
            .sum::<u64>();
    }
    // every ordered pair of code points of an Indic block under its own script tag (the prohibited vowel pairs are a
    // table of pairs: one representative pair per script in the alphabets cannot tell a row that was added or lost)
    let blocks: [(&str, u32); 9] = [("deva", 0x0900), ("beng", 0x0980), ("guru", 0x0A00), ("gujr", 0x0A80), ("orya", 0x0B00), ("telu", 0x0C00), ("knda", 0x0C80), ("mlym", 0x0D00), ("sinh", 0x0D80)];
    let mut pair_total = 0u64;
    for (name, start) in blocks.iter() {
        let Some(sp) = SPECS.iter().find(|s| s.name == *name) else { continue };
        let cps: Vec<char> = (*start..*start + 0x80).filter_map(char::from_u32).collect();
        pair_total += cps
            .par_iter()
            .map(|&a| {
                for &b in &cps {
                    acc.process(sp.tag, sp.fam, sp.sub, &[a, b], "classification-sweep-pairs");
                }
                cps.len() as u64
            })
            .sum::<u64>();
    }
    let total = total + pair_total;
    acc.ctx.evals(total);
    acc.ctx.add_states(total);
    acc.ctx.add_transitions(total);
    json!({"code_points": swept, "strings": total, "indic_block_pairs": pair_total})
}

/// Arabic: every (class < 33)^a shadda^b (class > 33)^c pattern (distinct characters of equal class
/// inside the groups so that stability is observable), in three input orders.
fn arabic_patterns(acc: &Acc<'_>, max_total: usize) -> Value {
    let tag = tag(b"arab");
    let low = ['\u{064E}', '\u{0618}', '\u{0338}', '\u{064B}']; // fatha, small fatha: both ccc 30; long solidus overlay: ccc 1; fathatan: ccc 27
    let high = ['\u{0652}', '\u{0653}', '\u{0657}', '\u{0654}']; // sukun 34, madda 230, inverted damma 230, hamza above 230 (MCM)
    let mut cases: Vec<(usize, usize, usize)> = Vec::new();
    for a in 0..=max_total {
        for b in 0..=max_total - a {
            for c in 0..=max_total - a - b {
                cases.push((a, b, c));
            }
        }
    }
    let n: u64 = cases
        .par_iter()
        .map(|&(a, b, c)| {
            let mut g: Vec<char> = Vec::with_capacity(a + b + c);
            g.extend((0..a).map(|i| low[i % 4]));
            g.extend(std::iter::repeat('\u{0651}').take(b));
            g.extend((0..c).map(|i| high[i % 4]));
            let mut k = 0;
            for order in 0..3 {
                let mut s = vec!['\u{0628}'];
                match order {
                    0 => s.extend(g.iter()),
                    1 => s.extend(g.iter().rev()),
                    _ => {
                        // perfect shuffle of the two halves
                        let h = g.len() / 2;
                        for i in 0..g.len() - h {
                            s.push(g[h + i]);
                            if i < h {
                                s.push(g[i]);
                            }
                        }
                    }
                }
                s.push('\u{0628}');
                acc.process(tag, Fam::Arabic, Sub::None, &s, "arabic-group-patterns");
                k += 1;
            }
            k
        })
        .sum();
    acc.ctx.evals(n);
    acc.ctx.add_states(n);
    acc.ctx.add_transitions(n);
    json!({"max_run_length": max_total, "strings": n})
}

/// `Font::map_glyphs` must hand exactly the preprocessed text to glyph mapping.
fn map_glyphs_agrees(ctx: &Ctx, max_len: usize) -> u64 {
    let font = otmodel::tables::minimal_font(2, &[(0x41, 1)], &[]);
    let per: Vec<(u64, u64, Option<Value>)> = SPECS
        .par_iter()
        .map(|sp| {
            let alpha: Vec<char> = sp.alpha.iter().map(|&u| char::from_u32(u).unwrap()).collect();
            let n = alpha.len();
            let r = crate::util::with_font(&font, |f| {
                let mut k = 0u64;
                let mut bad = 0u64;
                let mut first: Option<Value> = None;
                for len in 0..=max_len {
                    let mut idx = vec![0usize; len];
                    'outer: loop {
                        let s: Vec<char> = idx.iter().map(|&i| alpha[i]).collect();
                        let text: String = s.iter().collect();
                        k += 1;
                        let got = guard(|| {
                            let g = f.map_glyphs(&text, sp.tag, MatchingPresentation::NotRequired);
                            g.iter()
                                .map(|g| match g.glyph_origin {
                                    GlyphOrigin::Char(c) if g.unicodes.len() == 1 && g.unicodes[0] == c => c,
                                    _ => '\u{FFFF}',
                                })
                                .collect::<Vec<char>>()
                        });
                        let want = guard(|| {
                            let mut v = s.clone();
                            preprocess_text(&mut v, sp.tag);
                            v
                        });
                        match (got, want) {
                            (Ok(g), Ok(w)) if g == w => {}
                            (Err(_), Err(_)) => {} // the panic itself is reported by the string enumeration
                            (g, w) => {
                                bad += 1;
                                if first.is_none() {
                                    first = Some(json!({"script": sp.name, "tag": sp.tag, "input": cps(&s), "input_text": show(&s), "via": "map_glyphs",
                                       "map_glyphs": g.ok().map(|x| show(&x)), "preprocess_text": w.ok().map(|x| show(&x))}));
                                }
                            }
                        }
                        let mut p = len;
                        loop {
                            if p == 0 {
                                break 'outer;
                            }
                            p -= 1;
                            idx[p] += 1;
                            if idx[p] < n {
                                break;
                            }
                            idx[p] = 0;
                        }
                    }
                }
                (k, bad, first)
            });
            match r {
                Ok(x) => x,
                Err(e) => (0, 1, Some(json!({"machinery": e, "script": sp.name}))),
            }
        })
        .collect();
    let mut total = 0;
    for (k, bad, first) in per {
        total += k;
        if let Some(w) = first {
            ctx.violation("C17:map_glyphs:text-differs-from-preprocess_text", || w);
            for _ in 1..bad {
                ctx.violation("C17:map_glyphs:text-differs-from-preprocess_text", || Value::Null);
            }
        }
    }
    ctx.evals(total);
    total
}

fn self_test(ctx: &Ctx) {
    // the reference models against the worked examples of their specifications
    let cs = |v: &[u32]| v.iter().map(|&u| char::from_u32(u).unwrap()).collect::<Vec<char>>();
    let mut bad: Vec<String> = Vec::new();
    // UTR #53 section 5 "artificial" example
    let mut a = cs(&[0x618, 0x619, 0x64E, 0x64F, 0x654, 0x658, 0x653, 0x654, 0x651, 0x656, 0x651, 0x65C, 0x655, 0x650]);
    arabic_model(&mut a);
    if a != cs(&[0x654, 0x658, 0x651, 0x651, 0x618, 0x64E, 0x619, 0x64F, 0x650, 0x656, 0x65C, 0x655, 0x653, 0x654]) {
        bad.push(format!("UTR53 artificial example: {}", show(&a)));
    }
    // UTR #53 example 1: alef damma hamza-above -> alef hamza-above damma; blocked by CGJ
    let mut a = cs(&[0x627, 0x64F, 0x654]);
    arabic_model(&mut a);
    if a != cs(&[0x627, 0x654, 0x64F]) {
        bad.push("UTR53 example 1".into());
    }
    let mut a = cs(&[0x627, 0x64F, 0x34F, 0x654]);
    arabic_model(&mut a);
    if a != cs(&[0x627, 0x64F, 0x34F, 0x654]) {
        bad.push("UTR53 example 1 (CGJ)".into());
    }
    // Thai: tone + SARA AM -> NIKHAHIT tone SARA AA; phinthu after sara u
    let (t, _, _) = model_run(Fam::ThaiLao, Sub::None, &cs(&[0xE19, 0xE49, 0xE33]), &[], 0);
    if t != cs(&[0xE19, 0xE4D, 0xE49, 0xE32]) {
        bad.push("thai am".into());
    }
    let (t, _, _) = model_run(Fam::ThaiLao, Sub::None, &cs(&[0xE19, 0xE3A, 0xE38]), &[], 0);
    if t != cs(&[0xE19, 0xE38, 0xE3A]) {
        bad.push("thai phinthu".into());
    }
    // Hebrew: dagesh before vowel, shin dot first (SBL order)
    let mut h = cs(&[0x5E9, 0x5B8, 0x5BC, 0x5C1]);
    sort_runs(&mut h);
    if h != cs(&[0x5E9, 0x5C1, 0x5BC, 0x5B8]) {
        bad.push("hebrew".into());
    }
    // Telugu: the AI length mark (91 -> 5) sorts in front of a virama (9), never behind it
    let mut h = cs(&[0xC15, 0xC4D, 0xC56]);
    sort_runs(&mut h);
    if h != cs(&[0xC15, 0xC56, 0xC4D]) {
        bad.push("telugu".into());
    }
    // Indic: Bengali KA O -> KA E AA ; YA NUKTA -> YYA ; A + AA gets a dotted circle
    let (t, _, _) = model_run(Fam::Indic, Sub::Bengali, &cs(&[0x995, 0x9CB, 0x9AF, 0x9CD, 0x9BC, 0x985, 0x9BE]), &[], 0);
    if t != cs(&[0x995, 0x9C7, 0x9BE, 0x9DF, 0x9CD, 0x985, 0x25CC, 0x9BE]) {
        bad.push(format!("bengali: {}", show(&t)));
    }
    let (t, _, _) = model_run(Fam::Indic, Sub::Kannada, &cs(&[0xCB0, 0xCCD, 0x200D, 0xC95, 0xCCB]), &[], 0);
    if t != cs(&[0xCB0, 0x200D, 0xCCD, 0xC95, 0xCC6, 0xCC2, 0xCD5]) {
        bad.push("kannada".into());
    }
    let (t, _, _) = model_run(Fam::Khmer, Sub::None, &cs(&[0x1780, 0x17C4]), &[], 0);
    if t != cs(&[0x1780, 0x17C1, 0x17C4]) {
        bad.push("khmer".into());
    }
    // alphabets: every tag's family is the one the spec table says; no duplicates; classes as documented
    for sp in SPECS {
        if family_of_tag(sp.tag) != (sp.fam, sp.sub) {
            bad.push(format!("family table disagrees for {}", sp.name));
        }
        let mut a = sp.alpha.to_vec();
        a.sort();
        a.dedup();
        if a.len() != sp.alpha.len() {
            bad.push(format!("duplicate code point in alphabet {}", sp.name));
        }
    }
    for b in bad {
        ctx.violation("C17:machinery:model-self-test", || json!({"failed": b}));
    }
}

pub fn run(ctx: &Ctx) {
    let thorough = ctx.tier.thorough();
    let max_len = if thorough { 7 } else { 5 };
    ctx.set_rule(
        "case = (script tag, code point string); every string over the script's alphabet up to the length bound is run \
         through the real preprocess_text and compared with the reference model (plus Arabic long mark runs enumerated \
         with a deviation bound, and all lower^a shadda^b higher^c group patterns); non-trivial = the output differs from \
         the input (a reorder, split, recomposition, swap or insertion happened). Distinct cases are counted exactly \
         (hash of tag+input / tag+output) for strings up to length 5; longer strings are counted by a coarse shape \
         (tag, input length, output length, set of changed positions) to bound memory - exact per-length counts of \
         changed strings are in coverage.per_script.",
    );
    ctx.assume("combining classes come from the unicode-canonical-combining-class crate (the same data allsorts links); 'mark' = ccc != 0 or one of the listed ccc=0 M* characters of the alphabets (no General_Category data in the harness)");
    ctx.assume("modified combining class = ccc with the remappings allsorts documents from the OpenType shaping documents: Hebrew in SBL manual order (10>22 11>15 12>16 13>17 14>23 15>18 16>19 17>20 18>21 19>14 20>24 21>12 22>25 23>13 24>10 25>11), Thai 103>3, Telugu 84>4 and 91>5; all other classes unchanged (HarfBuzz additionally remaps Arabic and Tibetan classes; allsorts handles Arabic by UTR #53 instead)");
    ctx.assume("the property limits which changes may happen; a documented rewrite that is NOT applied (SARA AM left whole, second of two overlapping prohibited pairs, RA HALANT ZWJ away from the text start) is accepted and reported under coverage.observations, not as a violation");
    ctx.assume("pipeline order of the Indic model follows HarfBuzz / the shaping documents: vowel constraints on the typed text, then matra decomposition, then canonical reordering, then recomposition / Kannada swap");
    ctx.assume("Thai/Lao: NIKHAHIT from a decomposed AM may move in front of all preceding above-base marks (opentype-shaping-documents issue 125, HarfBuzz) or of tone marks only (the document's wording); both are accepted");
    ctx.assume("Myanmar tags: allsorts performs no preprocessing; identity and canonical reordering are both accepted");
    ctx.assume("termination is not decided by the check: a non-terminating preprocess_text would hang it (harness timeout)");

    self_test(ctx);

    let acc = Acc { ctx, obs: Mutex::new(BTreeMap::new()), viols: Mutex::new(BTreeMap::new()), full_hash_len: 5 };
    let rows = enumerate_strings(&acc, max_len);
    let long = if thorough { arabic_long_runs(&acc, 17..=24, 3) } else { arabic_long_runs(&acc, 17..=22, 3) };
    let pats = arabic_patterns(&acc, if thorough { 64 } else { 40 });
    let sweep = classification_sweep(&acc);
    let mg = map_glyphs_agrees(ctx, if thorough { 4 } else { 3 });

    // samples: offered sequentially in a fixed order so that the evidence file is reproducible
    for sp in SPECS {
        let alpha: Vec<char> = sp.alpha.iter().map(|&u| char::from_u32(u).unwrap()).collect();
        let n = alpha.len();
        let mut offered = 0;
        'scan: for i in 0..n * n * n {
            let s = [alpha[i / (n * n)], alpha[i / n % n], alpha[i % n]];
            if let Ok(o) = guard(|| {
                let mut v = s.to_vec();
                preprocess_text(&mut v, sp.tag);
                v
            }) {
                if o.as_slice() != &s[..] {
                    ctx.sample(hash_chars(H::new().u64(sp.tag as u64), &s).get(), || json!({"script": sp.name, "input": show(&s), "output": show(&o)}));
                    offered += 1;
                    if offered == 2 {
                        break 'scan;
                    }
                }
            }
        }
    }

    for (key, (n, _, w)) in acc.viols.into_inner().unwrap() {
        ctx.violation(&key, || w);
        for _ in 1..n {
            ctx.violation(&key, || Value::Null);
        }
    }
    let obs = acc.obs.into_inner().unwrap();
    let obs_json: Vec<Value> = obs
        .iter()
        .map(|(k, o)| {
            let w = o.witness.as_ref().unwrap();
            let sh = |v: &[u32]| v.iter().map(|u| format!("U+{:04X}", u)).collect::<Vec<_>>().join(" ");
            json!({"what": k, "strings": o.count, "smallest_witness": {"tag": w.2, "input": sh(&w.1), "output": sh(&w.3)}})
        })
        .collect();
    ctx.set("observations", json!(obs_json));
    ctx.set("per_script", json!(rows));
    ctx.set("arabic_long_runs", long);
    ctx.set("arabic_group_patterns", pats);
    ctx.set("classification_sweep", sweep);
    ctx.set("map_glyphs_strings", json!(mg));
    ctx.set(
        "bounds",
        json!({"script_tags": SPECS.len(), "max_string_length": max_len, "alphabet_sizes": SPECS.iter().map(|s| s.alpha.len()).collect::<Vec<_>>(),
               "map_glyphs_max_length": if thorough { 4 } else { 3 }}),
    );
}

pub fn replay(w: &Value) -> Result<(), String> {
    let tag = w["tag"].as_u64().ok_or("witness has no tag")? as u32;
    let input: Vec<char> = w["input"]
        .as_array()
        .ok_or("witness has no input")?
        .iter()
        .map(|v| v.as_u64().and_then(|u| char::from_u32(u as u32)).ok_or("bad code point"))
        .collect::<Result<_, _>>()?;
    if w["via"].as_str() == Some("map_glyphs") {
        let font = otmodel::tables::minimal_font(2, &[(0x41, 1)], &[]);
        let text: String = input.iter().collect();
        let got = crate::util::with_font(&font, |f| {
            guard(|| {
                f.map_glyphs(&text, tag, MatchingPresentation::NotRequired)
                    .iter()
                    .map(|g| match g.glyph_origin {
                        GlyphOrigin::Char(c) => c,
                        GlyphOrigin::Direct => '\u{FFFF}',
                    })
                    .collect::<Vec<char>>()
            })
        })?;
        let want = guard(|| {
            let mut v = input.clone();
            preprocess_text(&mut v, tag);
            v
        });
        return match (got, want) {
            (Ok(g), Ok(w)) if g == w => Ok(()),
            (Err(_), Err(_)) => Ok(()),
            (g, w) => Err(format!("map_glyphs maps {:?}, preprocess_text gives {:?}", g.ok().map(|x| show(&x)), w.ok().map(|x| show(&x)))),
        };
    }
    let (fam, sub) = family_of_tag(tag);
    let v = check_one(tag, fam, sub, &input);
    let again = check_one(tag, fam, sub, &input);
    if v.out != again.out {
        return Err("machinery: replay is not deterministic".into());
    }
    match v.viols.first() {
        None => Ok(()),
        Some(viol) => Err(format!(
            "{} script '{}' input [{}]: preprocess_text gives [{}]{}{}",
            viol.key,
            tag_name(tag),
            show(&input),
            v.out.as_ref().map(|o| show(o)).unwrap_or_else(|| "panic".into()),
            viol.expected.as_ref().map(|e| format!(", reference model [{}]", show(e))).unwrap_or_default(),
            if viol.note.is_empty() { String::new() } else { format!(" ({})", viol.note) }
        )),
    }
}
