//! C05 — glyph positioning follows OpenType GPOS (and legacy kern) semantics.
//!
//! Bounded exhaustive exploration: a catalogue of abstract GPOS programs over the 8-glyph universe
//! (0 .notdef, 1 a, 2 b, 3 c, 4 L(igature), 5 m1, 6 m2, 7 x) is encoded to binary by
//! `otmodel::gposenc` (written from the specification), every encoding variant (Coverage 1/2, ClassDef
//! 1/2, Extension wrapping; <= 2 non-default choices) is run through the real allsorts code on every
//! glyph string up to a length bound, and the result is compared with the reference positioner:
//!   stage A  Info.kerning / Info.placement   vs  `apply_gpos`
//!   stage B  GlyphLayout::glyph_positions (both directions, two hmtx variants), turned into absolute
//!            glyph origins under the documented drawing convention,  vs  `pen_positions` evaluated on
//!            the *observed* Info values (so that a stage A deviation does not cascade)
//! A and B together give the end-to-end statement. Seams: `gpos::apply_features` on a LayoutCache built
//! from the encoded bytes, and `Font::shape` + `GlyphLayout` on a wrapped sfnt. kern tables: byte-level
//! reference reader vs `gpos::apply_fallback` / `Font::shape`.
//!
//! Family 'markadjust' (see `markadjust_programs`): a mark that is attached by lookup type 4, 5 or 6 and also adjusted
//! by a value record (SinglePos, PairPos, nested SinglePos of a contextual rule), in both lookup orders, inside one
//! feature and across two features. Where the specification does not decide (a placement made before the attachment)
//! both legitimate outcomes are accepted, see `otmodel::gposenc::Interp`.
//!
//! Family 'cursiveadjust' (see `cursiveadjust_programs`): a glyph of a cursive chain that is also adjusted by a value
//! record, before or after the cursive lookup. Reference = attachment kept, placement added (HarfBuzz); allsorts'
//! documented behaviour is deviation switch 12 of the reference model.
//!
//! Family 'pairskip' (see `pairskip_programs`): PairPos with every glyph covered as first and as second glyph under every
//! lookup flag setting, strings of length 4 already in the quick tier: an excluded glyph must never become a pair member.
//!
//! A mismatch is attributed to a precise key only if the observed output equals the reference run with
//! the corresponding deviation switch(es); everything else is "C05:mismatch:<kind>".

use allsorts::binary::read::ReadScope;
use allsorts::glyph_position::{GlyphLayout, TextDirection};
use allsorts::gpos::{self, Info, Placement};
use allsorts::gsub::{FeatureInfo, Features, GlyphOrigin, RawGlyph, RawGlyphFlags};
use allsorts::layout::{new_layout_cache, GDEFTable, LayoutTable, GPOS};
use allsorts::tables::kern::KernTable;
use allsorts::tables::variable_fonts::Tuple;
use allsorts::tables::F2Dot14;
use mcx::{guard, hex, Ctx, PanicInfo, H};
use otmodel::gposenc::*;
use otmodel::tag;
use rayon::prelude::*;
use serde_json::{json, Value as J};
use std::collections::BTreeMap;

use crate::util::with_font;

const A: G = 1;
const B: G = 2;
const L: G = 4;
const M1: G = 5;
const M2: G = 6;
const ALPHABET: [G; 5] = [A, B, L, M1, M2];

const T_KERN: u32 = tag(b"kern");
const T_MARK: u32 = tag(b"mark");
const T_MKMK: u32 = tag(b"mkmk");
const T_DIST: u32 = tag(b"dist");
const T_CURS: u32 = tag(b"curs");
const T_LIGA: u32 = tag(b"liga");
const T_LATN: u32 = tag(b"latn");
/// a feature that is not one of the default features of the script: `Font::shape` applies it (as a custom feature)
/// after dist / kern / mark / mkmk
const T_LATE: u32 = tag(b"ss01");

const MFS0: u16 = USE_MARK_FILTERING_SET; // with mark_set 0
const FLAGS8: [(u16, u16); 8] = [
    (0, 0),
    (IGNORE_BASE, 0),
    (IGNORE_LIG, 0),
    (IGNORE_MARKS, 0),
    (0x0100, 0),
    (0x0200, 0),
    (MFS0, 0),
    (MFS0, 1),
];
/// flags used for mark attachment lookups (IgnoreBase / IgnoreLigatures are excluded: the specification
/// does not say what they mean for the glyph a mark attaches to)
const FLAGS_MARK: [(u16, u16); 6] = [(0, 0), (IGNORE_MARKS, 0), (0x0100, 0), (0x0200, 0), (MFS0, 0), (MFS0, 1)];

const PR: [i16; 64] = [
    3, 5, 7, 11, 13, 17, 19, 23, 29, 31, 37, 41, 43, 47, 53, 59, 61, 67, 71, 73, 79, 83, 89, 97, 101, 103, 107, 109,
    113, 127, 131, 137, 139, 149, 151, 157, 163, 167, 173, 179, 181, 191, 193, 197, 199, 211, 223, 227, 229, 233, 239,
    241, 251, 257, 263, 269, 271, 277, 281, 283, 293, 307, 311, 313,
];

/// distinct non-zero values for every field of value record number `rec`
fn val(rec: usize) -> Value {
    let p = |k: usize| PR[(4 * rec + k) % 64] + 320 * ((4 * rec + k) / 64) as i16;
    let s = if rec % 2 == 1 { -1 } else { 1 };
    Value::new([p(0), -s * p(1), s * p(2), -p(3)])
}

fn anchor(x: i16, y: i16, k: usize) -> Anchor {
    let fmt = match k % 3 {
        0 => AnchorFmt::F1,
        1 => AnchorFmt::F2(3),
        _ => AnchorFmt::F3(Dev::Device { start: 12, end: 13, fmt: 1, deltas: vec![1, -1] }, Dev::Null),
    };
    Anchor { x, y, fmt }
}

fn store() -> VarStore {
    let one = 16384;
    VarStore {
        axis_count: 1,
        regions: vec![vec![(0, one, one)], vec![(-one, -one, 0)], vec![(0, one / 2, one)]],
        data: vec![
            VarData {
                region_idx: vec![0, 1, 2],
                word_count: 3,
                items: vec![vec![10, -20, 6], vec![-14, 8, 4], vec![30, 2, -12], vec![-6, -40, 16], vec![400, 300, 200], vec![-600, -500, 700]],
            },
            VarData { region_idx: vec![0, 2], word_count: 1, items: vec![vec![100, -8], vec![-50, 12]] },
        ],
    }
}

const TUPLES: [Option<i16>; 6] = [None, Some(0), Some(8192), Some(16384), Some(-16384), Some(-8192)];

#[derive(Clone, Copy, Debug, PartialEq, Eq)]
enum Kind {
    Single,
    Pair,
    Cursive,
    MarkBase,
    MarkLig,
    MarkMark,
    Context,
    Combo,
    MarkAdjust,
    CursiveAdjust,
    PairSkip,
    Overflow,
}

impl Kind {
    fn name(&self) -> &'static str {
        match self {
            Kind::Single => "single",
            Kind::Pair => "pair",
            Kind::Cursive => "cursive",
            Kind::MarkBase => "markbase",
            Kind::MarkLig => "marklig",
            Kind::MarkMark => "markmark",
            Kind::Context => "context",
            Kind::Combo => "combo",
            Kind::MarkAdjust => "markadjust",
            Kind::CursiveAdjust => "cursiveadjust",
            Kind::PairSkip => "pairskip",
            Kind::Overflow => "overflow",
        }
    }
    /// switches tried when attributing a stage A mismatch
    /// Deviation switches tried when attributing a mismatch. Switches 0-10 (and layout switches 0, 1, kern
    /// switches 0-2) describe defects that were repaired in /repo (KNOWN_FINDINGS.txt `fixed:` lines); they are no
    /// longer candidates, so a return of that behaviour is reported as a plain mismatch.
    fn cands(&self) -> &'static [usize] {
        match self {
            Kind::Single | Kind::Pair | Kind::PairSkip | Kind::Context | Kind::Combo | Kind::MarkAdjust | Kind::Overflow => &[],
            // 11 = anchor format 3 variation deltas ignored: the only GPOS deviation still recorded as a known finding
            Kind::Cursive | Kind::MarkBase | Kind::MarkLig | Kind::MarkMark => &[11],
            // 12 = Info cannot hold a cursive link and a placement on one glyph (known finding)
            Kind::CursiveAdjust => &[12],
        }
    }
}

struct Prog {
    name: String,
    kind: Kind,
    gpos: Gpos,
    gdef: Gdef,
    /// features in the order they are applied
    feats: Vec<u32>,
    /// run with variation tuples
    tuples: bool,
    /// enumerate ligature component assignments of marks that follow L
    comps: bool,
    /// also lay out with a font whose marks have zero advance
    zero_marks: bool,
    /// maximal string length for this program (per tier)
    maxlen: (usize, usize),
}

fn prog(name: String, kind: Kind, feat: u32, lookups: Vec<Lookup>) -> Prog {
    let n = lookups.len() as u16;
    Prog {
        name,
        kind,
        gpos: Gpos { features: vec![(feat, (0..n).collect())], lookups },
        gdef: Gdef::universe(),
        feats: vec![feat],
        tuples: false,
        comps: false,
        zero_marks: matches!(kind, Kind::MarkBase | Kind::MarkLig | Kind::MarkMark | Kind::Combo | Kind::MarkAdjust),
        maxlen: (4, 5),
    }
}

fn lk(flag: (u16, u16), subs: Vec<Subtable>) -> Lookup {
    Lookup { flag: flag.0, mark_set: flag.1, subs }
}

fn flag_name(f: (u16, u16)) -> String {
    format!("flag={:#06x}/set{}", f.0, f.1)
}

// ---------------------------------------------------------------------------------------------------
// program catalogue
// ---------------------------------------------------------------------------------------------------

fn single1(fmt: u16, rec: usize) -> Subtable {
    Subtable::Single1 { cov: vec![A, B, M1], fmt, value: val(rec) }
}
fn single2(fmt: u16) -> Subtable {
    Subtable::Single2 { cov: vec![A, L, M1, M2], fmt, values: (1..5).map(val).collect() }
}

fn pair1(fmt1: u16, fmt2: u16) -> Subtable {
    Subtable::Pair1 {
        cov: vec![A, L, M1],
        fmt1,
        fmt2,
        sets: vec![
            vec![(A, val(0), val(1)), (B, val(2), val(3)), (M1, val(4), val(5))],
            vec![(B, val(6), val(7))],
            vec![(A, val(8), val(9)), (M2, val(10), val(11))],
        ],
    }
}

fn pair2(fmt1: u16, fmt2: u16) -> Subtable {
    let matrix = (0..3).map(|r| (0..3).map(|c| (val(12 + 2 * (r * 3 + c)), val(13 + 2 * (r * 3 + c)))).collect()).collect();
    Subtable::Pair2 {
        cov: vec![A, B, L, M1],
        fmt1,
        fmt2,
        class1: vec![(A, 1), (L, 2)],
        class2: vec![(B, 1), (M1, 1), (M2, 2)],
        matrix,
    }
}

fn dev_menu(cfg: usize, k: usize) -> Dev {
    let d1 = Dev::Device { start: 12, end: 13, fmt: 1, deltas: vec![1, -1] };
    let d2 = Dev::Device { start: 9, end: 13, fmt: 2, deltas: vec![3, -4, 5, 7, -8] };
    let d3 = Dev::Device { start: 20, end: 22, fmt: 3, deltas: vec![100, -100, 7] };
    match cfg {
        0 => Dev::Var { outer: 0, inner: k as u16 },
        1 => [d1, d2, d3.clone(), d3][k].clone(),
        2 => [Dev::Null, Dev::Var { outer: 1, inner: 0 }, d2, Dev::Var { outer: 0, inner: 3 }][k].clone(),
        _ => [Dev::Var { outer: 1, inner: 1 }, Dev::Null, Dev::Var { outer: 0, inner: 2 }, d1][k].clone(),
    }
}

fn with_devs(mut v: Value, cfg: usize) -> Value {
    for k in 0..4 {
        v.dev[k] = dev_menu(cfg, k);
    }
    v
}

fn cursive(mask: usize) -> Subtable {
    // bit 2g = entry present, bit 2g+1 = exit present for g in (a, b, L)
    let pts: [((i16, i16), (i16, i16)); 3] = [((11, 13), (401, -17)), ((19, -23), (409, 29)), ((-31, 37), (419, 41))];
    let recs = (0..3)
        .map(|g| {
            let en = (mask >> (2 * g)) & 1 == 1;
            let ex = (mask >> (2 * g + 1)) & 1 == 1;
            (
                en.then(|| anchor(pts[g].0 .0, pts[g].0 .1, 2 * g + mask)),
                ex.then(|| anchor(pts[g].1 .0, pts[g].1 .1, 2 * g + 1 + mask)),
            )
        })
        .collect();
    Subtable::Cursive { cov: vec![A, B, L], recs }
}

/// mark class configurations: (class_count, class of m1, class of m2)
const CLASS_CFG: [(u16, u16, u16); 3] = [(1, 0, 0), (2, 0, 1), (2, 1, 0)];

fn mark_recs(cov: &[G], cfg: (u16, u16, u16), k: usize) -> Vec<(u16, Anchor)> {
    cov.iter()
        .map(|&g| if g == M1 { (cfg.1, anchor(53, 59, k)) } else { (cfg.2, anchor(-61, 67, k + 1)) })
        .collect()
}

fn anchor_rows(rows: usize, classes: u16, null_mask: usize, base: i16, k: usize) -> Vec<Vec<Option<Anchor>>> {
    (0..rows)
        .map(|r| {
            (0..classes as usize)
                .map(|c| {
                    let bit = r * classes as usize + c;
                    let sign = if (r + c) % 2 == 1 { -1 } else { 1 };
                    ((null_mask >> bit) & 1 == 0)
                        .then(|| anchor(base + 20 * bit as i16 + 1, sign * (base + 20 * bit as i16 + 9), k + bit))
                })
                .collect()
        })
        .collect()
}

fn markbase(mark_cov: Vec<G>, cfg: (u16, u16, u16), null_mask: usize, k: usize) -> Subtable {
    let marks = mark_recs(&mark_cov, cfg, k);
    Subtable::MarkBase { mark_cov, base_cov: vec![A, B], class_count: cfg.0, marks, bases: anchor_rows(2, cfg.0, null_mask, 200, k) }
}

fn marklig(cfg: (u16, u16, u16), null_mask: usize, k: usize) -> Subtable {
    let mark_cov = vec![M1, M2];
    let marks = mark_recs(&mark_cov, cfg, k);
    Subtable::MarkLig { mark_cov, lig_cov: vec![L], class_count: cfg.0, marks, ligs: vec![anchor_rows(2, cfg.0, null_mask, 300, k)] }
}

fn markmark(mark1_cov: Vec<G>, mark2_cov: Vec<G>, cfg: (u16, u16, u16), null_mask: usize, k: usize) -> Subtable {
    let marks = mark_recs(&mark1_cov, cfg, k);
    let rows = mark2_cov.len();
    Subtable::MarkMark { mark1_cov, mark2_cov, class_count: cfg.0, marks, mark2s: anchor_rows(rows, cfg.0, null_mask, 100, k) }
}

fn catalogue(thorough: bool) -> Vec<Prog> {
    let mut v: Vec<Prog> = Vec::new();
    let pair_len = (3, 4);

    // ---- SinglePos: formats 1/2 x all 16 combinations of the four value bits x 8 flags
    for fmt in 0..16u16 {
        for f in FLAGS8 {
            v.push(prog(format!("single1 vf={:#x} {}", fmt, flag_name(f)), Kind::Single, T_KERN, vec![lk(f, vec![single1(fmt, 0)])]));
            v.push(prog(format!("single2 vf={:#x} {}", fmt, flag_name(f)), Kind::Single, T_KERN, vec![lk(f, vec![single2(fmt)])]));
        }
    }
    // a feature's lookup index list is a set: lookups are applied in lookup-list order, each once, however the list is
    // ordered and however often it names an index (adjacent or not)
    for fmt in [0x4u16, 0x5, 0xF] {
        for (ln, list) in [("[0,1,0]", vec![0u16, 1, 0]), ("[1,0]", vec![1, 0]), ("[0,0,1]", vec![0, 0, 1]), ("[1,0,1,0]", vec![1, 0, 1, 0]), ("[1,1]", vec![1, 1])] {
            let lookups = vec![lk((0, 0), vec![single1(fmt, 0)]), lk((0, 0), vec![Subtable::Pair1 { cov: vec![A, B], fmt1: fmt, fmt2: fmt ^ 0x1, sets: vec![vec![(B, val(11), val(12))], vec![(A, val(13), val(14))]] }])];
            let mut p = prog(format!("single1+pair1 vf={:#x} feature lookup list {}", fmt, ln), Kind::Single, T_KERN, lookups);
            p.gpos.features = vec![(T_KERN, list)];
            v.push(p);
        }
    }
    // two subtables: the first one that covers the glyph is used
    for fmt in [0x5u16, 0xF, 0x3] {
        v.push(prog(
            format!("single 2-subtables vf={:#x}", fmt),
            Kind::Single,
            T_KERN,
            vec![lk((0, 0), vec![Subtable::Single1 { cov: vec![A], fmt, value: val(7) }, single2(fmt ^ 0x6)])],
        ));
    }
    // device / VariationIndex bits (reduced menu) x variation tuples
    for fmt in [0x10u16, 0x20, 0x40, 0x80, 0x11, 0x22, 0x44, 0x50, 0xA0, 0xF0, 0xFF, 0x35, 0xC3] {
        for cfg in 0..4 {
            for (si, f) in [(0u16, 0u16), (IGNORE_MARKS, 0)].into_iter().enumerate() {
                if si == 1 && cfg > 0 {
                    continue;
                }
                let s1 = Subtable::Single1 { cov: vec![A, B, M1], fmt, value: with_devs(val(0), cfg) };
                let s2 = Subtable::Single2 { cov: vec![A, L, M1, M2], fmt, values: (1..5).map(|r| with_devs(val(r), (cfg + r) % 4)).collect() };
                for (n, s) in [("single1", s1), ("single2", s2)] {
                    let mut p = prog(format!("{} devices vf={:#x} cfg={} {}", n, fmt, cfg, flag_name(f)), Kind::Single, T_KERN, vec![lk(f, vec![s])]);
                    p.gdef.store = Some(store());
                    p.tuples = true;
                    v.push(p);
                }
            }
        }
    }

    // ---- PairPos: formats 1/2 x 16 x 16 value formats x 8 flags
    for fmt1 in 0..16u16 {
        for fmt2 in 0..16u16 {
            for f in FLAGS8 {
                let mut p = prog(format!("pair1 vf1={:#x} vf2={:#x} {}", fmt1, fmt2, flag_name(f)), Kind::Pair, T_KERN, vec![lk(f, vec![pair1(fmt1, fmt2)])]);
                p.maxlen = pair_len;
                v.push(p);
                let mut p = prog(format!("pair2 vf1={:#x} vf2={:#x} {}", fmt1, fmt2, flag_name(f)), Kind::Pair, T_KERN, vec![lk(f, vec![pair2(fmt1, fmt2)])]);
                p.maxlen = pair_len;
                v.push(p);
            }
        }
    }
    // several subtables: the first subtable that has the pair wins; a class subtable shadows later ones
    for (fmt1, fmt2) in [(0x4u16, 0u16), (0x5, 0x1), (0x4, 0x4)] {
        let small = Subtable::Pair1 { cov: vec![A], fmt1, fmt2, sets: vec![vec![(B, val(40), val(41))]] };
        v.push(prog(format!("pair 2-subtables f1,f1 vf1={:#x} vf2={:#x}", fmt1, fmt2), Kind::Pair, T_KERN, vec![lk((0, 0), vec![small.clone(), pair1(fmt1, fmt2)])]));
        v.push(prog(format!("pair 2-subtables f1,f2 vf1={:#x} vf2={:#x}", fmt1, fmt2), Kind::Pair, T_KERN, vec![lk((0, 0), vec![small.clone(), pair2(fmt1, fmt2)])]));
        v.push(prog(format!("pair 2-subtables f2,f1 vf1={:#x} vf2={:#x}", fmt1, fmt2), Kind::Pair, T_KERN, vec![lk((0, 0), vec![pair2(fmt1, fmt2), small])]));
    }
    // device bits in pair value records (offsets relative to the PairSet / the format 2 subtable)
    for (fmt1, fmt2) in [(0x44u16, 0x11u16), (0x40, 0x0), (0x0, 0x10), (0xFF, 0xFF)] {
        for cfg in [0usize, 2] {
            let mut s1 = pair1(fmt1, fmt2);
            let mut s2 = pair2(fmt1, fmt2);
            if let Subtable::Pair1 { sets, .. } = &mut s1 {
                for (i, s) in sets.iter_mut().enumerate() {
                    for (j, r) in s.iter_mut().enumerate() {
                        r.1 = with_devs(r.1.clone(), (cfg + i + j) % 4);
                        r.2 = with_devs(r.2.clone(), (cfg + i + j + 1) % 4);
                    }
                }
            }
            if let Subtable::Pair2 { matrix, .. } = &mut s2 {
                for (i, row) in matrix.iter_mut().enumerate() {
                    for (j, r) in row.iter_mut().enumerate() {
                        r.0 = with_devs(r.0.clone(), (cfg + i + j) % 4);
                        r.1 = with_devs(r.1.clone(), (cfg + i + 2 * j + 1) % 4);
                    }
                }
            }
            for (n, s) in [("pair1", s1), ("pair2", s2)] {
                let mut p = prog(format!("{} devices vf1={:#x} vf2={:#x} cfg={}", n, fmt1, fmt2, cfg), Kind::Pair, T_KERN, vec![lk((0, 0), vec![s])]);
                p.gdef.store = Some(store());
                p.tuples = true;
                v.push(p);
            }
        }
    }

    // ---- CursivePos: entry/exit present/absent (64 masks) x 8 flags x RIGHT_TO_LEFT
    for mask in 0..64usize {
        for f in FLAGS8 {
            for rtl in [0u16, RIGHT_TO_LEFT] {
                v.push(prog(
                    format!("cursive mask={:#04x} {} rtl={}", mask, flag_name(f), rtl),
                    Kind::Cursive,
                    T_CURS,
                    vec![lk((f.0 | rtl, f.1), vec![cursive(mask)])],
                ));
            }
        }
    }
    for rtl in [0u16, RIGHT_TO_LEFT] {
        let s0 = Subtable::Cursive { cov: vec![A], recs: vec![(None, Some(anchor(301, 5, 0)))] };
        v.push(prog(format!("cursive 2-subtables rtl={}", rtl), Kind::Cursive, T_CURS, vec![lk((rtl, 0), vec![s0, cursive(0x3F)])]));
    }

    // ---- MarkBasePos
    for (ci, cfg) in CLASS_CFG.iter().enumerate() {
        for (mi, mark_cov) in [vec![M1, M2], vec![M1]].into_iter().enumerate() {
            let bits = 2 * cfg.0 as usize;
            for null_mask in 0..(1usize << bits) {
                for f in FLAGS_MARK {
                    v.push(prog(
                        format!("markbase classes={:?} markcov={:?} null={:#x} {}", cfg, mark_cov, null_mask, flag_name(f)),
                        Kind::MarkBase,
                        T_MARK,
                        vec![lk(f, vec![markbase(mark_cov.clone(), *cfg, null_mask, ci + mi + null_mask)])],
                    ));
                }
            }
        }
    }
    // two subtables: a NULL base anchor in the first falls through to the second
    for null_mask in [0x1usize, 0x5, 0x0] {
        v.push(prog(
            format!("markbase 2-subtables null={:#x}", null_mask),
            Kind::MarkBase,
            T_MARK,
            vec![lk((0, 0), vec![markbase(vec![M1], CLASS_CFG[1], null_mask, 0), markbase(vec![M1, M2], CLASS_CFG[2], 0, 1)])],
        ));
    }
    // Anchor format 3 with VariationIndex tables
    {
        let va = |x: i16, y: i16, i: u16| Anchor { x, y, fmt: AnchorFmt::F3(Dev::Var { outer: 0, inner: i }, Dev::Var { outer: 0, inner: i + 1 }) };
        let s = Subtable::MarkBase {
            mark_cov: vec![M1, M2],
            base_cov: vec![A, B],
            class_count: 1,
            marks: vec![(0, va(53, 59, 0)), (0, anchor(-61, 67, 0))],
            bases: vec![vec![Some(va(201, 209, 2))], vec![Some(Anchor { x: 221, y: -229, fmt: AnchorFmt::F3(Dev::Null, Dev::Var { outer: 1, inner: 0 }) })]],
        };
        let mut p = prog("markbase anchor3-variation".into(), Kind::MarkBase, T_MARK, vec![lk((0, 0), vec![s])]);
        p.gdef.store = Some(store());
        p.tuples = true;
        v.push(p);
    }

    // ---- MarkLigPos (marks after L carry a component index)
    for (ci, cfg) in CLASS_CFG.iter().enumerate() {
        let bits = 2 * cfg.0 as usize;
        for null_mask in 0..(1usize << bits) {
            for f in FLAGS_MARK {
                let mut p = prog(
                    format!("marklig classes={:?} null={:#x} {}", cfg, null_mask, flag_name(f)),
                    Kind::MarkLig,
                    T_MARK,
                    vec![lk(f, vec![marklig(*cfg, null_mask, ci + null_mask)])],
                );
                p.comps = true;
                p.maxlen = (4, 4);
                v.push(p);
            }
        }
    }

    // ---- MarkMarkPos
    for (ci, cfg) in CLASS_CFG.iter().enumerate() {
        for c1 in [vec![M1, M2], vec![M1], vec![M2]] {
            for c2 in [vec![M1, M2], vec![M1], vec![M2]] {
                let bits = c2.len() * cfg.0 as usize;
                let mut masks = vec![0usize];
                masks.extend((0..bits).map(|b| 1usize << b));
                for null_mask in masks {
                    for f in FLAGS_MARK {
                        v.push(prog(
                            format!("markmark classes={:?} mark1={:?} mark2={:?} null={:#x} {}", cfg, c1, c2, null_mask, flag_name(f)),
                            Kind::MarkMark,
                            T_MKMK,
                            vec![lk(f, vec![markmark(c1.clone(), c2.clone(), *cfg, null_mask, ci + null_mask)])],
                        ));
                    }
                }
            }
        }
    }

    context_programs(&mut v);
    combo_programs(&mut v);
    markadjust_programs(&mut v);
    cursiveadjust_programs(&mut v);
    pairskip_programs(&mut v);
    let _ = thorough;
    v
}

fn context_programs(v: &mut Vec<Prog>) {
    let all = vec![A, B, L, M1, M2];
    let r = |input: Vec<u16>, records: Vec<SeqLookup>| Rule { input, records };
    let cr = |backtrack: Vec<u16>, input: Vec<u16>, lookahead: Vec<u16>, records: Vec<SeqLookup>| ChainRule { backtrack, input, lookahead, records };
    for f in [(0u16, 0u16), (IGNORE_MARKS, 0), (0x0100, 0), (MFS0, 0)] {
        // ns = index of the nested SinglePos: 1 has lookup flag 0, 2 has the parent's flag
        for ns in [1u16, 2] {
            let cls = vec![(A, 1), (B, 2), (M1, 3)];
            let templates: Vec<(&str, Vec<Subtable>)> = vec![
                ("ctx1 [a b]->0", vec![Subtable::Context1 { cov: vec![A], sets: vec![Some(vec![r(vec![B], vec![(0, ns)])])] }]),
                ("ctx1 [a a]->0 overlap", vec![Subtable::Context1 { cov: vec![A], sets: vec![Some(vec![r(vec![A], vec![(0, ns)])])] }]),
                (
                    "ctx1 first-rule-wins [a b]->1 | [a]->0",
                    vec![Subtable::Context1 { cov: vec![A, B], sets: vec![Some(vec![r(vec![B], vec![(1, ns)]), r(vec![], vec![(0, ns)])]), None] }],
                ),
                ("ctx1 [a b a]->2,0", vec![Subtable::Context1 { cov: vec![A], sets: vec![Some(vec![r(vec![B, A], vec![(2, ns), (0, ns)])])] }]),
                (
                    "ctx2 class1:[1 2]->1 ; class0(L):[2]->0,1",
                    vec![Subtable::Context2 {
                        cov: vec![A, L],
                        classes: cls.clone(),
                        sets: vec![Some(vec![r(vec![2], vec![(0, ns), (1, ns)])]), Some(vec![r(vec![2], vec![(1, ns)])]), None, None],
                    }],
                ),
                ("ctx2 [1 3]->1", vec![Subtable::Context2 { cov: vec![A, B], classes: cls.clone(), sets: vec![None, Some(vec![r(vec![3], vec![(1, ns)])]), None, None] }]),
                ("ctx3 [{a,b}{m1,m2}]->1,0", vec![Subtable::Context3 { covs: vec![vec![A, B], vec![M1, M2]], records: vec![(1, ns), (0, ns)] }]),
                ("ctx3 [{a}{b}]->1", vec![Subtable::Context3 { covs: vec![vec![A], vec![B]], records: vec![(1, ns)] }]),
                ("chain1 b|a|b ->0", vec![Subtable::Chain1 { cov: vec![A], sets: vec![Some(vec![cr(vec![B], vec![], vec![B], vec![(0, ns)])])] }]),
                ("chain1 |a b|m1 ->1", vec![Subtable::Chain1 { cov: vec![A], sets: vec![Some(vec![cr(vec![], vec![B], vec![M1], vec![(1, ns)])])] }]),
                (
                    "chain2 2|1 1|3 ->1",
                    vec![Subtable::Chain2 {
                        cov: vec![A],
                        back_classes: cls.clone(),
                        in_classes: cls.clone(),
                        ahead_classes: cls.clone(),
                        sets: vec![None, Some(vec![cr(vec![2], vec![1], vec![3], vec![(1, ns)])]), None, None],
                    }],
                ),
                ("chain3 {a}|{b}{a,b}|{m1,L} ->1", vec![Subtable::Chain3 { back: vec![vec![A]], input: vec![vec![B], vec![A, B]], ahead: vec![vec![L, M1]], records: vec![(1, ns)] }]),
                ("chain3 backtrack order {b},{a}|{a}| ->0", vec![Subtable::Chain3 { back: vec![vec![B], vec![A]], input: vec![vec![A]], ahead: vec![], records: vec![(0, ns)] }]),
                ("chain3 ||{a} lookahead {b}{m1} ->0", vec![Subtable::Chain3 { back: vec![], input: vec![vec![A]], ahead: vec![vec![B], vec![M1]], records: vec![(0, ns)] }]),
                ("ctx3 [{a}{b}]-> pair at 0", vec![Subtable::Context3 { covs: vec![vec![A], vec![B]], records: vec![(0, 3)] }]),
                ("ctx3 [{a,b}{m1,m2}]-> markbase at 1", vec![Subtable::Context3 { covs: vec![vec![A, B], vec![M1, M2]], records: vec![(1, 4)] }]),
                ("ctx3 [{a}{b}]-> nested context at 0", vec![Subtable::Context3 { covs: vec![vec![A], vec![B]], records: vec![(0, 5)] }]),
                // nested pair / cursive lookups whose flags differ from the context lookup's: the second glyph of the pair
                // is found with the NESTED lookup's flags
                ("ctx3 [{a}{b}]-> pair(IgnoreMarks) at 0", vec![Subtable::Context3 { covs: vec![vec![A], vec![B]], records: vec![(0, 6)] }]),
                ("ctx3 [{a}{b}]-> pair(flag 0) at 0", vec![Subtable::Context3 { covs: vec![vec![A], vec![B]], records: vec![(0, 7)] }]),
                ("ctx3 [{a}]-> pair(IgnoreMarks) at 0", vec![Subtable::Context3 { covs: vec![vec![A]], records: vec![(0, 6)] }]),
                ("ctx3 [{a}]-> pair(flag 0) at 0", vec![Subtable::Context3 { covs: vec![vec![A]], records: vec![(0, 7)] }]),
                ("ctx3 [{a}]-> pair(mark set 1) at 0", vec![Subtable::Context3 { covs: vec![vec![A]], records: vec![(0, 8)] }]),
                (
                    "2 subtables ctx1 [a b]->0 | ctx3 [{a}]->0",
                    vec![
                        Subtable::Context1 { cov: vec![A], sets: vec![Some(vec![r(vec![B], vec![(0, ns), (1, ns)])])] },
                        Subtable::Context3 { covs: vec![vec![A]], records: vec![(0, ns)] },
                    ],
                ),
            ];
            for (name, subs) in templates {
                let lookups = vec![
                    lk(f, subs),
                    lk((0, 0), vec![Subtable::Single1 { cov: all.clone(), fmt: 0x5, value: val(30) }]),
                    lk(f, vec![Subtable::Single1 { cov: all.clone(), fmt: 0x5, value: val(31) }]),
                    lk(f, vec![Subtable::Pair1 { cov: vec![A], fmt1: 0x4, fmt2: 0x1, sets: vec![vec![(B, val(32), val(33))]] }]),
                    lk((0, 0), vec![markbase(vec![M1, M2], CLASS_CFG[1], 0, 0)]),
                    lk(f, vec![Subtable::Context3 { covs: vec![vec![A]], records: vec![(0, 1)] }]),
                    lk((IGNORE_MARKS, 0), vec![Subtable::Pair1 { cov: vec![A], fmt1: 0x4, fmt2: 0x1, sets: vec![vec![(B, val(34), val(35)), (M1, val(36), val(37))]] }]),
                    lk((0, 0), vec![Subtable::Pair1 { cov: vec![A], fmt1: 0x4, fmt2: 0x1, sets: vec![vec![(B, val(38), val(39)), (M1, val(40), val(41)), (M2, val(42), val(43))]] }]),
                    lk((MFS0, 1), vec![Subtable::Pair1 { cov: vec![A], fmt1: 0x4, fmt2: 0x1, sets: vec![vec![(B, val(44), val(45)), (M1, val(46), val(47)), (M2, val(48), val(49))]] }]),
                ];
                let mut p = prog(format!("context {} nested-single={} {}", name, ns, flag_name(f)), Kind::Context, T_DIST, lookups);
                p.gpos.features = vec![(T_DIST, vec![0])];
                v.push(p);
            }
        }
    }
}

fn combo_programs(v: &mut Vec<Prog>) {
    let two = |name: &str, kind: Kind, f1: u32, l1: Lookup, f2: u32, l2: Lookup| -> Prog {
        let mut p = prog(format!("combo {}", name), kind, f1, vec![l1, l2]);
        if f1 == f2 {
            p.gpos.features = vec![(f1, vec![0, 1])];
            p.feats = vec![f1];
        } else {
            p.gpos.features = vec![(f1, vec![0]), (f2, vec![1])];
            p.feats = vec![f1, f2];
        }
        p
    };
    let mb = || lk((0, 0), vec![markbase(vec![M1, M2], CLASS_CFG[1], 0, 0)]);
    // placement of the base moves its marks
    for fmt in [0x1u16, 0x2, 0x3, 0x7] {
        v.push(two(
            &format!("single(base placement vf={:#x})+markbase", fmt),
            Kind::Combo,
            T_DIST,
            lk((0, 0), vec![Subtable::Single1 { cov: vec![A, B], fmt, value: val(20) }]),
            T_MARK,
            mb(),
        ));
    }
    // advance adjustments do not move an attached mark relative to its base
    v.push(two("pair(kern)+markbase", Kind::Combo, T_KERN, lk((IGNORE_MARKS, 0), vec![pair1(0x4, 0)]), T_MARK, mb()));
    v.push(two(
        "single(mark advance)+markbase",
        Kind::Combo,
        T_DIST,
        lk((0, 0), vec![Subtable::Single1 { cov: vec![M1, M2], fmt: 0x4, value: val(21) }]),
        T_MARK,
        mb(),
    ));
    // marks follow a cursively attached base
    for rtl in [0u16, RIGHT_TO_LEFT] {
        v.push(two(&format!("markbase+cursive rtl={}", rtl), Kind::Combo, T_MARK, mb(), T_CURS, lk((IGNORE_MARKS | rtl, 0), vec![cursive(0x3F)])));
    }
    // mark chain: m -> base, m -> m
    v.push(two("markbase+markmark", Kind::Combo, T_MARK, mb(), T_MKMK, lk((0, 0), vec![markmark(vec![M1, M2], vec![M1, M2], CLASS_CFG[1], 0, 0)])));
    // adjustments of two features add up
    v.push(two(
        "single(dist adv)+pair(kern)",
        Kind::Combo,
        T_DIST,
        lk((0, 0), vec![Subtable::Single1 { cov: vec![A, B, L], fmt: 0x4, value: val(22) }]),
        T_KERN,
        lk((0, 0), vec![pair2(0x4, 0x4)]),
    ));
    // two lookups of one feature are applied in lookup order, each over the whole run
    v.push(two("single+single one feature", Kind::Combo, T_KERN, lk((0, 0), vec![single1(0x7, 0)]), T_KERN, lk((IGNORE_MARKS, 0), vec![single2(0x5)])));

    // ---- extreme values: sums leave the i16 range
    for big in [32767i16, -32768] {
        let s = |fmt: u16| lk((0, 0), vec![Subtable::Single1 { cov: vec![A, M1], fmt, value: Value::new([big, big, big, 0]) }]);
        v.push(two(&format!("overflow advance {} twice", big), Kind::Overflow, T_KERN, s(0x4), T_KERN, s(0x4)));
        v.push(two(&format!("overflow placement {} twice", big), Kind::Overflow, T_KERN, s(0x3), T_KERN, s(0x3)));
        v.push(two(
            &format!("overflow pair {} both records", big),
            Kind::Overflow,
            T_KERN,
            lk((0, 0), vec![Subtable::Pair1 { cov: vec![A], fmt1: 0x4, fmt2: 0x4, sets: vec![vec![(A, Value::new([0, 0, big, 0]), Value::new([0, 0, big, 0]))]] }]),
            T_KERN,
            s(0x4),
        ));
        v.push(two(&format!("overflow markbase then placement {} on the mark", big), Kind::Overflow, T_MARK, mb(), T_MARK, s(0x3)));
    }
}

/// value formats of the adjusting record: xPlacement only, yPlacement only, both placements, xAdvance only, mixed
const VF_ADJ: [u16; 5] = [0x1, 0x2, 0x3, 0x4, 0x7];

/// An attached mark that is also adjusted by a value record.
///
/// (MarkBasePos | MarkLigPos | MarkMarkPos) x (SinglePos 1/2 on the mark | PairPos 1/2 whose first / second glyph is the
/// mark | Context / ChainContext rule with a nested SinglePos on the mark) x VF_ADJ x both lookup orders x (two
/// lookups of one feature | two features). The lookup that comes first in the LookupList is always the one that is
/// applied first (the lookups of two features are listed in the order in which the features are applied), so that
/// "lookup-list order" and "feature by feature" give the same sequence.
fn markadjust_programs(v: &mut Vec<Prog>) {
    let bases = vec![A, B, L];
    let marks = vec![M1, M2];
    // (name, feature, lookup, enumerate ligature components)
    let attaches: Vec<(&str, u32, Lookup, bool)> = vec![
        ("markbase", T_MARK, lk((0, 0), vec![markbase(marks.clone(), CLASS_CFG[1], 0, 0)]), false),
        ("marklig", T_MARK, lk((0, 0), vec![marklig(CLASS_CFG[1], 0, 1)]), true),
        ("markmark", T_MKMK, lk((0, 0), vec![markmark(marks.clone(), marks.clone(), CLASS_CFG[2], 0, 2)]), false),
    ];
    // adjusting lookup (and the lookup it nests, which is placed at index 2 of the LookupList)
    let nested = |vf: u16| lk((0, 0), vec![Subtable::Single1 { cov: vec![M1, M2], fmt: vf, value: val(60) }]);
    let adjusters = |vf: u16| -> Vec<(String, Lookup, Option<Lookup>)> {
        let mut a: Vec<(String, Lookup, Option<Lookup>)> = Vec::new();
        for f in [(0u16, 0u16), (MFS0, 0), (0x0200, 0)] {
            a.push((format!("single1(marks) {}", flag_name(f)), lk(f, vec![Subtable::Single1 { cov: marks.clone(), fmt: vf, value: val(50) }]), None));
        }
        a.push(("single2(a,marks)".into(), lk((0, 0), vec![Subtable::Single2 { cov: vec![A, M1, M2], fmt: vf, values: (51..54).map(val).collect() }]), None));
        // second glyph of the pair = the mark (value record 2)
        let second = |k: usize| vec![(M1, val(k), val(k + 1)), (M2, val(k + 2), val(k + 3))];
        a.push((
            "pair1(base,mark) value2".into(),
            lk((0, 0), vec![Subtable::Pair1 { cov: bases.clone(), fmt1: 0x4, fmt2: vf, sets: vec![second(54), second(58), second(62)] }]),
            None,
        ));
        // first glyph of the pair = the mark (value record 1); the second glyph is not consumed
        a.push((
            "pair1(mark,any) value1".into(),
            lk(
                (0, 0),
                vec![Subtable::Pair1 {
                    cov: marks.clone(),
                    fmt1: vf,
                    fmt2: 0,
                    sets: vec![
                        vec![(A, val(66), val(0)), (B, val(67), val(0)), (M1, val(68), val(0)), (M2, val(69), val(0))],
                        vec![(A, val(70), val(0)), (L, val(71), val(0)), (M1, val(72), val(0))],
                    ],
                }],
            ),
            None,
        ));
        // class pairs: the mark is first glyph of one pair or second glyph of another
        a.push((
            "pair2(classes) value1+value2".into(),
            lk(
                (0, 0),
                vec![Subtable::Pair2 {
                    cov: vec![A, L, M1, M2],
                    fmt1: vf,
                    fmt2: vf,
                    class1: vec![(A, 1), (M1, 2), (M2, 2)],
                    class2: vec![(M1, 1), (M2, 2)],
                    matrix: (0..3).map(|r| (0..3).map(|c| (val(73 + 2 * (r * 3 + c)), val(74 + 2 * (r * 3 + c)))).collect()).collect(),
                }],
            ),
            None,
        ));
        a.push((
            "context3 [{a,b,L}{marks}]->single at 1".into(),
            lk((0, 0), vec![Subtable::Context3 { covs: vec![bases.clone(), marks.clone()], records: vec![(1, 2)] }]),
            Some(nested(vf)),
        ));
        a.push((
            "context1 [m1 m2]->single at 0,1".into(),
            lk((0, 0), vec![Subtable::Context1 { cov: vec![M1], sets: vec![Some(vec![Rule { input: vec![M2], records: vec![(0, 2), (1, 2)] }])] }]),
            Some(nested(vf)),
        ));
        a.push((
            "chain3 {a,b,L,m1}|{marks}| ->single at 0".into(),
            lk((0, 0), vec![Subtable::Chain3 { back: vec![vec![A, B, L, M1]], input: vec![marks.clone()], ahead: vec![], records: vec![(0, 2)] }]),
            Some(nested(vf)),
        ));
        a
    };
    let build = |name: String, features: Vec<(u32, Vec<u16>)>, lookups: Vec<Lookup>, comps: bool| -> Prog {
        let mut p = prog(name, Kind::MarkAdjust, features[0].0, lookups);
        p.feats = features.iter().map(|f| f.0).collect();
        p.gpos.features = features;
        p.comps = comps;
        p
    };
    for (an, af, al, comps) in &attaches {
        for vf in VF_ADJ {
            for (jn, jl, nest) in adjusters(vf) {
                for attach_first in [true, false] {
                    for one_feature in [true, false] {
                        let (mut lookups, order) = if attach_first { (vec![al.clone(), jl.clone()], "attach,adjust") } else { (vec![jl.clone(), al.clone()], "adjust,attach") };
                        lookups.extend(nest.clone());
                        let features = match (one_feature, attach_first) {
                            (true, _) => vec![(*af, vec![0, 1])],
                            (false, true) => vec![(*af, vec![0]), (T_LATE, vec![1])],
                            (false, false) => vec![(T_DIST, vec![0]), (*af, vec![1])],
                        };
                        let name = format!("markadjust {} + {} vf={:#x} order={} {}", an, jn, vf, order, if one_feature { "one-feature" } else { "two-features" });
                        v.push(build(name, features, lookups, *comps));
                    }
                }
            }
        }
    }
    let mb = || lk((0, 0), vec![markbase(marks.clone(), CLASS_CFG[1], 0, 0)]);
    let mm = || lk((0, 0), vec![markmark(marks.clone(), marks.clone(), CLASS_CFG[2], 0, 2)]);
    let s1 = |vf: u16| lk((0, 0), vec![Subtable::Single1 { cov: marks.clone(), fmt: vf, value: val(50) }]);
    for vf in VF_ADJ {
        // attachment and adjustment by the records of one contextual rule, in both record orders
        for (order, records) in [("attach,adjust", vec![(1u16, 1u16), (1, 2)]), ("adjust,attach", vec![(1, 2), (1, 1)])] {
            let ctx = lk((0, 0), vec![Subtable::Context3 { covs: vec![vec![A, B], marks.clone()], records }]);
            v.push(build(format!("markadjust one rule: context3 [{{a,b}}{{marks}}]->markbase,single at 1 vf={:#x} order={}", vf, order), vec![(T_MARK, vec![0])], vec![ctx, mb(), s1(vf)], false));
        }
        // a mark is attached to its base, adjusted, and attached again to the preceding mark; and adjusted after both
        v.push(build(format!("markadjust markbase,single,markmark vf={:#x}", vf), vec![(T_MARK, vec![0, 1]), (T_MKMK, vec![2])], vec![mb(), s1(vf), mm()], false));
        v.push(build(format!("markadjust markbase,markmark,single vf={:#x}", vf), vec![(T_MARK, vec![0]), (T_MKMK, vec![1, 2])], vec![mb(), mm(), s1(vf)], false));
        // adjusted before and after the attachment
        v.push(build(format!("markadjust single,markbase,single2 vf={:#x}", vf), vec![(T_MARK, vec![0, 1, 2])], vec![s1(vf), mb(), lk((0, 0), vec![Subtable::Single2 { cov: marks.clone(), fmt: vf ^ 0x3, values: vec![val(52), val(53)] }])], false));
    }
    // placement carried by VariationIndex tables (x variation tuples)
    for fmt in [0x33u16, 0x11, 0x77, 0x30] {
        for attach_first in [true, false] {
            let adj = lk((0, 0), vec![Subtable::Single1 { cov: marks.clone(), fmt, value: with_devs(val(50), 0) }]);
            let (lookups, order) = if attach_first { (vec![mb(), adj], "attach,adjust") } else { (vec![adj, mb()], "adjust,attach") };
            let mut p = build(format!("markadjust markbase + single1(marks) devices vf={:#x} order={}", fmt, order), vec![(T_MARK, vec![0, 1])], lookups, false);
            p.gdef.store = Some(store());
            p.tuples = true;
            p.maxlen = (3, 4);
            v.push(p);
        }
    }
}

/// A glyph of a cursive chain that is also adjusted by a value record.
///
/// CursivePos in `curs` (IgnoreMarks, with / without RIGHT_TO_LEFT; every glyph of {a,b,L} has both anchors, or a -> b -> L
/// only) x (SinglePos 1 on {a} | SinglePos 1 on {a,b,L} | SinglePos 2 on {a,b,L} | PairPos 1 value record 1 | PairPos 1
/// value record 2 | PairPos 2 both records) x VF_ADJ x (cursive then adjust | adjust then cursive). The strings put the
/// adjusted glyph at the first, a middle and the last position of chains of 2, 3 and 4 glyphs (with skipped marks in
/// between). As in `markadjust_programs` the LookupList order is the order of application.
fn cursiveadjust_programs(v: &mut Vec<Prog>) {
    let chain = vec![A, B, L];
    let im = (IGNORE_MARKS, 0u16);
    let adjusters = |vf: u16| -> Vec<(&'static str, Lookup)> {
        let row1 = |k: usize| vec![(A, val(k), val(0)), (B, val(k + 1), val(0)), (L, val(k + 2), val(0))];
        let row2 = |k: usize| vec![(A, val(0), val(k)), (B, val(0), val(k + 1)), (L, val(0), val(k + 2))];
        vec![
            ("single1{a}", lk((0, 0), vec![Subtable::Single1 { cov: vec![A], fmt: vf, value: val(90) }])),
            ("single1{a,b,L}", lk((0, 0), vec![Subtable::Single1 { cov: chain.clone(), fmt: vf, value: val(91) }])),
            ("single2{a,b,L}", lk((0, 0), vec![Subtable::Single2 { cov: chain.clone(), fmt: vf, values: (92..95).map(val).collect() }])),
            ("pair1 value1", lk(im, vec![Subtable::Pair1 { cov: chain.clone(), fmt1: vf, fmt2: 0, sets: vec![row1(95), row1(98), row1(101)] }])),
            ("pair1 value2", lk(im, vec![Subtable::Pair1 { cov: chain.clone(), fmt1: 0, fmt2: vf, sets: vec![row2(104), row2(107), row2(110)] }])),
            (
                "pair2 value1+value2",
                lk(
                    im,
                    vec![Subtable::Pair2 {
                        cov: chain.clone(),
                        fmt1: vf,
                        fmt2: vf,
                        class1: vec![(A, 1), (B, 2)],
                        class2: vec![(A, 1), (L, 2)],
                        matrix: (0..3).map(|r| (0..3).map(|c| (val(113 + 2 * (r * 3 + c)), val(114 + 2 * (r * 3 + c)))).collect()).collect(),
                    }],
                ),
            ),
        ]
    };
    let build = |name: String, features: Vec<(u32, Vec<u16>)>, lookups: Vec<Lookup>| -> Prog {
        let mut p = prog(name, Kind::CursiveAdjust, features[0].0, lookups);
        p.feats = features.iter().map(|f| f.0).collect();
        p.gpos.features = features;
        p
    };
    // a -> b -> L only: a has no entry anchor, L has no exit anchor
    const MASK_ABL: usize = 0x1E;
    for rtl in [0u16, RIGHT_TO_LEFT] {
        for vf in VF_ADJ {
            for (ji, (jn, jl)) in adjusters(vf).into_iter().enumerate() {
                for cursive_first in [true, false] {
                    for (mask, one_feature) in [(0x3Fusize, false), (0x3F, true), (MASK_ABL, false)] {
                        // reduced menus: one feature only for the formats with both placements, the partial chain only for
                        // SinglePos 2 and PairPos value record 1
                        if one_feature && !(vf == 0x3 || vf == 0x7) {
                            continue;
                        }
                        if mask == MASK_ABL && !(ji == 2 || ji == 3) {
                            continue;
                        }
                        let cl = lk((IGNORE_MARKS | rtl, 0), vec![cursive(mask)]);
                        let (lookups, order) = if cursive_first { (vec![cl, jl.clone()], "cursive,adjust") } else { (vec![jl.clone(), cl], "adjust,cursive") };
                        let features = match (one_feature, cursive_first) {
                            (true, _) => vec![(T_CURS, vec![0, 1])],
                            (false, true) => vec![(T_CURS, vec![0]), (T_LATE, vec![1])],
                            (false, false) => vec![(T_DIST, vec![0]), (T_CURS, vec![1])],
                        };
                        let name = format!(
                            "cursiveadjust cursive(mask={:#04x} rtl={}) + {} vf={:#x} order={} {}",
                            mask, rtl, jn, vf, order, if one_feature { "one-feature" } else { "two-features" }
                        );
                        v.push(build(name, features, lookups));
                    }
                }
            }
            // adjusted before and after the cursive lookup
            let s = |k: usize, fmt: u16| lk((0, 0), vec![Subtable::Single2 { cov: chain.clone(), fmt, values: (k..k + 3).map(val).collect() }]);
            v.push(build(
                format!("cursiveadjust single2,cursive(rtl={}),single2 vf={:#x}", rtl, vf),
                vec![(T_DIST, vec![0]), (T_CURS, vec![1]), (T_LATE, vec![2])],
                vec![s(92, vf), lk((IGNORE_MARKS | rtl, 0), vec![cursive(0x3F)]), s(131, vf ^ 0x3)],
            ));
        }
    }
}

/// (valueFormat1, valueFormat2) of the 'pairskip' programs: second record absent (the second glyph starts the next pair)
/// and present (the next pair starts at the next glyph the lookup flags select)
const VF_PAIRSKIP: [(u16, u16); 6] = [(0x4, 0), (0x1, 0), (0x4, 0x4), (0, 0x4), (0x5, 0x1), (0x4, 0x3)];

/// Where does the next pair start? PairPos 1 / 2 whose coverage and pair sets / class matrix contain EVERY glyph of the
/// alphabet as first and as second glyph (so a glyph that the lookup flags exclude would be adjusted if the walk ever
/// made it a pair member) x the 8 lookup flag settings x VF_PAIRSKIP. Run on all strings up to length 4 (quick) / 5
/// (thorough): ignored glyphs before, between and after the members of one or two pairs.
fn pairskip_programs(v: &mut Vec<Prog>) {
    let all = vec![A, B, L, M1, M2];
    for (fmt1, fmt2) in VF_PAIRSKIP {
        let sets: Vec<Vec<(G, Value, Value)>> = (0..5).map(|r| (0..5).map(|c| (all[c], val(140 + 2 * (5 * r + c)), val(141 + 2 * (5 * r + c)))).collect()).collect();
        let p1 = Subtable::Pair1 { cov: all.clone(), fmt1, fmt2, sets };
        let p2 = Subtable::Pair2 {
            cov: all.clone(),
            fmt1,
            fmt2,
            class1: vec![(A, 1), (L, 2), (M1, 3)],
            class2: vec![(B, 1), (L, 2), (M2, 3)],
            matrix: (0..4).map(|r| (0..4).map(|c| (val(190 + 2 * (4 * r + c)), val(191 + 2 * (4 * r + c)))).collect()).collect(),
        };
        for f in FLAGS8 {
            for (n, s) in [("pair1", &p1), ("pair2", &p2)] {
                let mut p = prog(format!("pairskip {} all-glyphs-covered vf1={:#x} vf2={:#x} {}", n, fmt1, fmt2, flag_name(f)), Kind::PairSkip, T_KERN, vec![lk(f, vec![s.clone()])]);
                p.maxlen = (4, 5);
                v.push(p);
            }
        }
    }
}

// ---------------------------------------------------------------------------------------------------
// strings
// ---------------------------------------------------------------------------------------------------

fn strings(maxlen: usize) -> Vec<Vec<G>> {
    let mut out: Vec<Vec<G>> = vec![vec![]];
    let mut level: Vec<Vec<G>> = vec![vec![]];
    for _ in 0..maxlen {
        let mut next = Vec::new();
        for s in &level {
            for g in ALPHABET {
                let mut t = s.clone();
                t.push(g);
                next.push(t);
            }
        }
        out.extend(next.iter().cloned());
        level = next;
    }
    out
}

/// ligature component assignments for the marks that directly follow an L: all 0 / all 1 / first 0 then 1
fn comp_variants(s: &[G], gdef: &Gdef, enumerate: bool) -> Vec<Vec<u16>> {
    let base = vec![0u16; s.len()];
    if !enumerate {
        return vec![base];
    }
    let mut after_l: Vec<usize> = Vec::new();
    let mut in_l = false;
    for (i, &g) in s.iter().enumerate() {
        if gdef.is_mark(g) {
            if in_l {
                after_l.push(i);
            }
        } else {
            in_l = g == L;
        }
    }
    if after_l.is_empty() {
        return vec![base];
    }
    let mut v = vec![base.clone()];
    let mut all1 = base.clone();
    for &i in &after_l {
        all1[i] = 1;
    }
    v.push(all1.clone());
    // first mark of every group keeps component 0, the others get 1
    let mut mixed = all1;
    let mut prev: Option<usize> = None;
    for &i in &after_l {
        if prev != Some(i.wrapping_sub(1)) {
            mixed[i] = 0;
        }
        prev = Some(i);
    }
    if !v.contains(&mixed) {
        v.push(mixed);
    }
    v
}

fn glyph_char(g: G) -> char {
    match g {
        1 => 'a',
        2 => 'b',
        3 => 'c',
        4 => 'L',
        5 => '1',
        6 => '2',
        7 => 'x',
        _ => '?',
    }
}

fn text_of(s: &[G]) -> String {
    s.iter().map(|g| glyph_char(*g)).collect()
}

const CMAP: [(u32, u16); 7] = [('a' as u32, 1), ('b' as u32, 2), ('c' as u32, 3), ('L' as u32, 4), ('1' as u32, 5), ('2' as u32, 6), ('x' as u32, 7)];

fn font_adv(g: G, zero_marks: bool) -> i32 {
    if zero_marks && (g == M1 || g == M2) {
        0
    } else {
        500 + 10 * g as i32
    }
}

fn hmtx_table(zero_marks: bool) -> Vec<u8> {
    let m: Vec<(u16, i16)> = (0..8).map(|g| (font_adv(g, zero_marks) as u16, 0)).collect();
    otmodel::tables::hmtx(&m, &[])
}

fn make_font(zero_marks: bool, tables: &[(u32, Vec<u8>)]) -> Vec<u8> {
    let mut extra: Vec<(u32, Vec<u8>)> = vec![(tag(b"hmtx"), hmtx_table(zero_marks))];
    extra.extend(tables.iter().cloned());
    otmodel::tables::minimal_font(8, &CMAP, &extra)
}

fn raw_glyph(g: G, comp: u16) -> RawGlyph<()> {
    RawGlyph {
        unicodes: Default::default(),
        glyph_index: g,
        liga_component_pos: comp,
        glyph_origin: GlyphOrigin::Direct,
        flags: RawGlyphFlags::empty(),
        variation: None,
        extra_data: (),
    }
}

/// key of a panic site that does not depend on where the tree under test lives
fn panic_key(p: &PanicInfo) -> String {
    let root = p.file.find("/src/").map(|i| p.file[..i].to_string()).unwrap_or_else(|| crate::util::REPO.to_string());
    format!("C05:panic:{}", p.site_key(&root))
}

// ---------------------------------------------------------------------------------------------------
// observation helpers
// ---------------------------------------------------------------------------------------------------

fn abstract_infos(infos: &[Info]) -> Vec<PosOut> {
    infos
        .iter()
        .map(|i| {
            let mut o = PosOut { x_adv: i.kerning as i32, ..Default::default() };
            match i.placement {
                Placement::None => {}
                Placement::Distance(x, y) => {
                    o.x_pla = x;
                    o.y_pla = y;
                }
                Placement::MarkAnchor(b, ba, ma) => {
                    o.attach = Attach::Mark { base: b, base_anchor: (ba.x as i32, ba.y as i32), mark_anchor: (ma.x as i32, ma.y as i32) }
                }
                Placement::MarkOverprint(b) => o.attach = Attach::Mark { base: b, base_anchor: (0, 0), mark_anchor: (0, 0) },
                // gpos.rs stores on the first glyph: (index of the second glyph, RIGHT_TO_LEFT flag,
                // entry anchor of the second glyph, exit anchor of the first glyph)
                Placement::CursiveAnchor(next, rtl, entry2, exit1) => {
                    o.attach = Attach::Cursive { next, rtl_flag: rtl, exit: (exit1.x as i32, exit1.y as i32), entry: (entry2.x as i32, entry2.y as i32) }
                }
            }
            o
        })
        .collect()
}

/// what stage A compares: yAdvance is not observable in horizontal layout; a placement on an attached
/// mark is folded into the base anchor (that is how Info represents it)
fn normalize(outs: &[PosOut]) -> Vec<PosOut> {
    outs.iter()
        .map(|o| {
            let mut o = *o;
            o.y_adv = 0;
            if let Attach::Mark { base, base_anchor, mark_anchor } = o.attach {
                o.attach = Attach::Mark { base, base_anchor: (base_anchor.0 + o.x_pla, base_anchor.1 + o.y_pla), mark_anchor };
                o.x_pla = 0;
                o.y_pla = 0;
            }
            o
        })
        .collect()
}

fn outs_json(o: &[PosOut]) -> J {
    J::Array(
        o.iter()
            .map(|p| {
                let att = match p.attach {
                    Attach::None => json!(null),
                    Attach::Mark { base, base_anchor, mark_anchor } => json!({"mark_to": base, "base_anchor": [base_anchor.0, base_anchor.1], "mark_anchor": [mark_anchor.0, mark_anchor.1]}),
                    Attach::Cursive { next, rtl_flag, exit, entry } => json!({"cursive_next": next, "rtl_flag": rtl_flag, "exit": [exit.0, exit.1], "entry_of_next": [entry.0, entry.1]}),
                };
                json!({"x_adv": p.x_adv, "pla": [p.x_pla, p.y_pla], "attach": att})
            })
            .collect(),
    )
}

#[derive(Default)]
struct Acc {
    /// key -> (cases, first witness)
    viol: BTreeMap<String, (u64, J)>,
    sample: Option<(u64, J)>,
    evals: u64,
    states: u64,
    transitions: u64,
    nontrivial: u64,
    /// cases whose Info values equal the reference under the second accepted reading (Interp::attach_overrides_placement)
    alt_accepted: u64,
    /// layouts (per direction and hmtx variant) that equal the reference under the second reading of "cursively attached
    /// glyph with a placement of its own" and not under the first
    layout_second_reading: u64,
    kind: &'static str,
}

impl Acc {
    fn report(&mut self, key: &str, mk: impl FnOnce() -> J) {
        let key: String = key.chars().map(|c| if c.is_whitespace() { '_' } else { c }).collect();
        let key = key.as_str();
        match self.viol.get_mut(key) {
            Some(e) => e.0 += 1,
            None => {
                self.viol.insert(key.to_string(), (1, mk()));
            }
        }
    }
    fn merge_into(self, ctx: &Ctx) {
        for (k, (n, w)) in self.viol {
            ctx.violation(&k, || w);
            ctx.bump(&format!("cases[{}]", k), n);
        }
        if let Some((h, s)) = self.sample {
            ctx.sample(h, || s);
        }
        ctx.evals(self.evals);
        if self.alt_accepted > 0 {
            ctx.bump("cases_matching_reading[mark-attachment-discards-earlier-placement]", self.alt_accepted);
        }
        if self.layout_second_reading > 0 {
            ctx.bump("layouts_matching_reading[placement-moves-the-cursively-attached-glyph]", self.layout_second_reading);
        }
        if !self.kind.is_empty() {
            ctx.bump(&format!("nontrivial_reference_cases[{}]", self.kind), self.nontrivial);
            ctx.bump(&format!("cases_compared[{}]", self.kind), self.evals);
        }
        ctx.add_states(self.states);
        ctx.add_transitions(self.transitions);
    }
}

fn tuple_coords(t: Option<i16>) -> Option<[i16; 1]> {
    t.map(|v| [v])
}

fn apply_features_real(
    cache: &allsorts::layout::LayoutCache<GPOS>,
    gdef: Option<&GDEFTable>,
    kern: Option<KernTable<'_>>,
    feats: &[u32],
    tuple: Option<i16>,
    run: &[GlyphIn],
) -> Result<Result<Vec<Info>, String>, PanicInfo> {
    guard(|| {
        let glyphs: Vec<RawGlyph<()>> = run.iter().map(|g| raw_glyph(g.gid, g.lig_comp)).collect();
        let mut infos = Info::init_from_glyphs(gdef, glyphs);
        let script = match cache.layout_table.find_script_or_default(T_LATN) {
            Ok(Some(s)) => s,
            other => return Err(format!("find_script_or_default: {:?}", other.map(|o| o.is_some()))),
        };
        let langsys = match script.find_langsys_or_default(None) {
            Ok(Some(l)) => l,
            other => return Err(format!("find_langsys_or_default: {:?}", other.map(|o| o.is_some()))),
        };
        let arr = [F2Dot14::from_raw(tuple.unwrap_or(0))];
        // SAFETY: `arr` outlives the call; one axis, value within [-1, 1]
        let t = tuple.map(|_| unsafe { Tuple::from_raw_parts(arr.as_ptr(), 1) });
        let res = gpos::apply_features(
            cache,
            &cache.layout_table,
            gdef,
            kern,
            langsys,
            feats.iter().map(|&feature_tag| FeatureInfo { feature_tag, alternate: None }),
            t,
            &mut infos,
        );
        match res {
            Ok(()) => Ok(infos),
            Err(e) => Err(format!("apply_features: {:?}", e)),
        }
    })
}

fn tdir(d: Dir) -> TextDirection {
    match d {
        Dir::Ltr => TextDirection::LeftToRight,
        Dir::Rtl => TextDirection::RightToLeft,
    }
}

type FontT<'b> = allsorts::Font<allsorts::font_data::DynamicFontTableProvider<'b>>;

/// stage B for one laid-out run
fn check_layout(
    acc: &mut Acc,
    font: &mut FontT<'_>,
    zero_marks: bool,
    infos: &[Info],
    gids: &[G],
    kind: &str,
    witness: &dyn Fn() -> J,
) -> u64 {
    let obs = abstract_infos(infos);
    let advs: Vec<i32> = gids.iter().map(|&g| font_adv(g, zero_marks)).collect();
    let mut h = H::new();
    for d in [Dir::Ltr, Dir::Rtl] {
        let open = unconstrained(&obs);
        let mask = |v: Vec<(i32, i32)>| -> Vec<(i32, i32)> { v.into_iter().zip(open.iter()).map(|(p, o)| if *o { (0, 0) } else { p }).collect() };
        let want = mask(pen_positions(&advs, &obs, d));
        let chk = mask(pen_positions_sw(&advs, &obs, d, LSw::default()));
        assert_eq!(want, chk, "machinery: the two forms of the reference layout disagree: {:?} {:?}", obs, d);
        // A cursively attached glyph that also carries a placement: Info does not say which came first, both readings
        // (anchors coincide | the placement moves the glyph off the aligned position) are legitimate
        let two_readings = cursive_child_with_placement(&obs);
        let want2 = if two_readings {
            let w2 = mask(pen_positions_reading(&advs, &obs, d, true));
            let c2 = mask(pen_positions_sw_reading(&advs, &obs, d, LSw::default(), true));
            assert_eq!(w2, c2, "machinery: the two forms of the reference layout (second reading) disagree: {:?} {:?}", obs, d);
            Some(w2)
        } else {
            None
        };
        let got = guard(|| GlyphLayout::new(font, infos, tdir(d), false).glyph_positions());
        let pos = match got {
            Err(p) => {
                acc.report(&panic_key(&p), || json!({"case": witness(), "direction": format!("{:?}", d), "panic": p.msg, "at": p.loc()}));
                continue;
            }
            Ok(Err(e)) => {
                acc.report("C05:mismatch:glyph-positions-error", || json!({"case": witness(), "direction": format!("{:?}", d), "error": format!("{:?}", e)}));
                continue;
            }
            Ok(Ok(p)) => p,
        };
        let hadv: Vec<i32> = pos.iter().map(|p| p.hori_advance).collect();
        let xoff: Vec<i32> = pos.iter().map(|p| p.x_offset).collect();
        let yoff: Vec<i32> = pos.iter().map(|p| p.y_offset + 0 * p.vert_advance).collect();
        let abs = mask(absolute_from_advances(&hadv, &xoff, &yoff, d));
        for a in &abs {
            h = h.u64(a.0 as u32 as u64).u64(a.1 as u32 as u64);
        }
        if (abs == want || want2.as_ref() == Some(&abs)) && pos.iter().all(|p| p.vert_advance == 0) {
            if abs != want {
                acc.layout_second_reading += 1;
            }
            continue;
        }
        let mut hit: Option<Vec<usize>> = None;
        for s in subsets(&[2, 3], 2) {
            let sw = s.iter().fold(LSw::default(), |a, &i| a.with(i));
            if mask(pen_positions_sw(&advs, &obs, d, sw)) == abs || (two_readings && mask(pen_positions_sw_reading(&advs, &obs, d, sw, true)) == abs) {
                hit = Some(s);
                break;
            }
        }
        let detail = |acc_keys: &[String]| {
            json!({"case": witness(), "direction": format!("{:?}", d), "marks_have_zero_advance": zero_marks,
                   "font_advances": advs, "info": outs_json(&obs),
                   "glyph_positions": pos.iter().map(|p| json!([p.hori_advance, p.x_offset, p.y_offset])).collect::<Vec<_>>(),
                   "observed_origins": abs, "expected_origins": want, "expected_origins_if_the_placement_moves_the_attached_glyph": want2, "explained_by": acc_keys})
        };
        match hit {
            Some(s) => {
                let keys: Vec<String> = s.iter().map(|&i| format!("C05:{}", LSW_NAMES[i])).collect();
                for k in &keys {
                    acc.report(k, || detail(&keys));
                }
            }
            None => acc.report(&format!("C05:mismatch:positions-{}", kind), || detail(&[])),
        }
    }
    h.get()
}

/// features in the order Font::shape applies them for a Default-script run with kerning enabled
fn shape_order(feats: &[u32]) -> (Vec<u32>, Vec<u32>) {
    let base = [T_DIST, T_KERN, T_MARK, T_MKMK];
    let mut order: Vec<u32> = base.iter().copied().filter(|t| feats.contains(t)).collect();
    let custom: Vec<u32> = feats.iter().copied().filter(|t| !base.contains(t)).collect();
    order.extend(custom.iter().copied());
    (order, custom)
}

fn shape_real(
    font: &mut FontT<'_>,
    text: &str,
    custom: &[u32],
    tuple: Option<i16>,
    kerning: bool,
) -> Result<Result<Vec<Info>, (String, Vec<Info>)>, PanicInfo> {
    guard(|| {
        let glyphs = font.map_glyphs(text, T_LATN, allsorts::font::MatchingPresentation::NotRequired);
        let arr = [F2Dot14::from_raw(tuple.unwrap_or(0))];
        // SAFETY: as above
        let t = tuple.map(|_| unsafe { Tuple::from_raw_parts(arr.as_ptr(), 1) });
        let feats = Features::Custom(custom.iter().map(|&feature_tag| FeatureInfo { feature_tag, alternate: None }).collect());
        font.shape(glyphs, T_LATN, None, &feats, t, kerning).map_err(|(e, i)| (format!("{:?}", e), i))
    })
}

// ---------------------------------------------------------------------------------------------------
// GPOS programs: one case = (program, encoding, glyph string, component assignment, tuple)
// ---------------------------------------------------------------------------------------------------

fn hash_outs(mut h: H, o: &[PosOut]) -> H {
    for p in o {
        h = h.u64(p.x_adv as u32 as u64).u64(p.x_pla as u32 as u64).u64(p.y_pla as u32 as u64);
        h = match p.attach {
            Attach::None => h.u8(0),
            Attach::Mark { base, base_anchor, mark_anchor } => h
                .u8(1)
                .u64(base as u64)
                .u64(base_anchor.0 as u32 as u64)
                .u64(base_anchor.1 as u32 as u64)
                .u64(mark_anchor.0 as u32 as u64)
                .u64(mark_anchor.1 as u32 as u64),
            Attach::Cursive { next, rtl_flag, exit, entry } => h
                .u8(2)
                .u64(next as u64)
                .u8(rtl_flag as u8)
                .u64(exit.0 as u32 as u64)
                .u64(exit.1 as u32 as u64)
                .u64(entry.0 as u32 as u64)
                .u64(entry.1 as u32 as u64),
        };
    }
    h
}

struct Case<'a> {
    p: &'a Prog,
    enc: Enc,
    gpos_bytes: &'a [u8],
    gdef_bytes: &'a [u8],
    gids: &'a [G],
    comps: &'a [u16],
    tuple: Option<i16>,
}

impl<'a> Case<'a> {
    fn witness(&self, seam: &str) -> J {
        json!({
            "program": self.p.name, "seam": seam,
            "encoding": {"coverage_format": self.enc.cov_fmt, "classdef_format": self.enc.class_fmt, "extension": self.enc.ext},
            "features": self.p.feats.iter().map(|t| otmodel::tag_str(*t)).collect::<Vec<_>>(),
            "GPOS": hex(self.gpos_bytes), "GDEF": hex(self.gdef_bytes),
            "input": text_of(self.gids), "glyphs": self.gids, "lig_components": self.comps,
            "tuple_f2dot14": self.tuple,
            "replay": {"kind": "gpos", "program": self.p.name, "enc": [self.enc.cov_fmt, self.enc.class_fmt, self.enc.ext as u8],
                       "glyphs": self.gids, "comps": self.comps, "tuple": self.tuple},
        })
    }
    fn run(&self) -> Vec<GlyphIn> {
        self.gids.iter().zip(self.comps.iter()).map(|(&gid, &lig_comp)| GlyphIn { gid, lig_comp }).collect()
    }
    fn reference(&self, feats: &[u32], sw: Sw) -> Vec<PosOut> {
        self.reference_interp(feats, sw, Interp::default())
    }
    fn reference_interp(&self, feats: &[u32], sw: Sw, interp: Interp) -> Vec<PosOut> {
        let c = tuple_coords(self.tuple);
        normalize(&apply_gpos_interp(&self.p.gpos, &self.p.gdef, feats, c.as_ref().map(|c| &c[..]), &self.run(), sw, interp))
    }
    /// compare observed Info values with the reference; attribute a mismatch
    fn compare_infos(&self, acc: &mut Acc, seam: &str, feats: &[u32], want: &[PosOut], got: &[PosOut], sets: &[Vec<usize>]) {
        if got == want {
            return;
        }
        // The other legitimate reading of "a mark that was moved by a value record is attached afterwards": the attachment
        // defines the offset of the mark and the earlier placement is gone (HarfBuzz). Accepted for the run as a whole.
        let alt = self.reference_interp(feats, Sw::default(), Interp { attach_overrides_placement: true });
        if got == alt {
            acc.alt_accepted += 1;
            return;
        }
        // Sums that the API cannot represent (Info.kerning and anchor coordinates are i16): the property
        // cannot demand a value there; only panic freedom is required (checked by the caller's guard).
        if self.p.kind == Kind::Overflow {
            return;
        }
        let mut hit: Option<&Vec<usize>> = None;
        for s in sets {
            let sw = s.iter().fold(Sw::default(), |a, &i| a.with(i));
            if self.reference(feats, sw) == got {
                hit = Some(s);
                break;
            }
        }
        let detail = |keys: &[String]| {
            let mut w = self.witness(seam);
            w["expected"] = outs_json(want);
            w["observed"] = outs_json(got);
            if alt != want {
                w["expected_if_attachment_discards_earlier_placement"] = outs_json(&alt);
            }
            w["explained_by"] = json!(keys);
            w
        };
        match hit {
            Some(s) => {
                let keys: Vec<String> = s.iter().map(|&i| format!("C05:{}", SW_NAMES[i])).collect();
                for k in &keys {
                    acc.report(k, || detail(&keys));
                }
            }
            None => acc.report(&format!("C05:mismatch:info-{}", self.p.kind.name()), || detail(&[])),
        }
    }
}

struct Fonts<'f, 'a, 'b> {
    nz: &'f mut FontT<'a>,
    z: &'f mut FontT<'b>,
}

/// seam A (+ stage B when `layout`) for one case
fn run_case_apply(
    ctx: Option<&Ctx>,
    acc: &mut Acc,
    case: &Case<'_>,
    cache: &allsorts::layout::LayoutCache<GPOS>,
    gdef: &GDEFTable,
    fonts: &mut Fonts<'_, '_, '_>,
    sets: &[Vec<usize>],
    layout: bool,
    pid: u64,
) {
    let p = case.p;
    let want = case.reference(&p.feats, Sw::default());
    acc.evals += 1;
    let run = case.run();
    match apply_features_real(cache, Some(gdef), None, &p.feats, case.tuple, &run) {
        Err(pi) => acc.report(&panic_key(&pi), || {
            let mut w = case.witness("gpos::apply_features");
            w["panic"] = json!(pi.msg);
            w["at"] = json!(pi.loc());
            w["expected"] = outs_json(&want);
            w
        }),
        Ok(Err(e)) => acc.report("C05:mismatch:apply-features-error", || {
            let mut w = case.witness("gpos::apply_features");
            w["error"] = json!(e);
            w
        }),
        Ok(Ok(infos)) => {
            let got = abstract_infos(&infos);
            case.compare_infos(acc, "gpos::apply_features", &p.feats, &want, &got, sets);
            if layout {
                let wit = || case.witness("gpos::apply_features + GlyphLayout::glyph_positions");
                let mut ph = check_layout(acc, fonts.nz, false, &infos, case.gids, p.kind.name(), &wit);
                if p.zero_marks {
                    ph ^= check_layout(acc, fonts.z, true, &infos, case.gids, p.kind.name(), &wit).rotate_left(1);
                }
                if let Some(ctx) = ctx {
                    let ch = H::new().u64(pid).bytes(&case.gids.iter().map(|g| *g as u8).collect::<Vec<_>>()).bytes(&case.comps.iter().map(|g| *g as u8).collect::<Vec<_>>()).u64(case.tuple.map(|t| t as u16 as u64 + 1).unwrap_or(0));
                    if want.iter().any(|o| !o.is_trivial()) {
                        acc.nontrivial += 1;
                        ctx.mark_nontrivial(ch.u8(0).get());
                        ctx.mark_nontrivial(ch.u8(1).get());
                        if acc.sample.is_none() {
                            let mut w = case.witness("gpos::apply_features");
                            w.as_object_mut().unwrap().remove("replay");
                            w["reference"] = outs_json(&want);
                            w["observed"] = outs_json(&got);
                            acc.sample = Some((ch.get(), w));
                        }
                    }
                    ctx.mark_outcome(hash_outs(H::new().u64(ph), &got).get());
                }
            }
        }
    }
}

/// seam B: Font::shape + GlyphLayout on the wrapped font
fn run_case_shape(acc: &mut Acc, case: &Case<'_>, fonts: &mut Fonts<'_, '_, '_>, sets: &[Vec<usize>]) {
    let p = case.p;
    let (order, custom) = shape_order(&p.feats);
    let want = case.reference(&order, Sw::default());
    acc.evals += 1;
    let text = text_of(case.gids);
    match shape_real(fonts.nz, &text, &custom, case.tuple, true) {
        Err(pi) => acc.report(&panic_key(&pi), || {
            let mut w = case.witness("Font::shape");
            w["panic"] = json!(pi.msg);
            w["at"] = json!(pi.loc());
            w
        }),
        Ok(Err((e, _))) => acc.report("C05:mismatch:shape-error", || {
            let mut w = case.witness("Font::shape");
            w["error"] = json!(e);
            w
        }),
        Ok(Ok(infos)) => {
            let gids: Vec<G> = infos.iter().map(|i| i.glyph.glyph_index).collect();
            if gids != case.gids {
                acc.report("C05:mismatch:shape-changed-glyphs", || {
                    let mut w = case.witness("Font::shape");
                    w["observed_glyphs"] = json!(gids);
                    w
                });
                return;
            }
            let got = abstract_infos(&infos);
            case.compare_infos(acc, "Font::shape", &order, &want, &got, sets);
            let wit = || case.witness("Font::shape + GlyphLayout::glyph_positions");
            check_layout(acc, fonts.nz, false, &infos, case.gids, p.kind.name(), &wit);
        }
    }
}

fn parse_tables(gpos: &[u8], gdef: &[u8]) -> Result<Result<(allsorts::layout::LayoutCache<GPOS>, GDEFTable), String>, PanicInfo> {
    guard(|| {
        let t = ReadScope::new(gpos).read::<LayoutTable<GPOS>>().map_err(|e| format!("GPOS: {:?}", e))?;
        let g = ReadScope::new(gdef).read::<GDEFTable>().map_err(|e| format!("GDEF: {:?}", e))?;
        Ok((new_layout_cache(t), g))
    })
}

fn all_subsets(cands: &[usize], max: usize) -> Vec<Vec<usize>> {
    let n = cands.len();
    let mut out = Vec::new();
    for size in 1..=max.min(n) {
        for mask in 0u32..(1 << n) {
            if mask.count_ones() as usize == size {
                out.push((0..n).filter(|i| mask >> i & 1 == 1).map(|i| cands[i]).collect());
            }
        }
    }
    out
}

fn subsets(cands: &[usize], max: usize) -> Vec<Vec<usize>> {
    all_subsets(cands, max)
}

fn run_prog(ctx: &Ctx, p: &Prog, thorough: bool, all_strings: &[Vec<G>]) -> Acc {
    // quick: strings <= 3 for the large families (value formats, cursive, mark attachment), the design bound for
    // context/combo programs; at most one non-default encoding choice. thorough: the design bounds.
    let maxlen = if thorough {
        p.maxlen.1
    } else if matches!(p.kind, Kind::Context | Kind::Combo | Kind::MarkAdjust | Kind::CursiveAdjust | Kind::PairSkip | Kind::Overflow) {
        p.maxlen.0
    } else {
        p.maxlen.0.min(3)
    };
    let enc_bound = if thorough { 2 } else { 1 };
    let pid = H::new().str(&p.name).get();
    let denc = Enc::default();
    let tables = vec![(tag(b"GPOS"), p.gpos.encode(&denc)), (tag(b"GDEF"), p.gdef.encode(&denc))];
    let font_nz = make_font(false, &tables);
    let font_z = make_font(true, &tables);
    let sets = all_subsets(p.kind.cands(), 3);
    let tuples: &[Option<i16>] = if p.tuples { &TUPLES } else { &TUPLES[..1] };
    let r = with_font(&font_nz, |f_nz| {
        with_font(&font_z, |f_z| {
            let acc = std::cell::RefCell::new(Acc::default());
            let fonts = std::cell::RefCell::new(Fonts { nz: f_nz, z: f_z });
            let stats = mcx::explore(enc_bound, |c| {
                let enc = Enc { cov_fmt: [1u8, 2][c.dev(2)], class_fmt: [2u8, 1][c.dev(2)], ext: c.dev(2) == 1 };
                let is_default = enc == denc;
                let mut acc = acc.borrow_mut();
                let mut fonts = fonts.borrow_mut();
                let gpos_bytes = p.gpos.encode(&enc);
                let gdef_bytes = p.gdef.encode(&enc);
                let empty: [G; 0] = [];
                let case0 = Case { p, enc, gpos_bytes: &gpos_bytes, gdef_bytes: &gdef_bytes, gids: &empty, comps: &[], tuple: None };
                let (cache, gdef) = match parse_tables(&gpos_bytes, &gdef_bytes) {
                    Err(pi) => {
                        acc.report(&panic_key(&pi), || json!({"case": case0.witness("table parsing"), "panic": pi.msg, "at": pi.loc()}));
                        return;
                    }
                    Ok(Err(e)) => {
                        acc.report("C05:mismatch:valid-table-rejected", || json!({"case": case0.witness("table parsing"), "error": e}));
                        return;
                    }
                    Ok(Ok(x)) => x,
                };
                for s in all_strings.iter().filter(|s| s.len() <= maxlen) {
                    for comps in comp_variants(s, &p.gdef, p.comps) {
                        for &tuple in tuples {
                            let case = Case { p, enc, gpos_bytes: &gpos_bytes, gdef_bytes: &gdef_bytes, gids: s, comps: &comps, tuple };
                            run_case_apply(Some(ctx), &mut acc, &case, &cache, &gdef, &mut fonts, &sets, is_default, pid);
                            if is_default && comps.iter().all(|c| *c == 0) {
                                run_case_shape(&mut acc, &case, &mut fonts, &sets);
                            }
                        }
                    }
                }
            });
            let mut acc = acc.into_inner();
            acc.kind = p.kind.name();
            acc.states += stats.states + acc.evals;
            acc.transitions += stats.transitions + acc.evals;
            acc
        })
    });
    match r {
        Ok(Ok(acc)) => acc,
        Ok(Err(e)) | Err(e) => panic!("machinery: cannot load the wrapped font of program {}: {}", p.name, e),
    }
}

// ---------------------------------------------------------------------------------------------------
// ligature formed by GSUB in the same run, marks positioned on its components (Font::shape only)
// ---------------------------------------------------------------------------------------------------

/// a + b -> L with IgnoreMarks: marks between the components belong to component 0, marks that follow
/// the ligature belong to its last component (1)
fn ligate(s: &[G], gdef: &Gdef) -> Vec<GlyphIn> {
    let mut out: Vec<GlyphIn> = s.iter().map(|&gid| GlyphIn { gid, lig_comp: 0 }).collect();
    let mut i = 0;
    while i < out.len() {
        if out[i].gid == A {
            if let Some(j) = (i + 1..out.len()).find(|&k| !gdef.is_mark(out[k].gid)) {
                if out[j].gid == B {
                    out.remove(j);
                    out[i].gid = L;
                    let mut k = j;
                    while k < out.len() && gdef.is_mark(out[k].gid) {
                        out[k].lig_comp = 1;
                        k += 1;
                    }
                }
            }
        }
        i += 1;
    }
    out
}

fn gsub_lig_progs() -> Vec<Prog> {
    let mut progs: Vec<Prog> = Vec::new();
    for (ci, cfg) in CLASS_CFG.iter().enumerate() {
        for null_mask in [0usize, 0x1, 0x2] {
            progs.push(prog(format!("gsub-liga(a b->L)+marklig classes={:?} null={:#x}", cfg, null_mask), Kind::MarkLig, T_MARK, vec![lk((0, 0), vec![marklig(*cfg, null_mask, ci)])]));
        }
    }
    progs
}

struct LigSetup<'a> {
    p: &'a Prog,
    gpos_bytes: Vec<u8>,
    gdef_bytes: Vec<u8>,
    gsub: Vec<u8>,
    font: Vec<u8>,
    sets: Vec<Vec<usize>>,
}

fn lig_setup(p: &Prog) -> LigSetup<'_> {
    let enc = Enc::default();
    let gpos_bytes = p.gpos.encode(&enc);
    let gdef_bytes = p.gdef.encode(&enc);
    let gsub = encode_gsub_ligature(T_LIGA, IGNORE_MARKS, A, &[B], L, &enc);
    let font = make_font(false, &[(tag(b"GPOS"), gpos_bytes.clone()), (tag(b"GDEF"), gdef_bytes.clone()), (tag(b"GSUB"), gsub.clone())]);
    LigSetup { p, gpos_bytes, gdef_bytes, gsub, font, sets: all_subsets(p.kind.cands(), 3) }
}

fn gsub_lig_case(acc: &mut Acc, su: &LigSetup<'_>, f: &mut FontT<'_>, s: &[G]) {
    let p = su.p;
    let run = ligate(s, &p.gdef);
    let gids: Vec<G> = run.iter().map(|g| g.gid).collect();
    let comps: Vec<u16> = run.iter().map(|g| g.lig_comp).collect();
    let case = Case { p, enc: Enc::default(), gpos_bytes: &su.gpos_bytes, gdef_bytes: &su.gdef_bytes, gids: &gids, comps: &comps, tuple: None };
    let wit = |seam: &str| {
        let mut w = case.witness(seam);
        w["GSUB"] = json!(hex(&su.gsub));
        w["text"] = json!(text_of(s));
        w["replay"] = json!({"kind": "gsub-lig", "program": p.name, "glyphs": s});
        w
    };
    acc.evals += 1;
    let want = case.reference(&p.feats, Sw::default());
    match shape_real(f, &text_of(s), &[T_LIGA], None, true) {
        Err(pi) => acc.report(&panic_key(&pi), || json!({"case": wit("Font::shape"), "panic": pi.msg, "at": pi.loc()})),
        Ok(Err((e, _))) => acc.report("C05:mismatch:shape-error", || json!({"case": wit("Font::shape"), "error": e})),
        Ok(Ok(infos)) => {
            let og: Vec<(G, u16)> = infos.iter().map(|i| (i.glyph.glyph_index, i.glyph.liga_component_pos)).collect();
            let eg: Vec<(G, u16)> = run.iter().map(|g| (g.gid, if p.gdef.is_mark(g.gid) { g.lig_comp } else { 0 })).collect();
            let og_cmp: Vec<(G, u16)> = og.iter().map(|&(g, c)| (g, if p.gdef.is_mark(g) { c } else { 0 })).collect();
            if og_cmp != eg {
                acc.report("C05:mismatch:gsub-ligature-run", || json!({"case": wit("Font::shape"), "expected_run": eg, "observed_run": og}));
                return;
            }
            if want.iter().any(|o| !o.is_trivial()) {
                acc.nontrivial += 1;
            }
            let got = abstract_infos(&infos);
            case.compare_infos(acc, "Font::shape (GSUB ligature + GPOS)", &p.feats, &want, &got, &su.sets);
            let w2 = || wit("Font::shape + GlyphLayout::glyph_positions");
            check_layout(acc, f, false, &infos, &gids, "marklig", &w2);
        }
    }
}

fn run_gsub_lig(thorough: bool, all_strings: &[Vec<G>]) -> Vec<Acc> {
    let maxlen = if thorough { 5 } else { 4 };
    let progs = gsub_lig_progs();
    progs
        .par_iter()
        .map(|p| {
            let su = lig_setup(p);
            let mut acc = Acc::default();
            with_font(&su.font, |f| {
                for s in all_strings.iter().filter(|s| s.len() <= maxlen) {
                    gsub_lig_case(&mut acc, &su, f, s);
                }
            })
            .unwrap_or_else(|e| panic!("machinery: cannot load font: {}", e));
            acc.kind = "gsub-ligature+marklig";
            acc.states += acc.evals;
            acc.transitions += acc.evals;
            acc
        })
        .collect()
}

// ---------------------------------------------------------------------------------------------------
// kern table
// ---------------------------------------------------------------------------------------------------

fn kern_catalogue() -> Vec<(String, Vec<KernSub>)> {
    let h = KERN_HORIZONTAL;
    let p8: Vec<(G, G, i16)> = vec![(1, 2, -50), (1, 6, 14), (2, 1, 23), (2, 4, -8), (4, 4, 31), (4, 5, -12), (5, 6, 9), (6, 5, -27)];
    let q: Vec<(G, G, i16)> = vec![(1, 2, 30), (2, 1, -7), (4, 5, 11), (5, 5, 40)];
    let sets: Vec<Vec<(G, G, i16)>> = vec![
        vec![],
        vec![(1, 2, -50)],
        vec![(1, 1, 10), (1, 2, -50)],
        vec![(0, 0, 5), (1, 2, -50), (7, 7, 33)],
        vec![(1, 1, 10), (1, 2, -50), (2, 2, 4), (5, 1, 6), (6, 6, -3)],
        p8.clone(),
    ];
    let f2 = |flags: u8| KernSub {
        flags,
        data: KernData::F2 {
            left_first: 1,
            left: vec![1, 2, 0, 1],
            right_first: 2,
            right: vec![1, 0, 2, 2, 1],
            rows: 3,
            cols: 3,
            values: vec![0, 0, 0, 0, -21, 22, 0, 23, -24],
        },
    };
    // more rows than right-hand glyphs
    let f2tall = |flags: u8| KernSub {
        flags,
        data: KernData::F2 {
            left_first: 1,
            left: vec![1, 2, 3, 4, 5, 0],
            right_first: 1,
            right: vec![1, 2],
            rows: 6,
            cols: 3,
            values: vec![0, 0, 0, 0, 61, 62, 0, 63, 64, 0, 65, 66, 0, 67, 68, 0, 69, 70],
        },
    };
    let mut v: Vec<(String, Vec<KernSub>)> = Vec::new();
    for (i, s) in sets.iter().enumerate() {
        for flags in 0..16u8 {
            v.push((format!("format0 pairs#{} coverage={:#x}", i, flags), vec![KernSub { flags, data: KernData::F0(s.clone()) }]));
        }
    }
    for f1 in 0..16u8 {
        for fl2 in 0..16u8 {
            v.push((
                format!("format0+format0 coverage={:#x},{:#x}", f1, fl2),
                vec![KernSub { flags: f1, data: KernData::F0(p8.clone()) }, KernSub { flags: fl2, data: KernData::F0(q.clone()) }],
            ));
        }
    }
    for (a, b, c) in [(h, h | KERN_MINIMUM, h | KERN_OVERRIDE), (h | KERN_OVERRIDE, h, h), (h, h, h | KERN_MINIMUM), (h, 0, h)] {
        v.push((
            format!("format0 x3 coverage={:#x},{:#x},{:#x}", a, b, c),
            vec![
                KernSub { flags: a, data: KernData::F0(p8.clone()) },
                KernSub { flags: b, data: KernData::F0(q.clone()) },
                KernSub { flags: c, data: KernData::F0(vec![(1, 2, -3), (5, 5, -100)]) },
            ],
        ));
    }
    for flags in [h, h | KERN_OVERRIDE, 0, h | KERN_CROSS_STREAM] {
        v.push((format!("format2 coverage={:#x}", flags), vec![f2(flags)]));
        v.push((format!("format2(tall) coverage={:#x}", flags), vec![f2tall(flags)]));
    }
    v.push(("format2+format0".into(), vec![f2(h), KernSub { flags: h, data: KernData::F0(q.clone()) }]));
    v.push(("format2(tall)+format0".into(), vec![f2tall(h), KernSub { flags: h, data: KernData::F0(q.clone()) }]));
    v.push(("format0+format2".into(), vec![KernSub { flags: h, data: KernData::F0(q.clone()) }, f2(h)]));
    v.push(("format0+format2(tall)".into(), vec![KernSub { flags: h, data: KernData::F0(q) }, f2tall(h)]));
    v
}

/// expected kerning of the left glyph of every adjacent pair (last glyph 0), per minimum-mode;
/// None when the reference reader cannot use the table
fn kern_expect(data: &[u8], s: &[G], mode: u8, sw: KSw) -> Option<(Vec<i32>, bool)> {
    let mut v = vec![0i32; s.len()];
    let mut cross = false;
    // the table as a whole must be usable even when the string has no pair
    kern_pair(data, 0, 0, mode, sw).ok()?;
    for i in 0..s.len().saturating_sub(1) {
        match kern_pair(data, s[i], s[i + 1], mode, sw) {
            Ok((x, y)) => {
                v[i] = x;
                cross |= y != 0;
            }
            Err(()) => return None,
        }
    }
    Some((v, cross))
}

fn kern_self_test(subs: &[KernSub], data: &[u8]) {
    // the byte-level reference reader agrees with the abstract model on every single subtable
    if subs.len() == 1 && subs[0].flags == KERN_HORIZONTAL {
        for l in 0..8 {
            for r in 0..8 {
                let want = kern_sub_value(&subs[0].data, l, r).unwrap_or(0) as i32;
                let got = kern_pair(data, l, r, 0, KSw::default());
                assert_eq!(got, Ok((want, 0)), "machinery: kern encoder/decoder disagree for ({}, {})", l, r);
            }
        }
    }
}

/// compare observed kernings (or a rejected table) with the reference; returns true if it held
fn kern_compare(acc: &mut Acc, data: &[u8], s: &[G], observed: &Result<Vec<i32>, String>, base: &[i32], witness: &dyn Fn() -> J) -> bool {
    let add = |v: &[i32]| -> Vec<i32> { v.iter().zip(base.iter()).map(|(a, b)| a + b).collect() };
    for m in KERN_MIN_MODES {
        if let (Some((v, false)), Ok(o)) = (kern_expect(data, s, m, KSw::default()), observed) {
            if &add(&v) == o {
                return true;
            }
        }
    }
    let mut hit: Option<Vec<usize>> = None;
    'outer: for set in all_subsets(&[3], 1) {
        let sw = set.iter().fold(KSw::default(), |a, &i| a.with(i));
        for m in KERN_MIN_MODES {
            match (kern_expect(data, s, m, sw), observed) {
                (Some((v, false)), Ok(o)) if &add(&v) == o => {
                    hit = Some(set);
                    break 'outer;
                }
                (None, Err(_)) => {
                    hit = Some(set);
                    break 'outer;
                }
                _ => {}
            }
        }
    }
    let spec: Vec<J> = KERN_MIN_MODES.iter().map(|&m| json!(kern_expect(data, s, m, KSw::default()).map(|(v, c)| json!({"kerning": add(&v), "cross_stream_shift": c})))).collect();
    let detail = |keys: &[String]| json!({"case": witness(), "expected_any_of(minimum modes raise/unused/lower)": spec, "observed": format!("{:?}", observed), "explained_by": keys});
    match hit {
        Some(set) => {
            let keys: Vec<String> = set.iter().map(|&i| format!("C05:{}", KSW_NAMES[i])).collect();
            for k in &keys {
                acc.report(k, || detail(&keys));
            }
        }
        None => acc.report("C05:mismatch:kern", || detail(&[])),
    }
    false
}

/// (description, companion GPOS program index, kerning argument, kern table expected to be applied)
const KERN_SHAPE_CONFIGS: [(&str, Option<usize>, bool, bool); 5] = [
    ("no GPOS, kerning=true", None, true, true),
    ("GPOS without kern feature, kerning=true", Some(0), true, true),
    ("GPOS without kern feature, kerning=false", Some(0), false, false),
    ("GPOS dist feature + kern table, kerning=true", Some(1), true, true),
    ("GPOS with kern feature + kern table, kerning=true", Some(2), true, false),
];

fn kern_companions() -> Vec<Prog> {
    vec![
        prog("kern companion: GPOS with mark feature only".into(), Kind::MarkBase, T_MARK, vec![lk((0, 0), vec![markbase(vec![M1, M2], CLASS_CFG[1], 0, 0)])]),
        prog("kern companion: GPOS with dist feature (advance) only".into(), Kind::Single, T_DIST, vec![lk((0, 0), vec![Subtable::Single1 { cov: vec![A, B, M1], fmt: 0x4, value: val(22) }])]),
        prog("kern companion: GPOS with kern feature".into(), Kind::Pair, T_KERN, vec![lk((0, 0), vec![pair1(0x4, 0)])]),
    ]
}

fn kern_shape_font(data: &[u8], cfg: usize, companions: &[Prog]) -> Vec<u8> {
    let kt = (tag(b"kern"), data.to_vec());
    let enc = Enc::default();
    match KERN_SHAPE_CONFIGS[cfg].1 {
        None => make_font(false, &[kt]),
        Some(i) => make_font(false, &[(tag(b"GPOS"), companions[i].gpos.encode(&enc)), (tag(b"GDEF"), companions[i].gdef.encode(&enc)), kt]),
    }
}

fn kern_shape_case(acc: &mut Acc, f: &mut FontT<'_>, name: &str, data: &[u8], cfg: usize, companions: &[Prog], s: &[G]) {
    let (cname, gpi, kerning, table_applies) = KERN_SHAPE_CONFIGS[cfg];
    let gp: Option<&Prog> = gpi.map(|i| &companions[i]);
    let enc = Enc::default();
    acc.evals += 1;
    let w = || {
        let mut j = json!({"kern_table": name, "kern": hex(data), "input": text_of(s), "glyphs": s, "seam": "Font::shape", "font": cname,
                           "replay": {"kind": "kern-shape", "kern": hex(data), "config": cfg, "glyphs": s}});
        if let Some(p) = gp {
            j["GPOS"] = json!(hex(&p.gpos.encode(&enc)));
            j["GDEF"] = json!(hex(&p.gdef.encode(&enc)));
        }
        j
    };
    let run: Vec<GlyphIn> = s.iter().map(|&gid| GlyphIn { gid, lig_comp: 0 }).collect();
    let gref: Vec<PosOut> = match gp {
        Some(p) => normalize(&apply_gpos(&p.gpos, &p.gdef, &p.feats, None, &run, Sw::default())),
        None => vec![PosOut::default(); s.len()],
    };
    match shape_real(f, &text_of(s), &[], None, kerning) {
        Err(pi) => acc.report(&panic_key(&pi), || json!({"case": w(), "panic": pi.msg, "at": pi.loc()})),
        Ok(res) => {
            let (infos, err) = match res {
                Ok(i) => (i, None),
                Err((e, i)) => (i, Some(e)),
            };
            let got = abstract_infos(&infos);
            // everything but the advance must equal the GPOS reference
            let strip = |o: &[PosOut]| -> Vec<PosOut> { o.iter().map(|p| PosOut { x_adv: 0, ..*p }).collect() };
            if strip(&got) != strip(&gref) {
                acc.report("C05:mismatch:kern-shape-placement", || json!({"case": w(), "expected": outs_json(&gref), "observed": outs_json(&got)}));
                return;
            }
            let base: Vec<i32> = gref.iter().map(|p| p.x_adv).collect();
            let obs: Vec<i32> = got.iter().map(|p| p.x_adv).collect();
            if !table_applies {
                if let Some(e) = &err {
                    // Font::shape reports the kern table as unusable
                    kern_compare(acc, data, s, &Err(e.clone()), &base, &w);
                    return;
                }
                if obs != base {
                    acc.report("C05:mismatch:kern-table-applied-although-disabled-or-superseded", || json!({"case": w(), "expected": base, "observed": obs}));
                }
                return;
            }
            let observed: Result<Vec<i32>, String> = match &err {
                Some(e) => Err(e.clone()),
                None => Ok(obs.clone()),
            };
            // precise attribution of one suspected deviation: the kern table value *replaces* what earlier GPOS
            // features added to the advance of every glyph but the last
            if base.iter().any(|b| *b != 0) && err.is_none() {
                let mut overwritten = false;
                for m in KERN_MIN_MODES {
                    if let Some((v, false)) = kern_expect(data, s, m, KSw::default()) {
                        let mut o2 = v.clone();
                        if let Some(l) = o2.last_mut() {
                            *l = *base.last().unwrap();
                        }
                        let summed: Vec<i32> = v.iter().zip(base.iter()).map(|(a, b)| a + b).collect();
                        if obs == o2 && obs != summed {
                            overwritten = true;
                        }
                    }
                }
                if overwritten {
                    acc.report("C05:kern:table-kerning-overwrites-earlier-advance-adjustment", || json!({"case": w(), "gpos_advance_adjust": base, "observed": obs}));
                    return;
                }
            }
            kern_compare(acc, data, s, &observed, &base, &w);
            if err.is_none() {
                let w2 = || {
                    let mut j = w();
                    j["seam"] = json!("Font::shape + GlyphLayout::glyph_positions");
                    j
                };
                check_layout(acc, f, false, &infos, s, "kern", &w2);
            }
        }
    }
}


fn run_kern(ctx: &Ctx, thorough: bool, all_strings: &[Vec<G>]) -> Vec<Acc> {
    let maxlen = if thorough { 3 } else { 2 };
    let cat = kern_catalogue();
    let companions = kern_companions();
    cat.par_iter()
        .enumerate()
        .map(|(ti, (name, subs))| {
            let mut acc = Acc::default();
            let data = encode_kern(subs);
            kern_self_test(subs, &data);
            let wit = |s: &[G], seam: &str| json!({"kern_table": name, "kern": hex(&data), "input": text_of(s), "glyphs": s, "seam": seam,
                                                     "replay": {"kind": "kern", "kern": hex(&data), "glyphs": s}});
            // seam A: KernTable + gpos::apply_fallback
            let parsed = guard(|| ReadScope::new(&data).read::<KernTable<'_>>().map_err(|e| format!("{:?}", e)));
            let strs: Vec<&Vec<G>> = all_strings.iter().filter(|s| s.len() <= maxlen).collect();
            for s in &strs {
                acc.evals += 1;
                let observed: Result<Result<Vec<i32>, String>, PanicInfo> = match &parsed {
                    Err(pi) => Err(pi.clone()),
                    Ok(Err(e)) => Ok(Err(e.clone())),
                    Ok(Ok(kern)) => guard(|| {
                        let glyphs: Vec<RawGlyph<()>> = s.iter().map(|&g| { let mut r = raw_glyph(g, 0); r.unicodes.push(glyph_char(g)); r }).collect();
                        let mut infos = Info::init_from_glyphs(None, glyphs);
                        match gpos::apply_fallback(Some(*kern), &mut infos) {
                            Ok(()) => {
                                if infos.iter().any(|i| i.placement != Placement::None) {
                                    Err("unexpected placement".to_string())
                                } else {
                                    Ok(infos.iter().map(|i| i.kerning as i32).collect())
                                }
                            }
                            Err(e) => Err(format!("{:?}", e)),
                        }
                    }),
                };
                let zeros = vec![0i32; s.len()];
                match observed {
                    Err(pi) => acc.report(&panic_key(&pi), || json!({"case": wit(s, "KernTable + gpos::apply_fallback"), "panic": pi.msg, "at": pi.loc()})),
                    Ok(o) => {
                        let w = || wit(s, "KernTable + gpos::apply_fallback");
                        kern_compare(&mut acc, &data, s, &o, &zeros, &w);
                        if let Some((v, _)) = kern_expect(&data, s, 0, KSw::default()) {
                            if v.iter().any(|x| *x != 0) {
                                ctx.mark_nontrivial(H::new().str("kern").u64(ti as u64).bytes(&s.iter().map(|g| *g as u8).collect::<Vec<_>>()).get());
                            }
                        }
                        if let Ok(k) = &o {
                            let mut h = H::new().str("kern-out");
                            for x in k {
                                h = h.u64(*x as u32 as u64);
                            }
                            ctx.mark_outcome(h.get());
                        }
                    }
                }
            }
            // seam B: Font::shape on wrapped fonts (a reduced set of tables)
            let shape_it = name.starts_with("format0 pairs#5 coverage=0x1")
                || name.starts_with("format0+format0 coverage=0x1,0x9")
                || name.starts_with("format0+format0 coverage=0x1,0x1")
                || name == "format2 coverage=0x1"
                || name == "format0+format2";
            if shape_it {
                for cfg in 0..KERN_SHAPE_CONFIGS.len() {
                    let font = kern_shape_font(&data, cfg, &companions);
                    with_font(&font, |f| {
                        for s in all_strings.iter().filter(|s| s.len() <= 3) {
                            kern_shape_case(&mut acc, f, name, &data, cfg, &companions, s);
                        }
                    })
                    .unwrap_or_else(|e| panic!("machinery: cannot load font: {}", e));
                }
            }
            acc.kind = "kern";
            acc.states += acc.evals;
            acc.transitions += acc.evals;
            acc
        })
        .collect()
}

// ---------------------------------------------------------------------------------------------------
// entry points
// ---------------------------------------------------------------------------------------------------

pub fn run(ctx: &Ctx) {
    let thorough = ctx.tier.thorough();
    ctx.set_rule(
        "GPOS: every program of the catalogue x every encoding with <= 2 non-default choices (Coverage 1/2, ClassDef 1/2, \
         Extension) x every glyph string over {a,b,L,m1,m2} up to the length bound (x ligature-component assignments of marks \
         after L for MarkLigPos, x 6 variation tuples for programs with VariationIndex tables) through gpos::apply_features; the \
         default encoding additionally through Font::shape and through GlyphLayout::glyph_positions in both directions (mark \
         families also with zero-advance marks). Family 'markadjust': (MarkBasePos | MarkLigPos | MarkMarkPos) x (SinglePos 1 \
         under 3 lookup flags, SinglePos 2, PairPos 1 with the mark as second glyph, PairPos 1 with the mark as first glyph, \
         PairPos 2, Context 3 / Context 1 / ChainContext 3 rule with a nested SinglePos on the mark) x 5 value formats \
         (x / y / both placements, advance only, mixed) x (attach then adjust | adjust then attach) x (two lookups of one \
         feature | two features), plus attachment and adjustment by two records of one contextual rule, re-attachment by \
         MarkMarkPos after an adjustment, adjustment before and after the attachment, and placements carried by \
         VariationIndex tables x 6 tuples. Family 'cursiveadjust': CursivePos (IgnoreMarks, with / without RIGHT_TO_LEFT) x (SinglePos 1 \
         on {a}, SinglePos 1 and 2 on {a,b,L}, PairPos 1 value record 1, PairPos 1 value record 2, PairPos 2 both records) x 5 value \
         formats x (cursive then adjust | adjust then cursive), two features (one feature for the formats 0x3 and 0x7; a chain \
         a -> b -> L only for SinglePos 2 and PairPos value record 1), plus adjusted before and after the cursive lookup; the \
         strings put the adjusted glyph first, in the middle and last in chains of 2 to 4 (quick) / 5 (thorough) glyphs. Family \
         'pairskip': PairPos 1 / 2 with every glyph of the alphabet covered as first and as second glyph x 8 lookup flag settings x \
         6 (valueFormat1, valueFormat2) with valueFormat2 zero / non-zero, on all strings up to length 4 (quick) / 5 (thorough): \
         where the next pair starts when ignored glyphs sit before, between and after pair members. kern: every table of the catalogue x every string through KernTable + \
         apply_fallback, selected tables through Font::shape with/without GPOS. A case is non-trivial when the reference \
         positioner produced a non-zero adjustment or an attachment (counted per (program, string, components, tuple, direction)) \
         or the kern reference produced a non-zero kerning; outcomes are distinct (Info values, absolute origins) results.",
    );
    ctx.assume("drawing convention: pen starts at 0 and advances by hori_advance, glyph drawn at pen + offset; right-to-left = the same list drawn in reverse order (origin_k = -sum_{j<=k} adv_j + offset_k from the right end)");
    ctx.assume("programs of kind 'overflow' accumulate adjustments beyond the i16 range of Info.kerning / Anchor: only panic freedom is demanded for them");
    ctx.assume("horizontal layout: yAdvance of a value record has no observable effect; Device (hinting) tables have no effect in design units");
    ctx.assume("mark attachment (MarkBase/MarkLig): the lookup flags select the mark; the glyph attached to is the nearest preceding glyph that is not a GDEF mark (HarfBuzz); IgnoreBaseGlyphs/IgnoreLigatures are not enumerated for mark attachment lookups because the specification does not define them there");
    ctx.assume("MarkMarkPos: the preceding mark is found with the lookup flags minus the three Ignore* bits (HarfBuzz); the ligature component of a mark after L is the liga_component_pos it carries");
    ctx.assume("context positioning: nested lookups are applied at the position of the matched input glyph without testing that glyph against the nested lookup's flag; nested lookup flags are 0 or equal to the parent's");
    ctx.assume("a mark that received x/yPlacement from a value record and is attached (MarkBasePos / MarkLigPos / MarkMarkPos) by a LATER lookup: the GPOS chapter says the attachment aligns the mark anchor with the base anchor and is silent on an earlier placement of the mark. Two outcomes are accepted, each for the run as a whole: (1) adjustments accumulate, offset = base anchor - mark anchor + earlier placement; (2) the attachment defines the offset and the earlier placement is discarded (HarfBuzz MarkArray::apply assigns o.x_offset = base_x - mark_x; this is what allsorts does: the Distance placement is replaced by MarkAnchor). A placement applied AFTER the attachment (later lookup of the feature, later feature, nested lookup of a contextual rule) adds to the offset under both readings (HarfBuzz ValueFormat::apply_value: x_offset += xPlacement), i.e. offset = base anchor + placement - mark anchor, which Info represents by moving the base anchor; xAdvance of the mark is unaffected by the attachment");
    ctx.assume("a glyph of a cursive chain that is also adjusted by a value record (family 'cursiveadjust'): the reference keeps the attachment and adds the placement to the glyph (HarfBuzz: attach_type / attach_chain stay, x_offset / y_offset += placement; a placement made before the cursive lookup enters x_advance = exit_x + x_offset), whichever lookup comes first. gpos::Info cannot hold a link and a placement on one glyph; allsorts' behaviour (Placement::combine_distance replaces CursiveAnchor by Distance, cursivepos overwrites an earlier Distance on the first glyph of the pair) is attributed to C05:cursive:later-or-earlier-placement-on-linked-glyph-lost only when the observed Info values equal the reference run with exactly that switch, anything else is C05:mismatch:info-cursiveadjust");
    ctx.assume("pen positions of a cursively attached glyph that carries a placement of its own (only the last glyph of a chain can, in Info): Info does not record whether the placement was made before or after the attachment, so both HarfBuzz outcomes are accepted: anchors coincide (placement before: folded into the advances, cross-stream offset assigned) and glyph moved off the aligned position by the placement (placement after); the known cursive layout switches are tried under both readings, their algorithms are unchanged");
    ctx.assume("programs of kind 'markadjust' that use two features list the lookups in the order in which the features are applied (attachment in mark/mkmk then adjustment in the non-default feature ss01, or adjustment in dist then attachment in mark/mkmk), so that applying lookups in LookupList order over all features (specification, HarfBuzz) and feature by feature (allsorts) give the same sequence");
    ctx.assume("PairPos walk: pairs are formed between consecutive glyphs that the lookup flags select; when valueFormat2 is non-zero the second glyph is consumed and the next pair starts at the next SELECTED glyph after it, when valueFormat2 is zero the second glyph is the first glyph of the next pair; a glyph the flags exclude is never a pair member (OpenType 'Lookup Type 2', lookupFlag; HarfBuzz PairPos::apply with skippy_iter)");
    ctx.assume("kern 'minimum' subtables: the specification only says the table 'has minimum values'; raising the accumulated value to the minimum, not using such subtables, and lowering the accumulated value are all accepted");
    ctx.assume("a kern table is not applied when GPOS has a 'kern' feature, nor when Font::shape is called with kerning=false on a font with GPOS");
    ctx.assume("variation deltas are chosen so that every interpolated delta is an integer (no rounding rule is tested)");

    let all_strings = strings(if thorough { 5 } else { 4 });
    let progs = catalogue(thorough);
    let accs: Vec<Acc> = progs.par_iter().map(|p| run_prog(ctx, p, thorough, &all_strings)).collect();
    let mut by_kind: BTreeMap<&'static str, u64> = BTreeMap::new();
    for p in &progs {
        *by_kind.entry(p.kind.name()).or_insert(0) += 1;
    }
    for a in accs {
        a.merge_into(ctx);
    }
    let lig = run_gsub_lig(thorough, &all_strings);
    let nlig = lig.len();
    for a in lig {
        a.merge_into(ctx);
    }
    let kern = run_kern(ctx, thorough, &all_strings);
    let nkern = kern.len();
    for a in kern {
        a.merge_into(ctx);
    }
    let n_markadjust = by_kind.get("markadjust").copied().unwrap_or(0);
    let n_cursiveadjust = by_kind.get("cursiveadjust").copied().unwrap_or(0);
    ctx.set(
        "bounds",
        json!({
            "gpos_programs": progs.len(), "gpos_programs_by_kind": by_kind, "gsub_ligature_programs": nlig, "kern_tables": nkern,
            "encodings_per_program": if thorough { 7 } else { 4 }, "encoding_deviation_bound": if thorough { 2 } else { 1 }, "alphabet": ["a", "b", "L", "m1", "m2"],
            "max_string_length": {"pair": if thorough { 4 } else { 3 }, "marklig": if thorough { 4 } else { 3 }, "context_combo": if thorough { 5 } else { 4 }, "markadjust": if thorough { 5 } else { 4 }, "cursiveadjust": if thorough { 5 } else { 4 }, "pairskip": if thorough { 5 } else { 4 }, "markadjust_devices": if thorough { 4 } else { 3 }, "others": if thorough { 5 } else { 3 },
                                   "gsub_ligature": if thorough { 5 } else { 4 }, "kern_apply_fallback": if thorough { 3 } else { 2 }, "kern_shape": 3},
            "markadjust": {"attachments": ["MarkBasePos", "MarkLigPos", "MarkMarkPos"], "adjusters_per_value_format": 10, "value_formats": VF_ADJ.iter().map(|f| format!("{:#x}", f)).collect::<Vec<_>>(),
                           "orders": ["attach,adjust", "adjust,attach"], "feature_arrangements": ["one-feature", "two-features"], "programs": n_markadjust},
            "cursiveadjust": {"cursive_lookups": ["IgnoreMarks", "IgnoreMarks|RightToLeft"], "anchor_masks": ["0x3f", "0x1e"], "adjusters_per_value_format": 6,
                              "value_formats": VF_ADJ.iter().map(|f| format!("{:#x}", f)).collect::<Vec<_>>(), "orders": ["cursive,adjust", "adjust,cursive"], "programs": n_cursiveadjust},
            "value_formats": "SinglePos 16 x 8 flags x 2 formats; PairPos 16 x 16 x 8 flags x 2 formats; 13 device formats x 4 device menus",
            "directions": ["LeftToRight", "RightToLeft"], "tuples": TUPLES.iter().map(|t| json!(t)).collect::<Vec<_>>(),
        }),
    );
}

pub fn replay(w: &J) -> Result<(), String> {
    // witnesses nest the case description under "case" for layout / panic reports
    let r = if w["replay"].is_object() { &w["replay"] } else { &w["case"]["replay"] };
    let glyphs: Vec<G> = r["glyphs"].as_array().ok_or("witness has no replay.glyphs")?.iter().map(|v| v.as_u64().unwrap_or(0) as G).collect();
    let mut acc = Acc::default();
    match r["kind"].as_str() {
        Some("kern") => {
            let data = mcx::unhex(r["kern"].as_str().ok_or("no kern bytes")?);
            let parsed = guard(|| ReadScope::new(&data).read::<KernTable<'_>>().map_err(|e| format!("{:?}", e)));
            let observed = match parsed {
                Err(pi) => return Err(format!("panic {} at {}", pi.msg, pi.loc())),
                Ok(Err(e)) => Err(e),
                Ok(Ok(kern)) => {
                    let g = guard(|| {
                        let gl: Vec<RawGlyph<()>> = glyphs.iter().map(|&g| { let mut r = raw_glyph(g, 0); r.unicodes.push(glyph_char(g)); r }).collect();
                        let mut infos = Info::init_from_glyphs(None, gl);
                        gpos::apply_fallback(Some(kern), &mut infos).map(|_| infos.iter().map(|i| i.kerning as i32).collect::<Vec<i32>>()).map_err(|e| format!("{:?}", e))
                    });
                    match g {
                        Err(pi) => return Err(format!("panic {} at {}", pi.msg, pi.loc())),
                        Ok(o) => o,
                    }
                }
            };
            let zeros = vec![0i32; glyphs.len()];
            let wit = || json!({"replayed": true});
            kern_compare(&mut acc, &data, &glyphs, &observed, &zeros, &wit);
        }
        Some("gpos") => {
            let name = r["program"].as_str().ok_or("no program name")?;
            let progs = catalogue(true);
            let p = progs.iter().find(|p| p.name == name).ok_or_else(|| format!("program {:?} is not in the catalogue (seam not replayable)", name))?;
            let e = r["enc"].as_array().ok_or("no enc")?;
            let enc = Enc { cov_fmt: e[0].as_u64().unwrap_or(1) as u8, class_fmt: e[1].as_u64().unwrap_or(2) as u8, ext: e[2].as_u64().unwrap_or(0) == 1 };
            let comps: Vec<u16> = r["comps"].as_array().map(|a| a.iter().map(|v| v.as_u64().unwrap_or(0) as u16).collect()).unwrap_or_else(|| vec![0; glyphs.len()]);
            let tuple = r["tuple"].as_i64().map(|t| t as i16);
            let gpos_bytes = p.gpos.encode(&enc);
            let gdef_bytes = p.gdef.encode(&enc);
            let denc = Enc::default();
            let tables = vec![(tag(b"GPOS"), p.gpos.encode(&denc)), (tag(b"GDEF"), p.gdef.encode(&denc))];
            let (font_nz, font_z) = (make_font(false, &tables), make_font(true, &tables));
            let sets = all_subsets(p.kind.cands(), 3);
            let (cache, gdef) = match parse_tables(&gpos_bytes, &gdef_bytes) {
                Err(pi) => return Err(format!("panic {} at {}", pi.msg, pi.loc())),
                Ok(Err(e)) => return Err(format!("valid table rejected: {}", e)),
                Ok(Ok(x)) => x,
            };
            let case = Case { p, enc, gpos_bytes: &gpos_bytes, gdef_bytes: &gdef_bytes, gids: &glyphs, comps: &comps, tuple };
            with_font(&font_nz, |f_nz| {
                with_font(&font_z, |f_z| {
                    let mut fonts = Fonts { nz: f_nz, z: f_z };
                    run_case_apply(None, &mut acc, &case, &cache, &gdef, &mut fonts, &sets, true, 0);
                    if enc == denc && comps.iter().all(|c| *c == 0) {
                        run_case_shape(&mut acc, &case, &mut fonts, &sets);
                    }
                })
            })
            .map_err(|e| e.to_string())?
            .map_err(|e| e.to_string())?;
        }
        Some("kern-shape") => {
            let data = mcx::unhex(r["kern"].as_str().ok_or("no kern bytes")?);
            let cfg = r["config"].as_u64().ok_or("no config")? as usize;
            let companions = kern_companions();
            let font = kern_shape_font(&data, cfg, &companions);
            with_font(&font, |f| kern_shape_case(&mut acc, f, "replayed", &data, cfg, &companions, &glyphs)).map_err(|e| e.to_string())?;
        }
        Some("gsub-lig") => {
            let name = r["program"].as_str().ok_or("no program name")?;
            let progs = gsub_lig_progs();
            let p = progs.iter().find(|p| p.name == name).ok_or("unknown gsub-lig program")?;
            let su = lig_setup(p);
            with_font(&su.font, |f| gsub_lig_case(&mut acc, &su, f, &glyphs)).map_err(|e| e.to_string())?;
        }
        _ => return Err("witness carries no replay record".into()),
    }
    if acc.viol.is_empty() {
        Ok(())
    } else {
        Err(acc.viol.iter().map(|(k, (n, _))| format!("{} (x{})", k, n)).collect::<Vec<_>>().join(", "))
    }
}
