//! C15 — reading is the inverse of writing for every table the library can write.
//!
//! For every writable structure (inventory: `impl WriteBinary` in /repo/src) a default value and, per field, a
//! boundary menu; ALL executions with at most `bound` deviating fields are enumerated with `mcx::explore`
//! (deviation points). Oracles per execution:
//!   1. `read(write(v)) == v` modulo the writer's declared normalisations,
//!   2. the written bytes, parsed by an independent byte-level decoder (`otmodel::rt`), describe `v`
//!      (catches truncated / mis-laid-out writes that a symmetric reader bug would hide),
//!   3. writing the re-read value gives byte-identical output,
//!   4. a value whose count/length/offset does not fit its field is refused with `Err` (never written
//!      truncated, never a panic).
//! Second direction: every table of every fixture font under /repo/tests/fonts that parses is written,
//! re-parsed and written again (stable bytes).
//!
//! Values that can only be obtained by parsing (ReadArray-backed tables, CFF DICTs/INDEXes, ...) are produced by
//! the independent encoders in `otmodel::rt` and read with allsorts first.

use allsorts::binary::read::{ReadArrayCow, ReadScope};
use allsorts::binary::write::{WriteBinary, WriteBinaryDep, WriteBuffer, WriteContext};
use allsorts::binary::{I16Be, U16Be, U8};
use allsorts::error::WriteError;
use mcx::{guard, Chooser, Ctx, PanicInfo, H};
use otmodel::be::W;
use otmodel::rt::{self, K};
use rayon::prelude::*;
use serde_json::{json, Value};

// ---------------------------------------------------------------------------------------------
// Per-execution report
// ---------------------------------------------------------------------------------------------

pub struct Out {
    name: &'static str,
    viol: Vec<(String, Value)>,
    outcome: H,
    nontrivial: bool,
    /// the execution ended before anything was compared (duplicate enumeration member, model the reader rejects, ...)
    skipped: bool,
    desc: Option<Box<dyn Fn() -> Value>>,
}

impl Out {
    fn new(name: &'static str) -> Out {
        Out { name, viol: Vec::new(), outcome: H::new().str(name), nontrivial: false, skipped: false, desc: None }
    }
    fn viol(&mut self, suffix: &str, detail: Value) {
        self.viol.push((format!("C15:{}:{}", self.name, suffix), detail));
    }
    fn panic(&mut self, during: &str, p: &PanicInfo) {
        let site = site_key(p);
        let case = self.desc.as_ref().map(|f| f());
        self.viol(&format!("panic-in-{}:{}", during, site), json!({"panic": p.msg, "at": p.loc(), "case": case}));
    }
    fn seen(&mut self, b: &[u8]) {
        self.outcome = self.outcome.bytes(b);
    }
    fn describe(&mut self, f: impl Fn() -> Value + 'static) {
        self.desc = Some(Box::new(f));
    }
    fn tag(&mut self, s: &str) {
        self.outcome = self.outcome.str(s);
    }
    /// End the execution without a comparison.
    fn skip(&mut self, why: &str) {
        self.tag(why);
        self.skipped = true;
        self.nontrivial = false;
    }
}

/// Line-number independent panic site (works for /repo and for a private worktree copy).
fn site_key(p: &PanicInfo) -> String {
    let rel = match p.file.rfind("/src/") {
        Some(i) => &p.file[i + 1..],
        None => p.file.as_str(),
    };
    let text = std::fs::read_to_string(&p.file)
        .ok()
        .and_then(|s| s.lines().nth(p.line.saturating_sub(1) as usize).map(|l| l.to_string()));
    match text {
        Some(t) if rel.starts_with("src/") && !p.file.contains("/rustc/") && !p.file.contains(".cargo") => {
            format!("{}::{}", rel, t.split_whitespace().collect::<Vec<_>>().join("_"))
        }
        _ => {
            let m: String = p.msg.chars().filter(|c| !c.is_ascii_digit()).take(60).collect();
            format!("{}::{}", rel, m.split_whitespace().collect::<Vec<_>>().join("_"))
        }
    }
}

/// Result of one guarded write: Ok(bytes written after the prefix) / Err(error text).
type Wr = Result<Vec<u8>, String>;

/// Run a writer against a fresh `WriteBuffer` that already holds `prefix` bytes; returns the bytes appended.
fn wr(prefix: usize, f: impl FnOnce(&mut WriteBuffer) -> Result<(), WriteError>) -> Result<Wr, PanicInfo> {
    guard(|| {
        let mut buf = WriteBuffer::new();
        if prefix > 0 {
            buf.write_bytes(&vec![0xA5u8; prefix]).unwrap();
        }
        match f(&mut buf) {
            Ok(()) => Ok(buf.bytes()[prefix..].to_vec()),
            Err(e) => Err(format!("{:?}", e)),
        }
    })
}

fn hexs(b: &[u8]) -> String {
    if b.len() <= 400 {
        mcx::hex(b)
    } else {
        format!("{}… ({} bytes)", mcx::hex(&b[..200]), b.len())
    }
}

/// Common verdict logic for a value that must be written successfully.
/// `w1`: first write; returns the bytes if everything so far is fine.
fn expect_ok(out: &mut Out, w1: Result<Wr, PanicInfo>, case: &dyn Fn() -> Value) -> Option<Vec<u8>> {
    match w1 {
        Err(p) => {
            out.panic("write", &p);
            None
        }
        Ok(Err(e)) => {
            out.viol("valid-value-refused", json!({"case": case(), "error": e}));
            None
        }
        Ok(Ok(b)) => {
            out.seen(&b);
            Some(b)
        }
    }
}

/// Common verdict logic for a value that must be refused. `probe` describes what an independent decoder sees in
/// the bytes that were written anyway.
fn expect_err(out: &mut Out, w1: Result<Wr, PanicInfo>, case: &dyn Fn() -> Value, probe: impl FnOnce(&[u8]) -> String) {
    match w1 {
        Err(p) => out.panic("write-of-oversize-value", &p),
        Ok(Err(e)) => out.tag(&format!("refused:{}", e)),
        Ok(Ok(b)) => {
            let seen = probe(&b);
            out.viol(
                "oversize-value-written",
                json!({"case": case(), "written_len": b.len(), "independent_decoder_sees": seen, "bytes": hexs(&b)}),
            );
        }
    }
}

fn second_write(out: &mut Out, first: &[u8], w2: Result<Wr, PanicInfo>, case: &dyn Fn() -> Value) {
    match w2 {
        Err(p) => out.panic("second-write", &p),
        Ok(Err(e)) => out.viol("second-write-refused", json!({"case": case(), "error": e})),
        Ok(Ok(b)) => {
            if b != first {
                out.viol("second-write-differs", json!({"case": case(), "first": hexs(first), "second": hexs(&b)}));
            }
        }
    }
}

/// Verdict for structures described by an `otmodel::rt` model.
/// * `fits`: false when the value has a count/length/offset that cannot be represented (must be refused);
/// * `spec`: the exact expected encoding when the format leaves the writer no freedom;
/// * `check`: independent byte-level decode of the written bytes compared with the model;
/// * `reread`: allsorts re-reads the bytes, compares with the original value ("parse: .." / "differs: .." on
///   failure) and writes again.
fn model_verdict(
    out: &mut Out,
    case: &dyn Fn() -> Value,
    fits: bool,
    w1: Result<Wr, PanicInfo>,
    spec: Option<&[u8]>,
    check: impl Fn(&[u8]) -> Result<(), String>,
    reread: impl FnOnce(&[u8]) -> Result<Result<Result<Wr, PanicInfo>, String>, PanicInfo>,
) -> Option<Vec<u8>> {
    let before = out.viol.len();
    if !fits {
        expect_err(out, w1, case, |b| match check(b) {
            Ok(()) => "a well-formed structure equal to the model (?)".to_string(),
            Err(e) => e,
        });
        return None;
    }
    let Some(b) = expect_ok(out, w1, case) else { return None };
    if let Some(spec) = spec {
        if b != spec {
            out.viol(
                "written-bytes-differ-from-specified-layout",
                json!({"case": case(), "written": hexs(&b), "expected": hexs(spec), "independent_decoder": check(&b).err()}),
            );
            return None;
        }
    }
    if let Err(e) = check(&b) {
        out.viol("independent-decode-of-written-bytes-disagrees", json!({"case": case(), "written": hexs(&b), "disagreement": e}));
        return None;
    }
    match reread(&b) {
        Err(p) => out.panic("read", &p),
        Ok(Err(e)) => {
            let k = if e.starts_with("parse:") { "written-bytes-do-not-parse" } else { "reread-differs" };
            out.viol(k, json!({"case": case(), "written": hexs(&b), "error": e}));
        }
        Ok(Ok(w2)) => second_write(out, &b, w2, case),
    }
    if out.viol.len() == before {
        Some(b)
    } else {
        None
    }
}

/// Serialisation must not depend on what the buffer already holds: `b0` are the (verified) bytes produced into
/// an empty buffer, `wp` writes the same value into a buffer that already holds `prefix` bytes.
fn position_check(out: &mut Out, case: &dyn Fn() -> Value, prefix: usize, b0: Option<Vec<u8>>, wp: impl FnOnce() -> Result<Wr, PanicInfo>) {
    let Some(b0) = b0 else { return };
    if prefix == 0 {
        return;
    }
    // Whole tables (name, CFF, CFF2) are always serialised into a buffer of their own by the library (FontBuilder,
    // write::buffer) and their writers record table-absolute offsets from ctxt.bytes_written(); writing them behind other
    // bytes is outside what the property speaks about ("serialising a value and parsing the bytes"). The position check
    // is kept for the structures the library itself embeds in larger ones (cmap sub-tables, glyph records, DICTs,
    // INDEXes, ItemVariationStore, ...).
    if matches!(out.name, "name" | "name-owned" | "cff" | "cff2") {
        return;
    }
    match wp() {
        Err(p) => out.panic("write", &p),
        Ok(Err(e)) => out.viol("output-depends-on-bytes-already-in-buffer", json!({"case": case(), "bytes_already_in_buffer": prefix, "refused": e})),
        Ok(Ok(b)) => {
            if b != b0 {
                let at: Vec<usize> = (0..b.len().min(b0.len())).filter(|i| b[*i] != b0[*i]).take(8).collect();
                out.viol(
                    "output-depends-on-bytes-already-in-buffer",
                    json!({"case": case(), "bytes_already_in_buffer": prefix, "into_empty_buffer": hexs(&b0), "into_nonempty_buffer": hexs(&b), "first_differing_positions": at}),
                );
            }
        }
    }
}

// ---------------------------------------------------------------------------------------------
// Menus
// ---------------------------------------------------------------------------------------------

fn menu(k: K) -> &'static [i64] {
    match k {
        K::U8 => &[0, 1, 127, 128, 255],
        K::I8 => &[0, 1, -1, 127, -128],
        K::U16 => &[0, 1, 255, 256, 0x7FFF, 0x8000, 0xFFFF],
        K::I16 => &[0, 1, -1, 255, 256, -256, 0x7FFF, -0x8000],
        K::U32 => &[0, 1, 0xFFFF, 0x1_0000, 0xFF_FFFF, 0x100_0000, 0x7FFF_FFFF, 0x8000_0000, 0xFFFF_FFFF],
        K::I32 => &[0, 1, -1, 0xFFFF, 0x1_0000, -0x1_0000, 0x7FFF_FFFF, -0x8000_0000],
        K::I64 => &[0, 1, -1, 0xFFFF_FFFF, 0x1_0000_0000, -0x1_0000_0000, i64::MAX, i64::MIN],
    }
}

/// A deviation point over a field menu: 0 = `default`.
fn dv(c: &mut Chooser<'_>, default: i64, m: &[i64]) -> i64 {
    let k = c.dev(m.len() + 1);
    if k == 0 {
        default
    } else {
        m[k - 1]
    }
}

/// Distinct, recognisable default for field number `i` of kind `k` (never a menu value).
fn dflt(i: usize, k: K) -> i64 {
    let i = i as i64;
    match k {
        K::U8 => 0x21 + i,
        K::I8 => -(0x11 + i),
        K::U16 => 0x1203 + 0x101 * i,
        K::I16 => -(0x0A05 + 0x101 * i),
        K::U32 => 0x0102_0304 + 0x0101_0101 * i,
        K::I32 => -(0x0203_0405 + 0x0101_0101 * i),
        K::I64 => -(0x0102_0304_0506_0708 + 0x0101_0101_0101_0101 * i),
    }
}

/// Enumerate a field vector for a fixed layout: `fixed[i] = Some(v)` pins field i (no deviation point),
/// `menus[i]` overrides the menu.
fn fields(c: &mut Chooser<'_>, l: &rt::Layout, pin: &dyn Fn(usize, &str) -> Option<i64>, over: &dyn Fn(&str) -> Option<&'static [i64]>) -> Vec<i64> {
    l.iter()
        .enumerate()
        .map(|(i, (n, k))| match pin(i, n) {
            Some(v) => v,
            None => dv(c, dflt(i, *k), over(n).unwrap_or_else(|| menu(*k))),
        })
        .collect()
}

fn no_over(_: &str) -> Option<&'static [i64]> {
    None
}

fn named(l: &rt::Layout, v: &[i64]) -> Value {
    Value::Object(l.iter().zip(v).map(|((n, _), x)| (n.to_string(), json!(x))).collect())
}

/// Generic comparison for fixed-layout structures: written bytes must be exactly the spec encoding of `want`;
/// the re-read field vector must equal `want`.
fn fixed_verdict(
    out: &mut Out,
    l: &rt::Layout,
    given: &[i64],
    want: &[i64],
    w1: Result<Wr, PanicInfo>,
    reread: impl FnOnce(&[u8]) -> Result<Result<(Vec<i64>, Result<Wr, PanicInfo>), String>, PanicInfo>,
) {
    let lv: Vec<(&'static str, K)> = l.to_vec();
    let gv = given.to_vec();
    let case = move || named(&lv, &gv);
    {
        let case = case.clone();
        out.describe(move || case());
    }
    let Some(b) = expect_ok(out, w1, &case) else { return };
    let spec = rt::enc(l, want);
    if b != spec {
        let seen = rt::dec(l, &b).map(|v| named(l, &v));
        out.viol(
            "written-bytes-differ-from-specified-layout",
            json!({"case": case(), "written": hexs(&b), "expected": hexs(&spec), "independent_decoder_sees": seen}),
        );
        return;
    }
    match reread(&b) {
        Err(p) => out.panic("read", &p),
        Ok(Err(e)) => out.viol("written-bytes-do-not-parse", json!({"case": case(), "written": hexs(&b), "error": e})),
        Ok(Ok((got, w2))) => {
            if got != want {
                out.viol("reread-differs", json!({"case": case(), "expected": named(l, want), "reread": named(l, &got)}));
            }
            second_write(out, &b, w2, &case);
        }
    }
}

// ---------------------------------------------------------------------------------------------
// Structures — fixed layouts
// ---------------------------------------------------------------------------------------------

use allsorts::tables::{
    F2Dot14, Fixed, HeadTable, HheaTable, HmtxTable, IndexToLocFormat, LongHorMetric, MacStyle, MaxpTable,
    MaxpVersion1SubTable, TableRecord,
};

fn head_from(v: &[i64]) -> HeadTable {
    HeadTable {
        major_version: v[0] as u16,
        minor_version: v[1] as u16,
        font_revision: Fixed::from_raw(v[2] as i32),
        check_sum_adjustment: v[3] as u32,
        magic_number: v[4] as u32,
        flags: v[5] as u16,
        units_per_em: v[6] as u16,
        created: v[7],
        modified: v[8],
        x_min: v[9] as i16,
        y_min: v[10] as i16,
        x_max: v[11] as i16,
        y_max: v[12] as i16,
        mac_style: MacStyle::from_bits_truncate(v[13] as u16),
        lowest_rec_ppem: v[14] as u16,
        font_direction_hint: v[15] as i16,
        index_to_loc_format: if v[16] == 0 { IndexToLocFormat::Short } else { IndexToLocFormat::Long },
        glyph_data_format: v[17] as i16,
    }
}

fn head_to(h: &HeadTable) -> Vec<i64> {
    vec![
        h.major_version as i64,
        h.minor_version as i64,
        h.font_revision.raw_value() as i64,
        h.check_sum_adjustment as i64,
        h.magic_number as i64,
        h.flags as i64,
        h.units_per_em as i64,
        h.created,
        h.modified,
        h.x_min as i64,
        h.y_min as i64,
        h.x_max as i64,
        h.y_max as i64,
        h.mac_style.bits() as i64,
        h.lowest_rec_ppem as i64,
        h.font_direction_hint as i64,
        match h.index_to_loc_format {
            IndexToLocFormat::Short => 0,
            IndexToLocFormat::Long => 1,
        },
        h.glyph_data_format as i64,
    ]
}

fn write_head(prefix: usize, h: &HeadTable) -> Result<Wr, PanicInfo> {
    wr(prefix, |buf| {
        let ph = HeadTable::write(buf, h)?;
        buf.write_placeholder(ph, h.check_sum_adjustment)?;
        Ok(())
    })
}

fn s_head(c: &mut Chooser<'_>, _t: bool, out: &mut Out) {
    let prefix = [0usize, 3][c.dev(2)];
    let v = fields(
        c,
        rt::HEAD,
        &|_, n| if n == "magicNumber" { Some(0x5F0F3CF5) } else { None },
        &|n| match n {
            // only the defined macStyle bits are representable in the value
            "macStyle" => Some(&[0, 1, 0x40, 0x7F]),
            "indexToLocFormat" => Some(&[1]),
            _ => None,
        },
    );
    let v: Vec<i64> = v.iter().enumerate().map(|(i, x)| if i == 16 && *x != 1 { 0 } else if i == 13 { *x & 0x7F } else { *x }).collect();
    out.nontrivial = true;
    let h = head_from(&v);
    let before = out.viol.len();
    fixed_verdict(out, rt::HEAD, &v, &v, write_head(0, &h), |b| {
        guard(|| {
            let h2 = ReadScope::new(b).read::<HeadTable>().map_err(|e| format!("{:?}", e))?;
            if h2 != h {
                return Err(format!("PartialEq: {:?} != {:?}", h2, h));
            }
            let w2 = write_head(0, &h2);
            Ok((head_to(&h2), w2))
        })
    });
    if out.viol.len() == before {
        let vv = v.clone();
        position_check(out, &move || named(rt::HEAD, &vv), prefix, Some(rt::enc(rt::HEAD, &v)), || write_head(prefix, &h));
    }
}

fn hhea_from(v: &[i64]) -> HheaTable {
    HheaTable {
        ascender: v[2] as i16,
        descender: v[3] as i16,
        line_gap: v[4] as i16,
        advance_width_max: v[5] as u16,
        min_left_side_bearing: v[6] as i16,
        min_right_side_bearing: v[7] as i16,
        x_max_extent: v[8] as i16,
        caret_slope_rise: v[9] as i16,
        caret_slope_run: v[10] as i16,
        caret_offset: v[11] as i16,
        num_h_metrics: v[17] as u16,
    }
}

fn hhea_to(h: &HheaTable) -> Vec<i64> {
    vec![
        1,
        0,
        h.ascender as i64,
        h.descender as i64,
        h.line_gap as i64,
        h.advance_width_max as i64,
        h.min_left_side_bearing as i64,
        h.min_right_side_bearing as i64,
        h.x_max_extent as i64,
        h.caret_slope_rise as i64,
        h.caret_slope_run as i64,
        h.caret_offset as i64,
        0,
        0,
        0,
        0,
        0,
        h.num_h_metrics as i64,
    ]
}

fn s_hhea(c: &mut Chooser<'_>, _t: bool, out: &mut Out) {
    // version 1.0, reserved and metricDataFormat are not part of the value: the writer emits the specified constants
    let v = fields(
        c,
        rt::HHEA,
        &|i, _| match i {
            0 => Some(1),
            1 | 12..=16 => Some(0),
            _ => None,
        },
        &no_over,
    );
    out.nontrivial = true;
    let h = hhea_from(&v);
    fixed_verdict(out, rt::HHEA, &v, &v, wr(0, |b| HheaTable::write(b, &h)), |b| {
        guard(|| {
            let h2 = ReadScope::new(b).read::<HheaTable>().map_err(|e| format!("{:?}", e))?;
            if h2 != h {
                return Err(format!("PartialEq: {:?} != {:?}", h2, h));
            }
            let w2 = wr(0, |b| HheaTable::write(b, &h2));
            Ok((hhea_to(&h2), w2))
        })
    });
}

fn maxp_from(v: &[i64]) -> MaxpTable {
    MaxpTable {
        num_glyphs: v[1] as u16,
        version1_sub_table: if v.len() > 2 {
            Some(MaxpVersion1SubTable {
                max_points: v[2] as u16,
                max_contours: v[3] as u16,
                max_composite_points: v[4] as u16,
                max_composite_contours: v[5] as u16,
                max_zones: v[6] as u16,
                max_twilight_points: v[7] as u16,
                max_storage: v[8] as u16,
                max_function_defs: v[9] as u16,
                max_instruction_defs: v[10] as u16,
                max_stack_elements: v[11] as u16,
                max_size_of_instructions: v[12] as u16,
                max_component_elements: v[13] as u16,
                max_component_depth: v[14] as u16,
            })
        } else {
            None
        },
    }
}

fn maxp_to(m: &MaxpTable) -> Vec<i64> {
    match &m.version1_sub_table {
        None => vec![0x5000, m.num_glyphs as i64],
        Some(s) => vec![
            0x10000,
            m.num_glyphs as i64,
            s.max_points as i64,
            s.max_contours as i64,
            s.max_composite_points as i64,
            s.max_composite_contours as i64,
            s.max_zones as i64,
            s.max_twilight_points as i64,
            s.max_storage as i64,
            s.max_function_defs as i64,
            s.max_instruction_defs as i64,
            s.max_stack_elements as i64,
            s.max_size_of_instructions as i64,
            s.max_component_elements as i64,
            s.max_component_depth as i64,
        ],
    }
}

fn s_maxp(c: &mut Chooser<'_>, _t: bool, out: &mut Out) {
    let v1 = c.pick(2) == 1;
    let l: &rt::Layout = if v1 { rt::MAXP10 } else { rt::MAXP05 };
    let v = fields(c, l, &|i, _| if i == 0 { Some(if v1 { 0x10000 } else { 0x5000 }) } else { None }, &no_over);
    out.nontrivial = true;
    let m = maxp_from(&v);
    fixed_verdict(out, l, &v, &v, wr(0, |b| MaxpTable::write(b, &m)), |b| {
        guard(|| {
            let m2 = ReadScope::new(b).read::<MaxpTable>().map_err(|e| format!("{:?}", e))?;
            if m2 != m {
                return Err(format!("PartialEq: {:?} != {:?}", m2, m));
            }
            let w2 = wr(0, |b| MaxpTable::write(b, &m2));
            Ok((maxp_to(&m2), w2))
        })
    });
}

use allsorts::tables::os2::{FsSelection, Os2, Version0, Version1, Version2to4, Version5};

fn os2_from(v: &[i64], shape: usize) -> Os2 {
    let mut panose = [0u8; 10];
    for i in 0..10 {
        panose[i] = v[16 + i] as u8;
    }
    let mut p = 34;
    let mut take = |n: usize| {
        let s = &v[p..p + n];
        p += n;
        s.to_vec()
    };
    let version0 = if shape >= 1 {
        let s = take(5);
        Some(Version0 { s_typo_ascender: s[0] as i16, s_typo_descender: s[1] as i16, s_typo_line_gap: s[2] as i16, us_win_ascent: s[3] as u16, us_win_descent: s[4] as u16 })
    } else {
        None
    };
    let version1 = if shape >= 2 {
        let s = take(2);
        Some(Version1 { ul_code_page_range1: s[0] as u32, ul_code_page_range2: s[1] as u32 })
    } else {
        None
    };
    let version2to4 = if shape >= 3 {
        let s = take(5);
        Some(Version2to4 { sx_height: s[0] as i16, s_cap_height: s[1] as i16, us_default_char: s[2] as u16, us_break_char: s[3] as u16, us_max_context: s[4] as u16 })
    } else {
        None
    };
    let version5 = if shape >= 4 {
        let s = take(2);
        Some(Version5 { us_lower_optical_point_size: s[0] as u16, us_upper_optical_point_size: s[1] as u16 })
    } else {
        None
    };
    Os2 {
        version: v[0] as u16,
        x_avg_char_width: v[1] as i16,
        us_weight_class: v[2] as u16,
        us_width_class: v[3] as u16,
        fs_type: v[4] as u16,
        y_subscript_x_size: v[5] as i16,
        y_subscript_y_size: v[6] as i16,
        y_subscript_x_offset: v[7] as i16,
        y_subscript_y_offset: v[8] as i16,
        y_superscript_x_size: v[9] as i16,
        y_superscript_y_size: v[10] as i16,
        y_superscript_x_offset: v[11] as i16,
        y_superscript_y_offset: v[12] as i16,
        y_strikeout_size: v[13] as i16,
        y_strikeout_position: v[14] as i16,
        s_family_class: v[15] as i16,
        panose,
        ul_unicode_range1: v[26] as u32,
        ul_unicode_range2: v[27] as u32,
        ul_unicode_range3: v[28] as u32,
        ul_unicode_range4: v[29] as u32,
        ach_vend_id: v[30] as u32,
        fs_selection: FsSelection::from_bits_truncate(v[31] as u16),
        us_first_char_index: v[32] as u16,
        us_last_char_index: v[33] as u16,
        version0,
        version1,
        version2to4,
        version5,
    }
}

fn os2_to(o: &Os2) -> Vec<i64> {
    let mut v = vec![
        o.version as i64,
        o.x_avg_char_width as i64,
        o.us_weight_class as i64,
        o.us_width_class as i64,
        o.fs_type as i64,
        o.y_subscript_x_size as i64,
        o.y_subscript_y_size as i64,
        o.y_subscript_x_offset as i64,
        o.y_subscript_y_offset as i64,
        o.y_superscript_x_size as i64,
        o.y_superscript_y_size as i64,
        o.y_superscript_x_offset as i64,
        o.y_superscript_y_offset as i64,
        o.y_strikeout_size as i64,
        o.y_strikeout_position as i64,
        o.s_family_class as i64,
    ];
    v.extend(o.panose.iter().map(|x| *x as i64));
    v.extend([
        o.ul_unicode_range1 as i64,
        o.ul_unicode_range2 as i64,
        o.ul_unicode_range3 as i64,
        o.ul_unicode_range4 as i64,
        o.ach_vend_id as i64,
        o.fs_selection.bits() as i64,
        o.us_first_char_index as i64,
        o.us_last_char_index as i64,
    ]);
    if let Some(s) = &o.version0 {
        v.extend([s.s_typo_ascender as i64, s.s_typo_descender as i64, s.s_typo_line_gap as i64, s.us_win_ascent as i64, s.us_win_descent as i64]);
    }
    if let Some(s) = &o.version1 {
        v.extend([s.ul_code_page_range1 as i64, s.ul_code_page_range2 as i64]);
    }
    if let Some(s) = &o.version2to4 {
        v.extend([s.sx_height as i64, s.s_cap_height as i64, s.us_default_char as i64, s.us_break_char as i64, s.us_max_context as i64]);
    }
    if let Some(s) = &o.version5 {
        v.extend([s.us_lower_optical_point_size as i64, s.us_upper_optical_point_size as i64]);
    }
    v
}

/// OS/2: version (0 short, 0, 1, 2, 3, 4, 5) is a free choice; every other field a deviation point.
fn s_os2(c: &mut Chooser<'_>, _t: bool, out: &mut Out) {
    // (version field, shape)
    const V: [(i64, usize); 7] = [(0, 0), (0, 1), (1, 2), (2, 3), (3, 3), (4, 3), (5, 4)];
    let (version, shape) = V[c.pick(V.len())];
    let l = rt::os2_layout(shape);
    let v = fields(
        c,
        &l,
        &|i, _| if i == 0 { Some(version) } else { None },
        &|n| if n == "fsSelection" { Some(&[0, 1, 0x80, 0x200, 0x3FF]) } else { None },
    );
    let v: Vec<i64> = v.iter().enumerate().map(|(i, x)| if i == 31 { *x & 0x3FF } else { *x }).collect();
    // declared normalisation: versions 2 and 3 are written as version 4
    let mut want = v.clone();
    if version == 2 || version == 3 {
        want[0] = 4;
    }
    out.nontrivial = true;
    let o = os2_from(&v, shape);
    fixed_verdict(out, &l, &v, &want, wr(0, |b| Os2::write(b, &o)), |b| {
        guard(|| {
            let o2 = ReadScope::new(b).read_dep::<Os2>(b.len()).map_err(|e| format!("{:?}", e))?;
            let w2 = wr(0, |b| Os2::write(b, &o2));
            Ok((os2_to(&o2), w2))
        })
    });
}

use allsorts::post::{Header as PostHeader, PascalString, PostTable, SubTable as PostSubTable};

fn post_header_from(v: &[i64]) -> PostHeader {
    PostHeader {
        version: v[0] as i32,
        italic_angle: v[1] as i32,
        underline_position: v[2] as i16,
        underline_thickness: v[3] as i16,
        is_fixed_pitch: v[4] as u32,
        min_mem_type_42: v[5] as u32,
        max_mem_type_42: v[6] as u32,
        min_mem_type_1: v[7] as u32,
        max_mem_type_1: v[8] as u32,
    }
}

fn post_header_to(h: &PostHeader) -> Vec<i64> {
    vec![
        h.version as i64,
        h.italic_angle as i64,
        h.underline_position as i64,
        h.underline_thickness as i64,
        h.is_fixed_pitch as i64,
        h.min_mem_type_42 as i64,
        h.max_mem_type_42 as i64,
        h.min_mem_type_1 as i64,
        h.max_mem_type_1 as i64,
    ]
}

/// post versions 1.0, 2.5 and 3.0 (header only; allsorts does not model the 2.5 offset array)
fn s_post_hdr(c: &mut Chooser<'_>, _t: bool, out: &mut Out) {
    let version = [0x0001_0000i64, 0x0003_0000][c.pick(2)];
    let v = fields(c, rt::POST_HEADER, &|i, _| if i == 0 { Some(version) } else { None }, &no_over);
    out.nontrivial = true;
    let p = PostTable { header: post_header_from(&v), opt_sub_table: None };
    fixed_verdict(out, rt::POST_HEADER, &v, &v, wr(0, |b| PostTable::write(b, &p)), |b| {
        guard(|| {
            let p2 = ReadScope::new(b).read::<PostTable<'_>>().map_err(|e| format!("{:?}", e))?;
            if p2.opt_sub_table.is_some() {
                return Err("sub-table appeared".into());
            }
            let w2 = wr(0, |b| PostTable::write(b, &p2));
            Ok((post_header_to(&p2.header), w2))
        })
    });
}

fn s_table_record(c: &mut Chooser<'_>, _t: bool, out: &mut Out) {
    let v = fields(c, rt::TABLE_RECORD, &|_, _| None, &no_over);
    out.nontrivial = true;
    let t = TableRecord { table_tag: v[0] as u32, checksum: v[1] as u32, offset: v[2] as u32, length: v[3] as u32 };
    fixed_verdict(out, rt::TABLE_RECORD, &v, &v, wr(0, |b| TableRecord::write(b, &t)), |b| {
        guard(|| {
            let t2 = ReadScope::new(b).read::<TableRecord>().map_err(|e| format!("{:?}", e))?;
            if t2 != t {
                return Err("PartialEq".into());
            }
            let w2 = wr(0, |b| TableRecord::write(b, &t2));
            Ok((vec![t2.table_tag as i64, t2.checksum as i64, t2.offset as i64, t2.length as i64], w2))
        })
    });
}

// ---------------------------------------------------------------------------------------------
// Structures — arrays: hmtx, cvt, loca, name, post 2, cmap
// ---------------------------------------------------------------------------------------------

use allsorts::tables::loca::{owned::LocaTable as OwnedLoca, LocaOffsets, LocaTable};
use allsorts::tables::{owned as name_owned, CvtTable, LangTagRecord, NameRecord, NameTable};

const U16M: &[i64] = &[0, 1, 255, 256, 0x7FFF, 0x8000, 0xFFFF];
const I16M: &[i64] = &[0, 1, -1, 255, 256, -256, 0x7FFF, -0x8000];
const U32M: &[i64] = &[0, 1, 0xFFFF, 0x1_0000, 0xFF_FFFF, 0x100_0000, 0x7FFF_FFFF, 0x8000_0000, 0xFFFF_FFFF];

fn s_hmtx(c: &mut Chooser<'_>, _t: bool, out: &mut Out) {
    let borrowed = c.pick(2) == 1;
    let nm = [2usize, 0, 1, 3][c.dev(4)];
    let nl = [1usize, 0, 2][c.dev(3)];
    let metrics: Vec<(u16, i16)> = (0..nm).map(|i| (dv(c, 500 + i as i64, U16M) as u16, dv(c, -(20 + i as i64), I16M) as i16)).collect();
    let lsbs: Vec<i16> = (0..nl).map(|i| dv(c, 30 + i as i64, I16M) as i16).collect();
    out.nontrivial = nm + nl > 0;
    let spec = otmodel::tables::hmtx(&metrics, &lsbs);
    let (m2, l2) = (metrics.clone(), lsbs.clone());
    let case = move || json!({"borrowed": borrowed, "hMetrics": m2, "leftSideBearings": l2});
    out.describe(case.clone());
    let owned = HmtxTable {
        h_metrics: ReadArrayCow::Owned(metrics.iter().map(|(a, l)| LongHorMetric { advance_width: *a, lsb: *l }).collect()),
        left_side_bearings: ReadArrayCow::Owned(lsbs.clone()),
    };
    let src = spec.clone();
    let table = if borrowed {
        match guard(|| ReadScope::new(&src).read_dep::<HmtxTable<'_>>((nm + nl, nm))) {
            Ok(Ok(t)) => t,
            Ok(Err(e)) => return out.viol("model-bytes-do-not-parse", json!({"case": case(), "error": format!("{:?}", e)})),
            Err(p) => return out.panic("read", &p),
        }
    } else {
        owned
    };
    let w1 = wr(0, |b| HmtxTable::write(b, &table));
    model_verdict(out, &case, true, w1, Some(&spec), |_| Ok(()), |b| {
        guard(|| {
            let t2 = ReadScope::new(b).read_dep::<HmtxTable<'_>>((nm + nl, nm)).map_err(|e| format!("parse: {:?}", e))?;
            let gm: Vec<(u16, i16)> = t2.h_metrics.iter().map(|m| (m.advance_width, m.lsb)).collect();
            let gl: Vec<i16> = t2.left_side_bearings.iter().collect();
            if gm != metrics || gl != lsbs {
                return Err(format!("differs: {:?} {:?}", gm, gl));
            }
            Ok(wr(0, |b| HmtxTable::write(b, &t2)))
        })
    });
}

fn s_cvt(c: &mut Chooser<'_>, _t: bool, out: &mut Out) {
    let borrowed = c.pick(2) == 1;
    let n = [3usize, 0, 1, 2][c.dev(4)];
    let vals: Vec<i16> = (0..n).map(|i| dv(c, 100 + i as i64, I16M) as i16).collect();
    out.nontrivial = n > 0;
    let mut w = W::new();
    for v in &vals {
        w.i16(*v);
    }
    let spec = w.done();
    let v2 = vals.clone();
    let case = move || json!({"borrowed": borrowed, "values": v2});
    out.describe(case.clone());
    let src = spec.clone();
    let table = if borrowed {
        match guard(|| ReadScope::new(&src).read_dep::<CvtTable<'_>>(src.len() as u32)) {
            Ok(Ok(t)) => t,
            Ok(Err(e)) => return out.viol("model-bytes-do-not-parse", json!({"case": case(), "error": format!("{:?}", e)})),
            Err(p) => return out.panic("read", &p),
        }
    } else {
        CvtTable { values: ReadArrayCow::Owned(vals.clone()) }
    };
    let w1 = wr(0, |b| CvtTable::write(b, &table));
    model_verdict(out, &case, true, w1, Some(&spec), |_| Ok(()), |b| {
        guard(|| {
            let t2 = ReadScope::new(b).read_dep::<CvtTable<'_>>(b.len() as u32).map_err(|e| format!("parse: {:?}", e))?;
            let g: Vec<i16> = t2.values.iter().collect();
            if g != vals {
                return Err(format!("differs: {:?}", g));
            }
            Ok(wr(0, |b| CvtTable::write(b, &t2)))
        })
    });
}

/// loca as parsed (ReadArray backed): short and long
fn s_loca(c: &mut Chooser<'_>, _t: bool, out: &mut Out) {
    let long = c.pick(2) == 1;
    let n = [3usize, 1, 2, 4][c.dev(4)];
    let vals: Vec<u32> = (0..n).map(|i| dv(c, 10 * i as i64, if long { U32M } else { U16M }) as u32).collect();
    out.nontrivial = true;
    let mut w = W::new();
    for v in &vals {
        if long {
            w.u32(*v);
        } else {
            w.u16(*v as u16);
        }
    }
    let spec = w.done();
    let v2 = vals.clone();
    let case = move || json!({"long": long, "stored_offsets": v2});
    out.describe(case.clone());
    let fmt = if long { IndexToLocFormat::Long } else { IndexToLocFormat::Short };
    let src = spec.clone();
    let table = match guard(|| ReadScope::new(&src).read_dep::<LocaTable<'_>>((n - 1, fmt))) {
        Ok(Ok(t)) => t,
        Ok(Err(e)) => return out.viol("model-bytes-do-not-parse", json!({"case": case(), "error": format!("{:?}", e)})),
        Err(p) => return out.panic("read", &p),
    };
    let w1 = wr(0, |b| LocaTable::write(b, table.clone()));
    model_verdict(out, &case, true, w1, Some(&spec), |_| Ok(()), |b| {
        guard(|| {
            let t2 = ReadScope::new(b).read_dep::<LocaTable<'_>>((n - 1, fmt)).map_err(|e| format!("parse: {:?}", e))?;
            let g: Vec<u32> = match &t2.offsets {
                LocaOffsets::Short(a) => a.iter().map(u32::from).collect(),
                LocaOffsets::Long(a) => a.iter().collect(),
            };
            if g != vals {
                return Err(format!("differs: {:?}", g));
            }
            Ok(wr(0, |b| LocaTable::write(b, t2.clone())))
        })
    });
}

/// owned loca (the form produced when glyf is written): byte offsets + target format
fn s_loca_owned(c: &mut Chooser<'_>, _t: bool, out: &mut Out) {
    let long = c.pick(2) == 1;
    let n = [3usize, 0, 1, 2, 4][c.dev(5)];
    const M: &[i64] = &[0, 2, 131070, 131072, 3, 131071, 0x7FFF_FFFE, 0xFFFF_FFFE, 0xFFFF_FFFF];
    let vals: Vec<u32> = (0..n).map(|i| dv(c, 10 * i as i64, M) as u32).collect();
    // short format stores offset/2 in 16 bits: odd offsets and offsets above 131070 cannot be represented
    let fits = long || vals.iter().all(|v| v % 2 == 0 && *v <= 131070);
    out.nontrivial = true;
    let mut w = W::new();
    if fits {
        for v in &vals {
            if long {
                w.u32(*v);
            } else {
                w.u16((*v / 2) as u16);
            }
        }
    }
    let spec = w.done();
    let v2 = vals.clone();
    let case = move || json!({"target_format_long": long, "byte_offsets": v2});
    out.describe(case.clone());
    let fmt = if long { IndexToLocFormat::Long } else { IndexToLocFormat::Short };
    let w1 = wr(0, |b| OwnedLoca::write_dep(b, OwnedLoca { offsets: vals.clone() }, fmt));
    let probe = |b: &[u8]| -> Result<(), String> {
        let got: Vec<u32> = if long { b.chunks(4).map(|c| u32::from_be_bytes([c[0], c[1], c[2], c[3]])).collect() } else { b.chunks(2).map(|c| 2 * u16::from_be_bytes([c[0], c[1]]) as u32).collect() };
        if got == vals {
            Ok(())
        } else {
            Err(format!("loca decodes to byte offsets {:?}", got))
        }
    };
    model_verdict(out, &case, fits, w1, Some(&spec), probe, |b| {
        guard(|| {
            if n == 0 {
                return Ok(wr(0, |b| OwnedLoca::write_dep(b, OwnedLoca { offsets: vec![] }, fmt)));
            }
            let t2 = ReadScope::new(b).read_dep::<LocaTable<'_>>((n - 1, fmt)).map_err(|e| format!("parse: {:?}", e))?;
            let g: Vec<u32> = t2.offsets.iter().collect();
            if g != vals {
                return Err(format!("differs: {:?}", g));
            }
            Ok(wr(0, |b| OwnedLoca::write_dep(b, OwnedLoca { offsets: g.clone() }, fmt)))
        })
    });
}


fn name_model(c: &mut Chooser<'_>, thorough: bool) -> (rt::NameModel, usize) {
    let prefix = [0usize, 5][c.dev(2)];
    // record counts around the places where stringOffset (6 + 12 n) and count stop fitting 16 bits
    let nrec = [2usize, 0, 1, 3, 5460, 5461, 65535, 65536][c.dev(8)];
    let nlang: Option<usize> = [None, Some(1), Some(0), Some(2), Some(65535), Some(65536)][c.dev(if thorough { 6 } else { 6 })];
    let storage_len = [10usize, 0, 1, 65535, 65536, 70000][c.dev(6)];
    let mut records: Vec<[u16; 6]> = (0..nrec).map(|i| [3, 1, 0x409, (i % 25) as u16, 4, ((4 * i) % 8) as u16]).collect();
    for r in records.iter_mut().take(2) {
        for (j, v) in r.iter_mut().enumerate() {
            let _ = j;
            *v = dv(c, *v as i64, U16M) as u16;
        }
    }
    let langtags = nlang.map(|n| {
        let mut l: Vec<[u16; 2]> = (0..n).map(|i| [2, (i % 4) as u16]).collect();
        for r in l.iter_mut().take(1) {
            r[0] = dv(c, r[0] as i64, U16M) as u16;
            r[1] = dv(c, r[1] as i64, U16M) as u16;
        }
        l
    });
    let storage: Vec<u8> = (0..storage_len).map(|i| (i % 251) as u8).collect();
    (rt::NameModel { records, langtags, storage }, prefix)
}

fn name_case(m: &rt::NameModel, prefix: usize) -> impl Fn() -> Value + Clone + 'static {
    let (nr, nl, sl) = (m.records.len(), m.langtags.as_ref().map(|l| l.len()), m.storage.len());
    let r: Vec<[u16; 6]> = m.records.iter().take(3).cloned().collect();
    let l: Option<Vec<[u16; 2]>> = m.langtags.as_ref().map(|l| l.iter().take(2).cloned().collect());
    move || json!({"bytes_already_in_buffer": prefix, "name_records": nr, "first_records": r, "langtag_records": nl, "first_langtags": l, "storage_len": sl})
}

/// name table as parsed (ReadArray backed), with and without language tags
fn s_name(c: &mut Chooser<'_>, t: bool, out: &mut Out) {
    let (m, prefix) = name_model(c, t);
    let header = 6 + 12 * m.records.len() + m.langtags.as_ref().map_or(0, |l| 2 + 4 * l.len());
    let fits = m.records.len() <= 65535 && m.langtags.as_ref().map_or(true, |l| l.len() <= 65535) && header <= 65535;
    out.nontrivial = true;
    let case = name_case(&m, prefix);
    out.describe(case.clone());
    // the value: arrays are obtained by reading their (trivial) encodings, the table struct is assembled directly
    let mut rw = W::new();
    for r in &m.records {
        for v in r {
            rw.u16(*v);
        }
    }
    let rbytes = rw.done();
    let mut lw = W::new();
    for r in m.langtags.iter().flatten() {
        lw.u16(r[0]).u16(r[1]);
    }
    let lbytes = lw.done();
    let table = match guard(|| -> Result<NameTable<'_>, allsorts::error::ParseError> {
        Ok(NameTable {
            string_storage: ReadScope::new(&m.storage),
            name_records: ReadScope::new(&rbytes).ctxt().read_array::<NameRecord>(m.records.len())?,
            opt_langtag_records: match &m.langtags {
                Some(l) => Some(ReadScope::new(&lbytes).ctxt().read_array::<LangTagRecord>(l.len())?),
                None => None,
            },
        })
    }) {
        Ok(Ok(t)) => t,
        Ok(Err(e)) => return out.viol("model-bytes-do-not-parse", json!({"case": case(), "error": format!("{:?}", e)})),
        Err(p) => return out.panic("read", &p),
    };
    let spec = if fits { Some(rt::name_encode(&m)) } else { None };
    let w1 = wr(0, |b| NameTable::write(b, &table));
    let check = |b: &[u8]| match rt::name_decode(b) {
        Ok(g) if g == m => Ok(()),
        Ok(g) => Err(format!("decodes to {} records, {:?} langtags, {} storage bytes; first records {:?}", g.records.len(), g.langtags.as_ref().map(|l| l.len()), g.storage.len(), &g.records[..g.records.len().min(2)])),
        Err(e) => Err(e),
    };
    let b0 = model_verdict(out, &case, fits, w1, spec.as_deref(), check, |b| {
        guard(|| {
            let t2 = ReadScope::new(b).read::<NameTable<'_>>().map_err(|e| format!("parse: {:?}", e))?;
            let recs: Vec<[u16; 6]> = t2.name_records.iter().map(|r| [r.platform_id, r.encoding_id, r.language_id, r.name_id, r.length, r.offset]).collect();
            let lt: Option<Vec<[u16; 2]>> = t2.opt_langtag_records.as_ref().map(|l| l.iter().map(|r| [r.length, r.offset]).collect());
            if recs != m.records || lt != m.langtags || t2.string_storage.data() != &m.storage[..] {
                return Err(format!("differs: {} records, {:?} langtags, {} storage bytes", recs.len(), lt.map(|l| l.len()), t2.string_storage.data().len()));
            }
            Ok(wr(0, |b| NameTable::write(b, &t2)))
        })
    });
    position_check(out, &case, prefix, b0, || wr(prefix, |b| NameTable::write(b, &table)));
}

/// owned name table (strings held per record)
fn s_name_owned(c: &mut Chooser<'_>, _t: bool, out: &mut Out) {
    let prefix = [0usize, 5][c.dev(2)];
    let nrec = [2usize, 0, 1, 3, 5460, 5461, 65535, 65536][c.dev(8)];
    let nlang = [0usize, 1, 2, 65535, 65536][c.dev(5)];
    const LEN: [usize; 6] = [3, 0, 1, 40000, 65535, 65536];
    let mut recs: Vec<([u16; 4], Vec<u8>)> = (0..nrec).map(|i| ([3, 1, 0x409, (i % 25) as u16], if nrec > 3 { vec![] } else { vec![b'a' + i as u8; 3] })).collect();
    for (k, r) in recs.iter_mut().enumerate().take(3) {
        if k < 2 {
            for v in r.0.iter_mut() {
                *v = dv(c, *v as i64, U16M) as u16;
            }
        }
        let l = LEN[c.dev(LEN.len())];
        if l != 3 {
            r.1 = vec![b'A' + k as u8; l];
        }
    }
    let mut langs: Vec<Vec<u8>> = (0..nlang).map(|_| if nlang > 2 { vec![] } else { vec![0, b'e', 0, b'n'] }).collect();
    for l in langs.iter_mut().take(1) {
        let n = [4usize, 0, 65535, 65536][c.dev(4)];
        if n != 4 {
            *l = vec![b'L'; n];
        }
    }
    out.nontrivial = true;
    // expected layout
    let header = 6 + 12 * recs.len() + if langs.is_empty() { 0 } else { 2 + 4 * langs.len() };
    let mut fits = recs.len() <= 65535 && langs.len() <= 65535 && header <= 65535;
    let mut model = rt::NameModel { records: vec![], langtags: if langs.is_empty() { None } else { Some(vec![]) }, storage: vec![] };
    for (ids, s) in &recs {
        fits &= s.len() <= 65535 && model.storage.len() <= 65535;
        model.records.push([ids[0], ids[1], ids[2], ids[3], s.len() as u16, model.storage.len() as u16]);
        model.storage.extend_from_slice(s);
    }
    for s in &langs {
        fits &= s.len() <= 65535 && model.storage.len() <= 65535;
        model.langtags.as_mut().unwrap().push([s.len() as u16, model.storage.len() as u16]);
        model.storage.extend_from_slice(s);
    }
    let case = {
        let d: Vec<([u16; 4], usize)> = recs.iter().take(4).map(|(i, s)| (*i, s.len())).collect();
        let (nr, nl) = (recs.len(), langs.len());
        let ll: Vec<usize> = langs.iter().take(2).map(|l| l.len()).collect();
        move || json!({"bytes_already_in_buffer": prefix, "name_records": nr, "first_records_ids_and_string_len": d, "langtags": nl, "first_langtag_lens": ll})
    };
    out.describe(case.clone());
    let mk = || name_owned::NameTable {
        name_records: recs.iter().map(|(i, s)| name_owned::NameRecord { platform_id: i[0], encoding_id: i[1], language_id: i[2], name_id: i[3], string: std::borrow::Cow::from(s.clone()) }).collect(),
        langtag_records: langs.iter().map(|s| std::borrow::Cow::from(s.clone())).collect(),
    };
    let table = mk();
    let spec = if fits { Some(rt::name_encode(&model)) } else { None };
    let w1 = wr(0, |b| name_owned::NameTable::write(b, &table));
    let check = |b: &[u8]| match rt::name_decode(b) {
        Ok(g) if g == model => Ok(()),
        Ok(g) => Err(format!("decodes to {} records, {:?} langtags, {} storage bytes; first records {:?}", g.records.len(), g.langtags.as_ref().map(|l| l.len()), g.storage.len(), &g.records[..g.records.len().min(3)])),
        Err(e) => Err(e),
    };
    let b0 = model_verdict(out, &case, fits, w1, spec.as_deref(), check, |b| {
        guard(|| {
            let t2 = ReadScope::new(b).read::<NameTable<'_>>().map_err(|e| format!("parse: {:?}", e))?;
            let o2 = name_owned::NameTable::try_from(&t2).map_err(|e| format!("parse: owned conversion {:?}", e))?;
            let same = o2.name_records.len() == recs.len()
                && o2.name_records.iter().zip(&recs).all(|(a, (i, s))| [a.platform_id, a.encoding_id, a.language_id, a.name_id] == *i && a.string.as_ref() == &s[..])
                && o2.langtag_records.len() == langs.len()
                && o2.langtag_records.iter().zip(&langs).all(|(a, s)| a.as_ref() == &s[..]);
            if !same {
                return Err("differs: owned name table after re-read".to_string());
            }
            Ok(wr(0, |b| name_owned::NameTable::write(b, &o2)))
        })
    });
    position_check(out, &case, prefix, b0, || wr(prefix, |b| name_owned::NameTable::write(b, &table)));
}

/// post version 2.0: header + glyphNameIndex + Pascal strings
fn s_post2(c: &mut Chooser<'_>, _t: bool, out: &mut Out) {
    let n = [3usize, 0, 1, 65535, 65536][c.dev(5)];
    // name indices: 0..=257 are the standard Macintosh names, 258.. index the Pascal strings
    const IDX: &[i64] = &[0, 257, 258, 259, 260];
    let mut idx: Vec<u16> = (0..n).map(|i| if n > 3 { 0 } else { [258u16, 0, 259][i] }).collect();
    for v in idx.iter_mut().take(3) {
        *v = dv(c, *v as i64, IDX) as u16;
    }
    let n_names = idx.iter().max().map_or(0, |m| (*m as usize + 1).saturating_sub(258));
    const LEN: [usize; 5] = [5, 0, 1, 255, 256];
    let names: Vec<Vec<u8>> = (0..n_names).map(|k| vec![b'n' + k as u8; LEN[c.dev(LEN.len())]]).collect();
    let header = fields(c, rt::POST_HEADER, &|i, _| if i == 0 { Some(0x0002_0000) } else { None }, &no_over);
    let fits = n <= 65535 && names.iter().all(|s| s.len() <= 255);
    out.nontrivial = true;
    let case = {
        let (i2, nl, h) = (idx.iter().take(4).cloned().collect::<Vec<_>>(), names.iter().map(|s| s.len()).collect::<Vec<_>>(), header.clone());
        move || json!({"numGlyphs": n, "first_glyphNameIndex": i2, "pascal_string_lens": nl, "header": named(rt::POST_HEADER, &h)})
    };
    out.describe(case.clone());
    let model = rt::Post2 { header: header.clone(), glyph_name_index: idx.clone(), names: names.clone() };
    let mut iw = W::new();
    for v in &idx {
        iw.u16(*v);
    }
    let ibytes = iw.done();
    let table = match guard(|| -> Result<PostTable<'_>, allsorts::error::ParseError> {
        Ok(PostTable {
            header: post_header_from(&header),
            opt_sub_table: Some(PostSubTable { glyph_name_index: ReadScope::new(&ibytes).ctxt().read_array::<U16Be>(n)?, names: names.iter().map(|s| PascalString { bytes: s }).collect() }),
        })
    }) {
        Ok(Ok(t)) => t,
        Ok(Err(e)) => return out.viol("model-bytes-do-not-parse", json!({"case": case(), "error": format!("{:?}", e)})),
        Err(p) => return out.panic("read", &p),
    };
    let spec = if fits { Some(rt::post2_encode(&model)) } else { None };
    let w1 = wr(0, |b| PostTable::write(b, &table));
    let check = |b: &[u8]| match rt::post2_decode(b) {
        Ok(g) if g == model => Ok(()),
        Ok(g) => Err(format!("decodes to numGlyphs {} and Pascal strings of lengths {:?}", g.glyph_name_index.len(), g.names.iter().take(6).map(|s| s.len()).collect::<Vec<_>>())),
        Err(e) => Err(e),
    };
    model_verdict(out, &case, fits, w1, spec.as_deref(), check, |b| {
        guard(|| {
            let t2 = ReadScope::new(b).read::<PostTable<'_>>().map_err(|e| format!("parse: {:?}", e))?;
            let st = t2.opt_sub_table.as_ref().ok_or("differs: sub-table lost")?;
            let gi: Vec<u16> = st.glyph_name_index.iter().collect();
            let gn: Vec<Vec<u8>> = st.names.iter().map(|p| p.bytes.to_vec()).collect();
            if post_header_to(&t2.header) != header || gi != idx || gn != names {
                return Err(format!("differs: indices {:?} name lens {:?}", &gi[..gi.len().min(4)], gn.iter().map(|s| s.len()).collect::<Vec<_>>()));
            }
            Ok(wr(0, |b| PostTable::write(b, &t2)))
        })
    });
}

use allsorts::tables::cmap::{owned as cmap_owned, Cmap, CmapSubtable, EncodingId, PlatformId, SequentialMapGroup};

/// Build a cmap subtable model with deviation points. `small`: fewer deviation points (used inside the owned cmap).
fn cmap_sub_model(c: &mut Chooser<'_>, format: u16, small: bool) -> rt::CmapSub {
    match format {
        0 => {
            let language = dv(c, 0, U16M) as u16;
            let mut g: Vec<u8> = (0..256).map(|i| (i % 7) as u8).collect();
            if !small {
                for i in [0usize, 1, 255] {
                    g[i] = dv(c, g[i] as i64, menu(K::U8)) as u8;
                }
            }
            rt::CmapSub::F0 { language, glyphs: g }
        }
        4 => {
            let language = dv(c, 0, U16M) as u16;
            // 8189 segments is the most whose 16 + 8n bytes fit the 16-bit length field; 32768 overflows segCountX2
            let n = if small { [2usize, 1, 0][c.dev(3)] } else { [2usize, 1, 0, 3, 8189, 8190, 32767, 32768][c.dev(8)] };
            // glyphIdArray sizes around the point where the length field overflows (for 2 segments: 32751 fits)
            let ng = if small { [1usize, 0][c.dev(2)] } else { [1usize, 0, 3, 32751 - 4 * (n.min(3).max(2) - 2), 32752 - 4 * (n.min(3).max(2) - 2)][c.dev(5)] };
            let mut end: Vec<u16> = (0..n).map(|i| if i + 1 == n { 0xFFFF } else { (0x41 + 0x10 * i) as u16 }).collect();
            let mut start: Vec<u16> = (0..n).map(|i| if i + 1 == n { 0xFFFF } else { (0x40 + 0x10 * i) as u16 }).collect();
            let mut delta: Vec<i16> = (0..n).map(|i| if i + 1 == n { 1 } else { -(0x3F + i as i16 % 16) }).collect();
            let mut ro: Vec<u16> = vec![0; n];
            let mut glyphs: Vec<u16> = (0..ng).map(|i| (i % 5) as u16).collect();
            for i in 0..n.min(if small { 1 } else { 2 }) {
                end[i] = dv(c, end[i] as i64, U16M) as u16;
                start[i] = dv(c, start[i] as i64, U16M) as u16;
                delta[i] = dv(c, delta[i] as i64, I16M) as i16;
                ro[i] = dv(c, ro[i] as i64, U16M) as u16;
            }
            for g in glyphs.iter_mut().take(1) {
                *g = dv(c, *g as i64, U16M) as u16;
            }
            rt::CmapSub::F4 { language, end, start, delta, range_offset: ro, glyphs }
        }
        6 => {
            let language = dv(c, 0, U16M) as u16;
            let first = dv(c, 0x20, U16M) as u16;
            // 32762 entries: 10 + 2n = 65534 fits the length field, 32763 does not
            let n = if small { [3usize, 0][c.dev(2)] } else { [3usize, 0, 1, 32762, 32763, 65535, 65536][c.dev(7)] };
            let mut g: Vec<u16> = (0..n).map(|i| (i % 9) as u16).collect();
            for v in g.iter_mut().take(if small { 1 } else { 2 }) {
                *v = dv(c, *v as i64, U16M) as u16;
            }
            rt::CmapSub::F6 { language, first, glyphs: g }
        }
        10 => {
            let language = dv(c, 0, U32M) as u32;
            let start = dv(c, 0x1F600, U32M) as u32;
            let n = if small { [3usize, 0][c.dev(2)] } else { [3usize, 0, 1, 65535, 65536][c.dev(5)] };
            let mut g: Vec<u16> = (0..n).map(|i| (i % 9) as u16).collect();
            for v in g.iter_mut().take(if small { 1 } else { 2 }) {
                *v = dv(c, *v as i64, U16M) as u16;
            }
            rt::CmapSub::F10 { language, start, glyphs: g }
        }
        _ => {
            let language = dv(c, 0, U32M) as u32;
            let n = if small { [2usize, 0][c.dev(2)] } else { [2usize, 0, 1, 3, 65536][c.dev(5)] };
            let mut g: Vec<[u32; 3]> = (0..n).map(|i| [0x41 + 0x100 * i as u32, 0x50 + 0x100 * i as u32, 1 + 20 * i as u32]).collect();
            for r in g.iter_mut().take(if small { 1 } else { 2 }) {
                for v in r.iter_mut() {
                    *v = dv(c, *v as i64, U32M) as u32;
                }
            }
            rt::CmapSub::F12 { language, groups: g }
        }
    }
}

/// Does the subtable fit its own length / count fields?
fn cmap_sub_fits(m: &rt::CmapSub) -> bool {
    match m {
        rt::CmapSub::F0 { glyphs, .. } => glyphs.len() == 256,
        rt::CmapSub::F4 { start, glyphs, .. } => 16 + 8 * start.len() + 2 * glyphs.len() <= 65535,
        rt::CmapSub::F6 { glyphs, .. } => glyphs.len() <= 65535 && 10 + 2 * glyphs.len() <= 65535,
        rt::CmapSub::F10 { .. } | rt::CmapSub::F12 { .. } => true,
    }
}

fn cmap_sub_case(m: &rt::CmapSub) -> Value {
    fn head<T>(v: &[T]) -> Value
    where
        T: Clone,
        Value: From<T>,
    {
        json!({"len": v.len(), "first": v.iter().take(3).cloned().map(Value::from).collect::<Vec<Value>>()})
    }
    match m {
        rt::CmapSub::F0 { language, glyphs } => json!({"format": 0, "language": language, "glyphIdArray": head(glyphs)}),
        rt::CmapSub::F4 { language, end, start, delta, range_offset, glyphs } => json!({"format": 4, "language": language, "endCode": head(end), "startCode": head(start), "idDelta": head(delta), "idRangeOffset": head(range_offset), "glyphIdArray": head(glyphs)}),
        rt::CmapSub::F6 { language, first, glyphs } => json!({"format": 6, "language": language, "firstCode": first, "glyphIdArray": head(glyphs)}),
        rt::CmapSub::F10 { language, start, glyphs } => json!({"format": 10, "language": language, "startCharCode": start, "glyphs": head(glyphs)}),
        rt::CmapSub::F12 { language, groups } => json!({"format": 12, "language": language, "groups": {"len": groups.len(), "first": groups.iter().take(3).map(|g| json!(g)).collect::<Vec<_>>()}}),
    }
}

fn owned_sub_to_model(s: &cmap_owned::CmapSubtable) -> rt::CmapSub {
    match s {
        cmap_owned::CmapSubtable::Format0 { language, glyph_id_array } => rt::CmapSub::F0 { language: *language, glyphs: glyph_id_array.to_vec() },
        cmap_owned::CmapSubtable::Format4(f) => rt::CmapSub::F4 { language: f.language, end: f.end_codes.clone(), start: f.start_codes.clone(), delta: f.id_deltas.clone(), range_offset: f.id_range_offsets.clone(), glyphs: f.glyph_id_array.clone() },
        cmap_owned::CmapSubtable::Format6 { language, first_code, glyph_id_array } => rt::CmapSub::F6 { language: *language, first: *first_code, glyphs: glyph_id_array.clone() },
        cmap_owned::CmapSubtable::Format10 { language, start_char_code, glyph_id_array } => rt::CmapSub::F10 { language: *language, start: *start_char_code, glyphs: glyph_id_array.clone() },
        cmap_owned::CmapSubtable::Format12(f) => {
            // SequentialMapGroup has no public fields: render through its (specified) serialisation
            let mut b = WriteBuffer::new();
            for g in &f.groups {
                SequentialMapGroup::write(&mut b, *g).unwrap();
            }
            let groups = b.bytes().chunks(12).map(|c| [u32::from_be_bytes([c[0], c[1], c[2], c[3]]), u32::from_be_bytes([c[4], c[5], c[6], c[7]]), u32::from_be_bytes([c[8], c[9], c[10], c[11]])]).collect();
            rt::CmapSub::F12 { language: f.language, groups }
        }
    }
}

/// Read a borrowed subtable from bytes and turn it into the rt model through its public fields.
fn borrowed_sub_to_model(s: &CmapSubtable<'_>) -> Option<rt::CmapSub> {
    s.to_owned().map(|o| owned_sub_to_model(&o))
}

/// cmap subtables as parsed (formats 0, 4, 6, 10, 12)
fn s_cmap_sub(c: &mut Chooser<'_>, _t: bool, out: &mut Out) {
    let format = [0u16, 4, 6, 10, 12][c.pick(5)];
    let prefix = [0usize, 7][c.dev(2)];
    let m = cmap_sub_model(c, format, false);
    let fits = cmap_sub_fits(&m);
    out.nontrivial = true;
    let case = {
        let m = m.clone();
        move || json!({"bytes_already_in_buffer": prefix, "subtable": cmap_sub_case(&m)})
    };
    out.describe(case.clone());
    let spec = if fits { Some(rt::cmap_sub_encode(&m)) } else { None };
    let bufs = SubBufs::new(&m);
    let table = match guard(|| bufs.borrowed(&m)) {
        Ok(Ok(t)) => t,
        Ok(Err(e)) => return out.viol("model-bytes-do-not-parse", json!({"case": case(), "error": format!("{:?}", e)})),
        Err(p) => return out.panic("read", &p),
    };
    let w1 = wr(0, |b| CmapSubtable::write(b, &table));
    // a format 4 subtable without segments parses but lacks the mandatory final segment: refusing it is as good
    // as writing it (a panic is not)
    if matches!(&m, rt::CmapSub::F4 { start, .. } if start.is_empty()) {
        if let Ok(Err(e)) = &w1 {
            return out.tag(&format!("refused:{}", e));
        }
    }
    let check = |b: &[u8]| match rt::cmap_sub_decode(b) {
        Ok(g) if g == m => Ok(()),
        Ok(g) => Err(format!("decodes to {}", cmap_sub_case(&g))),
        Err(e) => Err(e),
    };
    let b0 = model_verdict(out, &case, fits, w1, spec.as_deref(), check, |b| {
        guard(|| {
            let t2 = ReadScope::new(b).read::<CmapSubtable<'_>>().map_err(|e| format!("parse: {:?}", e))?;
            if borrowed_sub_to_model(&t2).as_ref() != Some(&m) {
                return Err(format!("differs: {:?}", borrowed_sub_to_model(&t2).map(|g| cmap_sub_case(&g))));
            }
            Ok(wr(0, |b| CmapSubtable::write(b, &t2)))
        })
    });
    position_check(out, &case, prefix, b0, || wr(prefix, |b| CmapSubtable::write(b, &table)));
}

/// Raw array encodings from which the ReadArray fields of a borrowed subtable are obtained.
struct SubBufs {
    a: Vec<u8>,
    b: Vec<u8>,
    c: Vec<u8>,
    d: Vec<u8>,
    e: Vec<u8>,
}

fn u16s(v: &[u16]) -> Vec<u8> {
    v.iter().flat_map(|x| x.to_be_bytes()).collect()
}

impl SubBufs {
    fn new(m: &rt::CmapSub) -> SubBufs {
        let z = Vec::new;
        match m {
            rt::CmapSub::F0 { glyphs, .. } => SubBufs { a: glyphs.clone(), b: z(), c: z(), d: z(), e: z() },
            rt::CmapSub::F4 { end, start, delta, range_offset, glyphs, .. } => SubBufs { a: u16s(end), b: u16s(start), c: delta.iter().flat_map(|x| x.to_be_bytes()).collect(), d: u16s(range_offset), e: u16s(glyphs) },
            rt::CmapSub::F6 { glyphs, .. } | rt::CmapSub::F10 { glyphs, .. } => SubBufs { a: u16s(glyphs), b: z(), c: z(), d: z(), e: z() },
            rt::CmapSub::F12 { groups, .. } => SubBufs { a: groups.iter().flat_map(|g| g.iter().flat_map(|x| x.to_be_bytes())).collect(), b: z(), c: z(), d: z(), e: z() },
        }
    }

    fn borrowed<'a>(&'a self, m: &rt::CmapSub) -> Result<CmapSubtable<'a>, allsorts::error::ParseError> {
        use allsorts::tables::cmap::CmapSubtableFormat4;
        let arr16 = |b: &'a [u8]| ReadScope::new(b).ctxt().read_array::<U16Be>(b.len() / 2);
        Ok(match m {
            rt::CmapSub::F0 { language, .. } => CmapSubtable::Format0 { language: *language, glyph_id_array: ReadScope::new(&self.a).ctxt().read_array::<U8>(self.a.len())? },
            rt::CmapSub::F4 { language, .. } => CmapSubtable::Format4(CmapSubtableFormat4 {
                language: *language,
                end_codes: arr16(&self.a)?,
                start_codes: arr16(&self.b)?,
                id_deltas: ReadScope::new(&self.c).ctxt().read_array::<I16Be>(self.c.len() / 2)?,
                id_range_offsets: arr16(&self.d)?,
                glyph_id_array: arr16(&self.e)?,
            }),
            rt::CmapSub::F6 { language, first, .. } => CmapSubtable::Format6 { language: *language, first_code: *first, glyph_id_array: arr16(&self.a)? },
            rt::CmapSub::F10 { language, start, .. } => CmapSubtable::Format10 { language: *language, start_char_code: *start, glyph_id_array: arr16(&self.a)? },
            rt::CmapSub::F12 { language, .. } => CmapSubtable::Format12 { language: *language, groups: ReadScope::new(&self.a).ctxt().read_array::<SequentialMapGroup>(self.a.len() / 12)? },
        })
    }

    fn owned(&self, m: &rt::CmapSub) -> Result<cmap_owned::CmapSubtable, allsorts::error::ParseError> {
        Ok(match m {
            rt::CmapSub::F0 { language, glyphs } => {
                let mut a = Box::new([0u8; 256]);
                a.copy_from_slice(glyphs);
                cmap_owned::CmapSubtable::Format0 { language: *language, glyph_id_array: a }
            }
            rt::CmapSub::F4 { language, end, start, delta, range_offset, glyphs } => cmap_owned::CmapSubtable::Format4(cmap_owned::CmapSubtableFormat4 { language: *language, end_codes: end.clone(), start_codes: start.clone(), id_deltas: delta.clone(), id_range_offsets: range_offset.clone(), glyph_id_array: glyphs.clone() }),
            rt::CmapSub::F6 { language, first, glyphs } => cmap_owned::CmapSubtable::Format6 { language: *language, first_code: *first, glyph_id_array: glyphs.clone() },
            rt::CmapSub::F10 { language, start, glyphs } => cmap_owned::CmapSubtable::Format10 { language: *language, start_char_code: *start, glyph_id_array: glyphs.clone() },
            rt::CmapSub::F12 { language, .. } => cmap_owned::CmapSubtable::Format12(cmap_owned::CmapSubtableFormat12 { language: *language, groups: ReadScope::new(&self.a).ctxt().read_array::<SequentialMapGroup>(self.a.len() / 12)?.to_vec() }),
        })
    }
}

/// owned cmap table: encoding records with owned subtables
fn s_cmap_owned(c: &mut Chooser<'_>, t: bool, out: &mut Out) {
    cmap_owned_body(c, t, out, false)
}

/// owned cmap table at the numTables boundary (65535 records fit, 65536 do not); only the buffer state deviates
fn s_cmap_owned_count(c: &mut Chooser<'_>, t: bool, out: &mut Out) {
    cmap_owned_body(c, t, out, true)
}

fn cmap_owned_body(c: &mut Chooser<'_>, _t: bool, out: &mut Out, boundary: bool) {
    let nrec = if boundary { [65535usize, 65536][c.pick(2)] } else { 2 };
    let prefix = [0usize, 7][c.dev(2)];
    let nrec = if boundary { nrec } else { [2usize, 1, 0, 3][c.dev(4)] };
    const FMT: [u16; 5] = [4, 0, 6, 10, 12];
    let mut recs: Vec<(u16, u16, rt::CmapSub)> = Vec::with_capacity(nrec);
    for i in 0..nrec {
        if i < 3 && !boundary {
            let f = FMT[c.dev(FMT.len())];
            let p = dv(c, 3, U16M) as u16;
            let e = dv(c, 1 + i as i64, U16M) as u16;
            recs.push((p, e, cmap_sub_model(c, f, true)));
        } else {
            recs.push((0, (i % 7) as u16, rt::CmapSub::F6 { language: 0, first: i as u16, glyphs: vec![] }));
        }
    }
    let fits = nrec <= 65535 && recs.iter().all(|r| cmap_sub_fits(&r.2));
    out.nontrivial = true;
    let case = {
        let r: Vec<Value> = recs.iter().take(3).map(|(p, e, m)| json!({"platform": p, "encoding": e, "subtable": cmap_sub_case(m)})).collect();
        move || json!({"bytes_already_in_buffer": prefix, "encoding_records": nrec, "first_records": r})
    };
    out.describe(case.clone());
    let bufs: Vec<SubBufs> = recs.iter().map(|r| SubBufs::new(&r.2)).collect();
    let mk = || -> Result<cmap_owned::Cmap, allsorts::error::ParseError> {
        Ok(cmap_owned::Cmap {
            encoding_records: recs.iter().zip(&bufs).map(|((p, e, m), b)| Ok(cmap_owned::EncodingRecord { platform_id: PlatformId(*p), encoding_id: EncodingId(*e), sub_table: b.owned(m)? })).collect::<Result<Vec<_>, allsorts::error::ParseError>>()?,
        })
    };
    let table = match guard(|| mk()) {
        Ok(Ok(t)) => t,
        Ok(Err(e)) => return out.viol("model-bytes-do-not-parse", json!({"case": case(), "error": format!("{:?}", e)})),
        Err(p) => return out.panic("read", &p),
    };
    // specified layout: header, records with offsets from the start of the table, subtables in record order
    let spec = if fits {
        let mut w = W::new();
        w.u16(0).u16(nrec as u16);
        let mut off = 4 + 8 * nrec;
        let subs: Vec<Vec<u8>> = recs.iter().map(|r| rt::cmap_sub_encode(&r.2)).collect();
        for (r, s) in recs.iter().zip(&subs) {
            w.u16(r.0).u16(r.1).u32(off as u32);
            off += s.len();
        }
        for s in &subs {
            w.bytes(s);
        }
        Some(w.done())
    } else {
        None
    };
    let w1 = wr(0, |b| cmap_owned::Cmap::write(b, table.clone()));
    if recs.iter().any(|r| matches!(&r.2, rt::CmapSub::F4 { start, .. } if start.is_empty())) {
        if let Ok(Err(e)) = &w1 {
            return out.tag(&format!("refused:{}", e));
        }
    }
    let check = |b: &[u8]| -> Result<(), String> {
        let hdr = rt::cmap_header_decode(b)?;
        if hdr.len() != recs.len() {
            return Err(format!("numTables {} for {} records", hdr.len(), recs.len()));
        }
        for ((p, e, off), (wp, we, wm)) in hdr.iter().zip(&recs) {
            if (p, e) != (wp, we) {
                return Err(format!("record ids ({}, {}) expected ({}, {})", p, e, wp, we));
            }
            let sub = b.get(*off as usize..).ok_or("subtable offset outside the table")?;
            let len = rt::cmap_sub_len(sub).ok_or("no subtable at offset")?;
            let g = rt::cmap_sub_decode(sub.get(..len).ok_or("subtable length runs past the table")?)?;
            if g != *wm {
                return Err(format!("subtable at {} decodes to {}", off, cmap_sub_case(&g)));
            }
        }
        Ok(())
    };
    let b0 = model_verdict(out, &case, fits, w1, spec.as_deref(), check, |b| {
        guard(|| {
            let t2 = ReadScope::new(b).read::<Cmap<'_>>().map_err(|e| format!("parse: {:?}", e))?;
            let mut back = Vec::new();
            for r in t2.encoding_records() {
                let sub = t2.scope.offset(r.offset as usize).read::<CmapSubtable<'_>>().map_err(|e| format!("parse: subtable {:?}", e))?;
                back.push(cmap_owned::EncodingRecord { platform_id: r.platform_id, encoding_id: r.encoding_id, sub_table: sub.to_owned().ok_or("parse: to_owned")? });
            }
            let c2 = cmap_owned::Cmap { encoding_records: back };
            if c2 != table {
                return Err("differs: owned cmap after re-read (PartialEq)".to_string());
            }
            Ok(wr(0, |b| cmap_owned::Cmap::write(b, c2.clone())))
        })
    });
    position_check(out, &case, prefix, b0, || wr(prefix, |b| cmap_owned::Cmap::write(b, table.clone())));
}

// ---------------------------------------------------------------------------------------------
// glyf
// ---------------------------------------------------------------------------------------------

use allsorts::tables::glyf::{
    BoundingBox, CompositeGlyph, CompositeGlyphArgument, CompositeGlyphComponent, CompositeGlyphFlag, CompositeGlyphScale,
    GlyfRecord, GlyfTable, Glyph, Point, SimpleGlyph, SimpleGlyphFlag,
};

fn bbox_of(b: [i16; 4]) -> BoundingBox {
    BoundingBox { x_min: b[0], y_min: b[1], x_max: b[2], y_max: b[3] }
}

fn simple_value<'a>(m: &'a rt::SimpleModel) -> SimpleGlyph<'a> {
    SimpleGlyph {
        bounding_box: bbox_of(m.bbox),
        end_pts_of_contours: m.end_pts.clone(),
        instructions: &m.instructions,
        coordinates: m.points.iter().map(|(on, x, y)| (if *on { SimpleGlyphFlag::ON_CURVE_POINT } else { SimpleGlyphFlag::empty() }, Point(*x, *y))).collect(),
        phantom_points: None,
    }
}

fn simple_to_model(g: &SimpleGlyph<'_>) -> rt::SimpleModel {
    let b = g.bounding_box;
    rt::SimpleModel {
        bbox: [b.x_min, b.y_min, b.x_max, b.y_max],
        end_pts: g.end_pts_of_contours.clone(),
        instructions: g.instructions.to_vec(),
        points: g.coordinates.iter().map(|(f, p)| (f.is_on_curve(), p.0, p.1)).collect(),
    }
}

fn simple_model(c: &mut Chooser<'_>, boundary: bool) -> rt::SimpleModel {
    // 32767 contours is the most numberOfContours (int16) can state
    let nc = if boundary { [32767usize, 32768, 65535, 65536][c.pick(4)] } else { [1usize, 0, 2][c.dev(3)] };
    let per = if boundary { 1 } else { [3usize, 1, 2][c.dev(3)] };
    let ni = if boundary { 0 } else { [2usize, 0, 1, 65535, 65536][c.dev(5)] };
    let bbox = [dv(c, -5, I16M) as i16, dv(c, -6, I16M) as i16, dv(c, 700, I16M) as i16, dv(c, 800, I16M) as i16];
    let end_pts: Vec<u16> = (0..nc).map(|i| ((i + 1) * per - 1) as u16).collect();
    let n = nc * per;
    let mut points: Vec<(bool, i16, i16)> = (0..n).map(|i| (i % 2 == 0, (10 * i % 3000) as i16, (7 * i % 2000) as i16)).collect();
    for p in points.iter_mut().take(3) {
        p.0 = [p.0, !p.0][c.dev(2)];
        // coordinates whose deltas are 0, short (<= 255), long and wrapping
        p.1 = dv(c, p.1 as i64, &[0, 1, -1, 255, 256, -255, -256, 0x7FFF, -0x8000]) as i16;
        p.2 = dv(c, p.2 as i64, &[0, 1, -1, 255, 256, -255, -256, 0x7FFF, -0x8000]) as i16;
    }
    rt::SimpleModel { bbox, end_pts, instructions: vec![0xB0; ni], points }
}

fn simple_case(m: &rt::SimpleModel, source: usize) -> impl Fn() -> Value + Clone + 'static {
    let (b, nc, ni) = (m.bbox, m.end_pts.len(), m.instructions.len());
    let e: Vec<u16> = m.end_pts.iter().take(4).cloned().collect();
    let p: Vec<(bool, i16, i16)> = m.points.iter().take(6).cloned().collect();
    let np = m.points.len();
    let src = ["constructed", "parsed from 16-bit deltas", "parsed from short vectors", "parsed from short vectors with repeat flags"][source];
    move || json!({"value_source": src, "bbox": b, "contours": nc, "first_endPts": e, "instruction_len": ni, "points": np, "first_points": p})
}

fn simple_body(c: &mut Chooser<'_>, out: &mut Out, boundary: bool) {
    let source = c.pick(if boundary { 1 } else { 4 });
    let m = simple_model(c, boundary);
    let fits = m.end_pts.len() <= 32767 && m.instructions.len() <= 65535;
    out.nontrivial = true;
    let case = simple_case(&m, source);
    out.describe(case.clone());
    let enc = [rt::CoordEnc::Long, rt::CoordEnc::Long, rt::CoordEnc::Short, rt::CoordEnc::ShortRepeat][source];
    let src = if source > 0 && fits { rt::simple_encode(&m, enc) } else { vec![] };
    let value: Glyph<'_> = if source == 0 || !fits {
        Glyph::Simple(simple_value(&m))
    } else {
        match guard(|| ReadScope::new(&src).read::<Glyph<'_>>()) {
            Ok(Ok(g)) => {
                match &g {
                    Glyph::Simple(s) if simple_to_model(s) == m => {}
                    _ => return out.viol("model-bytes-read-differently", json!({"case": case(), "bytes": hexs(&src)})),
                }
                g
            }
            Ok(Err(e)) => return out.viol("model-bytes-do-not-parse", json!({"case": case(), "error": format!("{:?}", e), "bytes": hexs(&src)})),
            Err(p) => return out.panic("read", &p),
        }
    };
    let w1 = wr(0, |b| Glyph::write(b, value.clone()));
    let check = |b: &[u8]| match rt::simple_decode(b, 0) {
        Ok(g) if g == m => Ok(()),
        Ok(g) => Err(format!("decodes to {} contours, {} instruction bytes, {} points, bbox {:?}, first points {:?}", g.end_pts.len(), g.instructions.len(), g.points.len(), g.bbox, &g.points[..g.points.len().min(4)])),
        Err(e) => Err(e),
    };
    model_verdict(out, &case, fits, w1, None, check, |b| {
        guard(|| {
            let g2 = ReadScope::new(b).read::<Glyph<'_>>().map_err(|e| format!("parse: {:?}", e))?;
            match &g2 {
                Glyph::Simple(s) if simple_to_model(s) == m => {}
                _ => return Err("differs: simple glyph after re-read".to_string()),
            }
            Ok(wr(0, |b| Glyph::write(b, g2.clone())))
        })
    });
}

fn s_glyph_simple(c: &mut Chooser<'_>, _t: bool, out: &mut Out) {
    simple_body(c, out, false)
}

/// numberOfContours boundary (int16): only the bounding box deviates
fn s_glyph_simple_contours(c: &mut Chooser<'_>, _t: bool, out: &mut Out) {
    simple_body(c, out, true)
}

/// `placement`: None = the general family (WE_HAVE_INSTRUCTIONS on the last component when there are
/// instructions); Some((n, mask)) = exactly n components, instructions present by default, and the flag on
/// exactly the components whose bit is set in `mask` (the reader takes the glyph as instructed when ANY component
/// carries it, so every non-empty placement is a well-formed value).
fn composite_model(c: &mut Chooser<'_>, placement: Option<(usize, u32)>) -> rt::CompositeModel {
    let n = match placement {
        Some((n, _)) => n,
        None => [2usize, 1, 3][c.dev(3)],
    };
    let bbox = [dv(c, -5, I16M) as i16, dv(c, -6, I16M) as i16, dv(c, 700, I16M) as i16, dv(c, 800, I16M) as i16];
    let instr: Option<usize> = match placement {
        Some(_) => [Some(2usize), Some(1), Some(0), Some(65535), Some(65536)][c.dev(5)],
        None => [None, Some(0), Some(2), Some(65535), Some(65536)][c.dev(5)],
    };
    let mut comps = Vec::new();
    for i in 0..n {
        // default: signed byte xy offsets, no transform
        let argk = [rt::ARGS_XY, rt::ARGS_XY | rt::ARG_WORDS, 0, rt::ARG_WORDS][c.dev(4)];
        let (sk, ns) = [(0u16, 0usize), (rt::HAVE_SCALE, 1), (rt::HAVE_XY_SCALE, 2), (rt::HAVE_2X2, 4)][c.dev(4)];
        let extra = [0u16, 0x0004, 0x0200, 0x0400, 0x0800, 0x1000][c.dev(6)];
        let glyph = dv(c, 3 + i as i64, U16M) as u16;
        let am: &[i64] = match (argk & rt::ARG_WORDS != 0, argk & rt::ARGS_XY != 0) {
            (true, true) => I16M,
            (true, false) => U16M,
            (false, true) => &[0, 1, -1, 127, -128],
            (false, false) => &[0, 1, 127, 128, 255],
        };
        let arg1 = dv(c, 5 + i as i64, am) as i32;
        let arg2 = dv(c, 9 + i as i64, am) as i32;
        let scale: Vec<i16> = (0..ns).map(|k| dv(c, 0x4000 - 0x100 * k as i64, I16M) as i16).collect();
        let mut flags = argk | sk | extra;
        if i + 1 < n {
            flags |= rt::MORE;
        }
        let flagged = match placement {
            Some((_, mask)) => mask >> i & 1 == 1,
            None => i + 1 == n && instr.is_some(),
        };
        if flagged {
            flags |= rt::HAVE_INSTR;
        }
        comps.push(rt::Component { flags, glyph, arg1, arg2, scale });
    }
    rt::CompositeModel { bbox, components: comps, instructions: instr.map(|n| vec![0xB0; n]) }
}

fn composite_value<'a>(m: &'a rt::CompositeModel) -> CompositeGlyph<'a> {
    CompositeGlyph {
        bounding_box: bbox_of(m.bbox),
        glyphs: m
            .components
            .iter()
            .map(|k| {
                let arg = |v: i32| match (k.flags & rt::ARG_WORDS != 0, k.flags & rt::ARGS_XY != 0) {
                    (true, true) => CompositeGlyphArgument::I16(v as i16),
                    (true, false) => CompositeGlyphArgument::U16(v as u16),
                    (false, true) => CompositeGlyphArgument::I8(v as i8),
                    (false, false) => CompositeGlyphArgument::U8(v as u8),
                };
                let f = |v: i16| F2Dot14::from_raw(v);
                CompositeGlyphComponent {
                    flags: CompositeGlyphFlag::from_bits_truncate(k.flags),
                    glyph_index: k.glyph,
                    argument1: arg(k.arg1),
                    argument2: arg(k.arg2),
                    scale: match k.scale.len() {
                        1 => Some(CompositeGlyphScale::Scale(f(k.scale[0]))),
                        2 => Some(CompositeGlyphScale::XY { x_scale: f(k.scale[0]), y_scale: f(k.scale[1]) }),
                        4 => Some(CompositeGlyphScale::Matrix([[f(k.scale[0]), f(k.scale[1])], [f(k.scale[2]), f(k.scale[3])]])),
                        _ => None,
                    },
                }
            })
            .collect(),
        instructions: m.instructions.as_deref().unwrap_or(&[]),
        phantom_points: None,
    }
}

fn composite_to_model(g: &CompositeGlyph<'_>) -> rt::CompositeModel {
    let b = g.bounding_box;
    let mut instr = false;
    let components = g
        .glyphs
        .iter()
        .map(|k| {
            instr |= k.flags.bits() & rt::HAVE_INSTR != 0;
            let arg = |a: CompositeGlyphArgument| match a {
                CompositeGlyphArgument::U8(v) => v as i32,
                CompositeGlyphArgument::I8(v) => v as i32,
                CompositeGlyphArgument::U16(v) => v as i32,
                CompositeGlyphArgument::I16(v) => v as i32,
            };
            rt::Component {
                flags: k.flags.bits(),
                glyph: k.glyph_index,
                arg1: arg(k.argument1),
                arg2: arg(k.argument2),
                scale: match k.scale {
                    None => vec![],
                    Some(CompositeGlyphScale::Scale(s)) => vec![s.raw_value()],
                    Some(CompositeGlyphScale::XY { x_scale, y_scale }) => vec![x_scale.raw_value(), y_scale.raw_value()],
                    Some(CompositeGlyphScale::Matrix(m)) => vec![m[0][0].raw_value(), m[0][1].raw_value(), m[1][0].raw_value(), m[1][1].raw_value()],
                },
            }
        })
        .collect();
    rt::CompositeModel { bbox: [b.x_min, b.y_min, b.x_max, b.y_max], components, instructions: if instr { Some(g.instructions.to_vec()) } else { None } }
}

fn composite_case(m: &rt::CompositeModel, parsed: bool) -> impl Fn() -> Value + Clone + 'static {
    let m2 = rt::CompositeModel { bbox: m.bbox, components: m.components.clone(), instructions: None };
    let il = m.instructions.as_ref().map(|i| i.len());
    move || json!({"value_source": if parsed { "parsed" } else { "constructed" }, "bbox": m2.bbox, "instruction_len": il, "components": m2.components.iter().map(|k| json!({"flags": format!("{:#06x}", k.flags), "glyph": k.glyph, "arg1": k.arg1, "arg2": k.arg2, "scale_f2dot14": k.scale})).collect::<Vec<_>>()})
}

fn s_glyph_composite(c: &mut Chooser<'_>, _t: bool, out: &mut Out) {
    composite_body(c, out, false)
}

/// composites with 2 and 3 components and instructions: every non-empty placement pattern of
/// WE_HAVE_INSTRUCTIONS over the components (first only, middle only, last only, first+last, ... all) is a free
/// choice, as constructed value and parsed from the independent encoding
fn s_glyph_composite_instr(c: &mut Chooser<'_>, _t: bool, out: &mut Out) {
    composite_body(c, out, true)
}

fn composite_body(c: &mut Chooser<'_>, out: &mut Out, placements: bool) {
    let parsed = c.pick(2) == 1;
    let placement = if placements {
        let n = 2 + c.pick(2);
        Some((n, 1 + c.pick((1 << n) - 1) as u32))
    } else {
        None
    };
    let m = composite_model(c, placement);
    let fits = m.instructions.as_ref().map_or(true, |i| i.len() <= 65535);
    out.nontrivial = true;
    let case = composite_case(&m, parsed);
    out.describe(case.clone());
    let src = if parsed && fits { rt::composite_encode(&m) } else { vec![] };
    let value: Glyph<'_> = if !parsed || !fits {
        Glyph::Composite(composite_value(&m))
    } else {
        match guard(|| ReadScope::new(&src).read::<Glyph<'_>>()) {
            Ok(Ok(g)) => {
                match &g {
                    Glyph::Composite(k) if composite_to_model(k) == m => {}
                    _ => return out.viol("model-bytes-read-differently", json!({"case": case(), "bytes": hexs(&src)})),
                }
                g
            }
            Ok(Err(e)) => return out.viol("model-bytes-do-not-parse", json!({"case": case(), "error": format!("{:?}", e), "bytes": hexs(&src)})),
            Err(p) => return out.panic("read", &p),
        }
    };
    let spec = if fits { Some(rt::composite_encode(&m)) } else { None };
    let w1 = wr(0, |b| Glyph::write(b, value.clone()));
    let check = |b: &[u8]| match rt::composite_decode(b, 0) {
        Ok(g) if g == m => Ok(()),
        Ok(g) => Err(format!("decodes to {:?} instruction bytes and components {:?}", g.instructions.as_ref().map(|i| i.len()), g.components)),
        Err(e) => Err(e),
    };
    model_verdict(out, &case, fits, w1, spec.as_deref(), check, |b| {
        guard(|| {
            let g2 = ReadScope::new(b).read::<Glyph<'_>>().map_err(|e| format!("parse: {:?}", e))?;
            if g2 != value {
                return Err(format!("differs: {:?}", g2));
            }
            Ok(wr(0, |b| Glyph::write(b, g2.clone())))
        })
    });
}

/// One glyf record of a table model.
#[derive(Clone, Debug, PartialEq)]
enum RecM {
    Empty,
    Simple(rt::SimpleModel),
    Composite(rt::CompositeModel),
}

/// glyf table + the loca it produces, short and long
fn s_glyf_table(c: &mut Chooser<'_>, _t: bool, out: &mut Out) {
    let long = c.pick(2) == 1;
    let prefix = [0usize, 3][c.dev(2)];
    let n = [3usize, 1, 2, 4][c.dev(4)];
    // record kinds: parsed simple, empty, parsed composite, unparsed (Present) simple, unparsed with odd length,
    // unparsed records sized so that the table ends exactly at / just beyond the last offset the short loca can state
    let mut kinds = Vec::new();
    let mut recs: Vec<RecM> = Vec::new();
    for i in 0..n {
        let k = c.dev(7);
        kinds.push(k);
        let base = rt::SimpleModel { bbox: [0, 0, 10, 10], end_pts: vec![2], instructions: vec![], points: vec![(true, 0, 0), (true, 10 + i as i16, 0), (false, 5, 300)] };
        recs.push(match k {
            0 | 3 => RecM::Simple(base),
            1 => RecM::Empty,
            2 => RecM::Composite(rt::CompositeModel { bbox: [0, 0, 5, 5], components: vec![rt::Component { flags: rt::ARGS_XY, glyph: 0, arg1: 1, arg2: -1, scale: vec![] }], instructions: None }),
            4 => RecM::Simple(rt::SimpleModel { instructions: vec![1], ..base }),
            // 65510-byte / 65512-byte records: two of them reach 131020/131024 ...
            5 => RecM::Simple(rt::SimpleModel { instructions: vec![7; 65500], ..base }),
            _ => RecM::Simple(rt::SimpleModel { instructions: vec![7; 65535], ..base }),
        });
    }
    out.nontrivial = true;
    let case = {
        let k = kinds.clone();
        move || {
            let names = ["parsed simple", "empty", "parsed composite", "unparsed simple", "unparsed simple of odd length", "unparsed simple with 65500 instruction bytes", "parsed simple with 65535 instruction bytes"];
            let kn: Vec<&str> = k.iter().map(|k| names[*k]).collect();
            json!({"indexToLocFormat": if long { "long" } else { "short" }, "bytes_already_in_buffer": prefix, "record_kinds": kn})
        }
    };
    out.describe(case.clone());
    // record encodings (unparsed records hold these bytes; parsed ones are written by allsorts)
    let encs: Vec<Vec<u8>> = recs
        .iter()
        .map(|r| match r {
            RecM::Empty => vec![],
            RecM::Simple(m) => rt::simple_encode(m, rt::CoordEnc::Long),
            RecM::Composite(m) => rt::composite_encode(m),
        })
        .collect();
    let fmt = if long { IndexToLocFormat::Long } else { IndexToLocFormat::Short };
    let total: usize = encs.iter().map(|e| if long { e.len() } else { e.len() + e.len() % 2 }).sum();
    let fits = long || total <= 131070;
    let mk = || -> Result<GlyfTable<'_>, String> {
        let records = recs
            .iter()
            .zip(&encs)
            .zip(&kinds)
            .map(|((r, e), k)| match (r, k) {
                (RecM::Empty, _) => GlyfRecord::empty(),
                (RecM::Simple(_), 3 | 4 | 5) => GlyfRecord::Present { number_of_contours: 1, scope: ReadScope::new(e) },
                (RecM::Simple(m), _) => GlyfRecord::Parsed(Glyph::Simple(simple_value(m))),
                (RecM::Composite(m), _) => GlyfRecord::Parsed(Glyph::Composite(composite_value(m))),
            })
            .collect();
        GlyfTable::new(records).map_err(|e| format!("{:?}", e))
    };
    // write glyf, then the loca it returns
    let write_all = |prefix: usize| {
        guard(|| -> Result<(Vec<u8>, Vec<u8>), String> {
            let table = mk()?;
            let mut buf = WriteBuffer::new();
            buf.write_bytes(&vec![0xA5; prefix]).unwrap();
            let loca = GlyfTable::write_dep(&mut buf, table, fmt).map_err(|e| format!("glyf: {:?}", e))?;
            let mut lb = WriteBuffer::new();
            OwnedLoca::write_dep(&mut lb, loca, fmt).map_err(|e| format!("loca: {:?}", e))?;
            Ok((buf.bytes()[prefix..].to_vec(), lb.into_inner()))
        })
    };
    let before = out.viol.len();
    let w1 = write_all(0);
    let (glyf, loca) = match w1 {
        Err(p) => return out.panic("write", &p),
        Ok(Err(e)) => {
            if fits {
                out.viol("valid-value-refused", json!({"case": case(), "error": e}));
            } else {
                out.tag(&format!("refused:{}", e));
            }
            return;
        }
        Ok(Ok(x)) => x,
    };
    out.seen(&glyf);
    out.seen(&loca);
    // independent decode: loca -> record slices -> models
    let offs: Vec<usize> = if long { loca.chunks(4).map(|c| u32::from_be_bytes([c[0], c[1], c[2], c[3]]) as usize).collect() } else { loca.chunks(2).map(|c| 2 * u16::from_be_bytes([c[0], c[1]]) as usize).collect() };
    let indep = || -> Result<(), String> {
        if offs.len() != n + 1 {
            return Err(format!("loca has {} entries for {} glyphs", offs.len(), n));
        }
        if *offs.last().unwrap() != glyf.len() {
            return Err(format!("last loca offset {} but glyf has {} bytes", offs.last().unwrap(), glyf.len()));
        }
        for (i, r) in recs.iter().enumerate() {
            let s = glyf.get(offs[i]..offs[i + 1]).ok_or_else(|| format!("loca range {}..{} outside glyf", offs[i], offs[i + 1]))?;
            let slack = if long { 0 } else { 1 };
            let ok = match r {
                RecM::Empty => s.is_empty(),
                RecM::Simple(m) => rt::simple_decode(s, slack).map_or(false, |g| g == *m),
                RecM::Composite(m) => rt::composite_decode(s, slack).map_or(false, |g| g == *m),
            };
            if !ok {
                return Err(format!("glyph {} at {}..{} does not decode to its model", i, offs[i], offs[i + 1]));
            }
        }
        Ok(())
    };
    if !fits {
        out.viol("oversize-value-written", json!({"case": case(), "glyf_len": glyf.len(), "loca": hexs(&loca), "independent_decoder_sees": indep().err()}));
        return;
    }
    if let Err(e) = indep() {
        out.viol("independent-decode-of-written-bytes-disagrees", json!({"case": case(), "glyf": hexs(&glyf), "loca": hexs(&loca), "disagreement": e}));
        return;
    }
    // re-read with allsorts and write again
    let r = guard(|| -> Result<(Vec<u8>, Vec<u8>), String> {
        let l2 = ReadScope::new(&loca).read_dep::<LocaTable<'_>>((n, fmt)).map_err(|e| format!("parse: loca {:?}", e))?;
        let mut g2 = ReadScope::new(&glyf).read_dep::<GlyfTable<'_>>(&l2).map_err(|e| format!("parse: glyf {:?}", e))?;
        if g2.num_glyphs() as usize != n {
            return Err(format!("differs: {} glyphs", g2.num_glyphs()));
        }
        for (i, r) in recs.iter().enumerate() {
            let g = g2.get_parsed_glyph(i as u16).map_err(|e| format!("parse: glyph {} {:?}", i, e))?;
            let ok = match (r, g) {
                (RecM::Empty, Glyph::Empty(_)) => true,
                (RecM::Simple(m), Glyph::Simple(s)) => simple_to_model(s) == *m,
                (RecM::Composite(m), Glyph::Composite(k)) => composite_to_model(k) == *m,
                _ => false,
            };
            if !ok {
                return Err(format!("differs: glyph {} re-read as {:?}", i, g));
            }
        }
        let mut buf = WriteBuffer::new();
        let loca = GlyfTable::write_dep(&mut buf, g2, fmt).map_err(|e| format!("second: glyf {:?}", e))?;
        let mut lb = WriteBuffer::new();
        OwnedLoca::write_dep(&mut lb, loca, fmt).map_err(|e| format!("second: loca {:?}", e))?;
        Ok((buf.into_inner(), lb.into_inner()))
    });
    match r {
        Err(p) => out.panic("read", &p),
        Ok(Err(e)) => {
            let k = if e.starts_with("parse:") {
                "written-bytes-do-not-parse"
            } else if e.starts_with("second:") {
                "second-write-refused"
            } else {
                "reread-differs"
            };
            out.viol(k, json!({"case": case(), "error": e, "glyf": hexs(&glyf), "loca": hexs(&loca)}));
        }
        Ok(Ok((g2, l2))) => {
            if g2 != glyf || l2 != loca {
                out.viol("second-write-differs", json!({"case": case(), "first_glyf": hexs(&glyf), "second_glyf": hexs(&g2), "first_loca": hexs(&loca), "second_loca": hexs(&l2)}));
            }
        }
    }
    if prefix > 0 && out.viol.len() == before {
        match write_all(prefix) {
            Err(p) => out.panic("write", &p),
            Ok(Err(e)) => out.viol("output-depends-on-bytes-already-in-buffer", json!({"case": case(), "refused": e})),
            Ok(Ok((g, l))) => {
                if g != glyf || l != loca {
                    out.viol("output-depends-on-bytes-already-in-buffer", json!({"case": case(), "glyf_into_empty_buffer": hexs(&glyf), "glyf_into_nonempty_buffer": hexs(&g), "loca_into_empty_buffer": hexs(&loca), "loca_into_nonempty_buffer": hexs(&l)}));
                }
            }
        }
    }
}

// ---------------------------------------------------------------------------------------------
// Structures — CFF / CFF2 / ItemVariationStore
// ---------------------------------------------------------------------------------------------

use allsorts::cff::cff2::{self, CFF2};
use allsorts::cff::{
    CustomCharset, CustomEncoding, Dict, DictDefault, DictDelta, FDSelect, FontDict, IndexU16, Operand, Operator, PrivateDict,
    Range, CFF, MAX_OPERANDS,
};
use allsorts::tables::variable_fonts::ItemVariationStore;
use rt::{Tok, DictModel};

/// Render an allsorts DICT as an rt model (Integer and Offset operands are both integers).
fn dict_to_model<T: DictDefault>(d: &Dict<T>) -> DictModel {
    d.iter()
        .map(|(o, operands)| {
            (
                *o as u16,
                operands
                    .iter()
                    .map(|x| match x {
                        Operand::Integer(v) | Operand::Offset(v) => Tok::Int(*v),
                        Operand::Real(r) => {
                            // Real's bytes are private: take them from its Debug rendering "Real([30, 10, ...])"
                            let s = format!("{:?}", r);
                            let inner = s.trim_start_matches("Real(").trim_end_matches(')').trim_matches(|c| c == '[' || c == ']');
                            Tok::Real(inner.split(',').filter_map(|t| t.trim().parse::<u8>().ok()).collect())
                        }
                    })
                    .collect(),
            )
        })
        .collect()
}

/// CFF DICT integer operands: every value of the menu is one execution (free choice, no deviation bound)
fn s_cff_int(c: &mut Chooser<'_>, thorough: bool, out: &mut Out) {
    let span: i64 = if thorough { 70000 } else { 1200 };
    let edges: [i64; 14] = [-32770, -32769, -32768, -32767, 32766, 32767, 32768, 32769, i32::MIN as i64, i32::MIN as i64 + 1, i32::MAX as i64 - 1, i32::MAX as i64, 65535, 65536];
    let n = (2 * span + 1) as usize + edges.len();
    let k = c.pick(n);
    let v = if k < edges.len() { edges[k] } else { (k - edges.len()) as i64 - span } as i32;
    let offset = c.pick(2) == 1;
    out.nontrivial = true;
    let case = move || json!({"operand": if offset { "Offset" } else { "Integer" }, "value": v});
    out.describe(case);
    let operand = if offset { Operand::Offset(v) } else { Operand::Integer(v) };
    // an Offset operand only re-reads as an Offset behind an operator that takes one (Subrs)
    let (operator, opcode) = if offset { (Operator::Subrs, rt::op::SUBRS) } else { (Operator::BlueValues, rt::op::BLUE_VALUES) };
    let w1 = wr(0, |b| {
        Operand::write(b, &operand)?;
        Operator::write(b, operator)
    });
    let check = |b: &[u8]| match rt::dict_tokens(b) {
        Ok(t) if t.len() == 2 && t[0].0 == Tok::Int(v) && t[1].0 == Tok::Op(opcode) => {
            // an Integer must use the shortest form, an Offset the five byte form (TN5176 table 3 / allsorts' stated policy)
            let want = if offset {
                5
            } else {
                let mut w = W::new();
                rt::int_encode(v, rt::IntForm::Shortest, &mut w);
                w.len()
            };
            if t[0].1 == want {
                Ok(())
            } else {
                Err(format!("operand occupies {} bytes, expected {}", t[0].1, want))
            }
        }
        Ok(t) => Err(format!("decodes to {:?}", t)),
        Err(e) => Err(e),
    };
    model_verdict(out, &case, true, w1, None, check, |b| {
        guard(|| {
            let d = ReadScope::new(b).read_dep::<PrivateDict>(MAX_OPERANDS).map_err(|e| format!("parse: {:?}", e))?;
            if dict_to_model(&d) != vec![(opcode, vec![Tok::Int(v)])] || !matches!(d.iter().next(), Some((_, o)) if o.len() == 1 && o[0].is_offset() == offset) {
                return Err(format!("differs: {:?}", d));
            }
            Ok(wr(0, |b| PrivateDict::write_dep(b, &d, DictDelta::new()).map(|_| ())))
        })
    });
}

/// real operands: every packed-BCD byte string of up to `len` bytes over the nibble alphabet, terminated properly
/// or not; the value is obtained by reading, written back and compared byte for byte
fn s_cff_real(c: &mut Chooser<'_>, thorough: bool, out: &mut Out) {
    // nibbles: digits 0, 1, 9; '.', 'E', 'E-', reserved, '-', end
    const NIB: [u8; 9] = [0, 1, 9, 0xA, 0xB, 0xC, 0xD, 0xE, 0xF];
    let maxlen = if thorough { 3 } else { 2 };
    let len = 1 + c.pick(maxlen);
    let mut body = Vec::new();
    for _ in 0..len {
        let hi = NIB[c.pick(9)];
        let lo = NIB[c.pick(9)];
        body.push(hi << 4 | lo);
    }
    // cut at the first terminator (what follows would be a different token); append one when missing
    let mut real: Vec<u8> = Vec::new();
    for b in &body {
        real.push(*b);
        if b >> 4 == 0xF || b & 0xF == 0xF {
            break;
        }
    }
    let terminated = real.last().map_or(false, |b| b >> 4 == 0xF || b & 0xF == 0xF);
    if !terminated {
        real.push(0xFF);
    }
    if real.len() != body.len() + if terminated { 0 } else { 1 } {
        // a prefix of another enumerated string
        out.skip("duplicate");
        return;
    }
    out.nontrivial = true;
    let r2 = real.clone();
    let case = move || json!({"real_bytes": mcx::hex(&r2), "text": rt::real_text(&r2)});
    out.describe(case.clone());
    let mut src = vec![30u8];
    src.extend_from_slice(&real);
    src.push(rt::op::STD_HW as u8);
    let d = match guard(|| ReadScope::new(&src).read_dep::<PrivateDict>(MAX_OPERANDS)) {
        Ok(Ok(d)) => d,
        Ok(Err(_)) => return out.skip("does-not-parse"),
        Err(p) => return out.panic("read", &p),
    };
    let want: DictModel = vec![(rt::op::STD_HW, vec![Tok::Real(real.clone())])];
    if dict_to_model(&d) != want {
        return out.viol("model-bytes-read-differently", json!({"case": case(), "read": format!("{:?}", d)}));
    }
    let w1 = wr(0, |b| PrivateDict::write_dep(b, &d, DictDelta::new()).map(|_| ()));
    let check = |b: &[u8]| match rt::dict_decode(b) {
        Ok(g) if g == want => Ok(()),
        Ok(g) => Err(format!("decodes to {:?}", g)),
        Err(e) => Err(e),
    };
    model_verdict(out, &case, true, w1, Some(&src), check, |b| {
        guard(|| {
            let d2 = ReadScope::new(b).read_dep::<PrivateDict>(MAX_OPERANDS).map_err(|e| format!("parse: {:?}", e))?;
            if d2 != d {
                return Err(format!("differs: {:?}", d2));
            }
            Ok(wr(0, |b| PrivateDict::write_dep(b, &d2, DictDelta::new()).map(|_| ())))
        })
    });
}

const INTM: &[i64] = &[0, 1, -1, 107, 108, -107, -108, 1131, 1132, -1131, -1132, 32767, 32768, -32768, -32769, 0x7FFF_FFFF, -0x8000_0000];

fn real(bytes: &[u8]) -> Tok {
    Tok::Real(bytes.to_vec())
}

/// A deviation point over operand tokens: integers at the encoding edges and reals of several shapes.
fn dv_tok(c: &mut Chooser<'_>, default: Tok, extra: &[Tok]) -> Tok {
    // reals: "0", "1", ".5", "-1.5E-3", "1E5", seven bytes, nine bytes (beyond the inline capacity of the Real type)
    const REALS: [&[u8]; 7] = [&[0x0F], &[0x1F], &[0xA5, 0xFF], &[0xE1, 0xA5, 0xC3, 0xFF], &[0x1B, 0x5F], &[0x12, 0x34, 0x56, 0x78, 0x9A, 0x12, 0x3F], &[0x12, 0x34, 0x56, 0x78, 0x9A, 0x12, 0x34, 0x56, 0x7F]];
    let k = c.dev(1 + INTM.len() + REALS.len() + extra.len());
    if k == 0 {
        default
    } else if k <= INTM.len() {
        Tok::Int(INTM[k - 1] as i32)
    } else if k <= INTM.len() + REALS.len() {
        real(REALS[k - 1 - INTM.len()])
    } else {
        extra[k - 1 - INTM.len() - REALS.len()].clone()
    }
}

fn form_of(c: &mut Chooser<'_>) -> rt::IntForm {
    [rt::IntForm::Shortest, rt::IntForm::Short, rt::IntForm::Long][c.dev(3)]
}

/// Private DICT with deviation points on operands, operand counts and spelled-out defaults
fn private_model(c: &mut Chooser<'_>, cff2: bool, with_subrs: bool) -> DictModel {
    use rt::op::*;
    let nblue = [4usize, 0, 2, 14, 48, 49][c.dev(6)];
    let mut d: DictModel = Vec::new();
    let mut blues: Vec<Tok> = (0..nblue).map(|i| Tok::Int([-15, 15, 485, 15][i % 4])).collect();
    for t in blues.iter_mut().take(2) {
        *t = dv_tok(c, t.clone(), &[]);
    }
    d.push((BLUE_VALUES, blues));
    d.push((STD_HW, vec![dv_tok(c, Tok::Int(80), &[])]));
    // BlueScale: absent by default; deviations spell the default 0.039625 in two ways, or another value
    match c.dev(4) {
        0 => {}
        1 => d.push((BLUE_SCALE, vec![real(&[0x0A, 0x03, 0x96, 0x25, 0xFF])])),
        2 => d.push((BLUE_SCALE, vec![real(&[0xA0, 0x39, 0x62, 0x5F])])),
        _ => d.push((BLUE_SCALE, vec![real(&[0xA0, 0x5F])])),
    }
    // BlueShift: default 7 spelled as integer, as real "7", or a non-default
    match c.dev(4) {
        0 => {}
        1 => d.push((BLUE_SHIFT, vec![Tok::Int(7)])),
        2 => d.push((BLUE_SHIFT, vec![real(&[0x7F])])),
        _ => d.push((BLUE_SHIFT, vec![Tok::Int(8)])),
    }
    if !cff2 {
        // defaultWidthX / nominalWidthX: 0 is the default
        d.push((DEFAULT_WIDTH_X, vec![dv_tok(c, Tok::Int(500), &[])]));
        d.push((NOMINAL_WIDTH_X, vec![dv_tok(c, Tok::Int(600), &[])]));
    } else {
        match c.dev(3) {
            0 => {}
            1 => d.push((VSINDEX, vec![Tok::Int(0)])),
            _ => d.push((VSINDEX, vec![Tok::Int(1)])),
        }
    }
    if with_subrs {
        d.push((SUBRS, vec![Tok::Int(0)]));
    }
    d
}

/// stand-alone DICTs (Private, Font, CFF2 Private): bytes -> value -> bytes
fn s_cff_dict(c: &mut Chooser<'_>, _t: bool, out: &mut Out) {
    let kind = [rt::DictKind::Private, rt::DictKind::Private2, rt::DictKind::Font][c.pick(3)];
    let form = form_of(c);
    let m: DictModel = match kind {
        rt::DictKind::Font => vec![(rt::op::FONT_NAME, vec![dv_tok(c, Tok::Int(391), &[])]), (rt::op::FONT_MATRIX, (0..6).map(|i| dv_tok(c, if i % 3 == 0 { real(&[0xA0, 0x01, 0xFF]) } else { Tok::Int(0) }, &[])).collect())],
        k => private_model(c, k == rt::DictKind::Private2, false),
    };
    out.nontrivial = true;
    let src = rt::dict_encode(&m, form);
    let (m2, s2) = (m.clone(), src.clone());
    let case = move || json!({"dict": format!("{:?}", kind), "integer_form": format!("{:?}", form), "entries": format!("{:?}", m2), "bytes": mcx::hex(&s2)});
    out.describe(case.clone());
    macro_rules! go {
        ($t:ty) => {{
            let d = match guard(|| ReadScope::new(&src).read_dep::<$t>(MAX_OPERANDS)) {
                Ok(Ok(d)) => d,
                Ok(Err(_)) => return out.skip("does-not-parse"),
                Err(p) => return out.panic("read", &p),
            };
            if dict_to_model(&d) != m {
                return out.viol("model-bytes-read-differently", json!({"case": case(), "read": format!("{:?}", d)}));
            }
            let w1 = wr(0, |b| <$t>::write_dep(b, &d, DictDelta::new()).map(|_| ()));
            let check = |b: &[u8]| rt::dict_decode(b).and_then(|g| rt::dict_equal_modulo_defaults(kind, &m, &g));
            model_verdict(out, &case, true, w1, None, check, |b| {
                guard(|| {
                    let d2 = ReadScope::new(b).read_dep::<$t>(MAX_OPERANDS).map_err(|e| format!("parse: {:?}", e))?;
                    rt::dict_equal_modulo_defaults(kind, &m, &dict_to_model(&d2)).map_err(|e| format!("differs: {}", e))?;
                    Ok(wr(0, |b| <$t>::write_dep(b, &d2, DictDelta::new()).map(|_| ())))
                })
            });
        }};
    }
    match kind {
        rt::DictKind::Private => go!(PrivateDict),
        rt::DictKind::Private2 => go!(cff2::PrivateDict),
        _ => go!(FontDict),
    }
}

/// INDEX (16-bit count and CFF2's 32-bit count): object counts and data sizes at the offSize switch points
fn s_cff_index(c: &mut Chooser<'_>, thorough: bool, out: &mut Out) {
    let wide = c.pick(2) == 1;
    let count = [2usize, 0, 1, 3, 255, 256, 65535, 65536][c.dev(if wide { 8 } else { 7 })];
    // size of object 0: total data 254/255 and 65534/65535 are the last sizes with offSize 1 / 2 (offsets start at 1)
    let rest = count.saturating_sub(1) * 1;
    let sizes: Vec<usize> = {
        let mut v = vec![3, 0, 1, 254usize.saturating_sub(rest), 255usize.saturating_sub(rest), 65534usize.saturating_sub(rest), 65535usize.saturating_sub(rest)];
        if thorough {
            v.push(0xFF_FFFE - rest);
            v.push(0xFF_FFFF - rest);
        }
        v
    };
    let s0 = sizes[c.dev(sizes.len())];
    let off_extra = c.dev(3); // 0: minimal offSize, 1: one larger, 2: four
    let objects: Vec<Vec<u8>> = (0..count).map(|i| if i == 0 { (0..s0).map(|k| (k % 253) as u8).collect() } else { vec![(i % 251) as u8] }).collect();
    let total: usize = objects.iter().map(|o| o.len()).sum();
    let min = rt::off_size_for(total + 1);
    let os = match off_extra {
        0 => 0,
        1 => (min + 1).min(4),
        _ => 4,
    };
    out.nontrivial = count > 0;
    let case = move || json!({"count_width": if wide { 32 } else { 16 }, "count": count, "object0_len": s0, "data_len": total, "offSize": if os == 0 { min } else { os }});
    out.describe(case.clone());
    let src = rt::index_encode(&objects, if wide { 4 } else { 2 }, os);
    let cw = if wide { 4 } else { 2 };
    let check = |b: &[u8]| match rt::index_decode(b, cw) {
        Ok(g) if g.objects == objects && g.len == b.len() => Ok(()),
        Ok(g) => Err(format!("decodes to {} objects, {} bytes used of {}", g.objects.len(), g.len, b.len())),
        Err(e) => Err(e),
    };
    macro_rules! go {
        ($t:ty) => {{
            let idx = match guard(|| ReadScope::new(&src).read::<$t>()) {
                Ok(Ok(d)) => d,
                Ok(Err(e)) => return out.viol("model-bytes-do-not-parse", json!({"case": case(), "error": format!("{:?}", e)})),
                Err(p) => return out.panic("read", &p),
            };
            if idx.count != count || !idx.iter().zip(&objects).all(|(a, b)| a == &b[..]) {
                return out.viol("model-bytes-read-differently", json!({"case": case()}));
            }
            let w1 = wr(0, |b| <$t>::write(b, &idx));
            // CFF2: the count field is 32 bits wide but the writer refuses more than 65535 objects
            if wide && count > 65535 {
                if let Ok(Err(e)) = &w1 {
                    return out.viol("cff2-index-with-more-than-65535-objects-refused", json!({"case": case(), "error": e}));
                }
            }
            model_verdict(out, &case, true, w1, Some(&src), check, |b| {
                guard(|| {
                    let i2 = ReadScope::new(b).read::<$t>().map_err(|e| format!("parse: {:?}", e))?;
                    if i2.count != count || !i2.iter().zip(&objects).all(|(a, b)| a == &b[..]) {
                        return Err("differs: INDEX objects".to_string());
                    }
                    Ok(wr(0, |b| <$t>::write(b, &i2)))
                })
            });
        }};
    }
    if wide {
        go!(allsorts::cff::IndexU32)
    } else {
        go!(IndexU16)
    }
}

fn s_cff_charset(c: &mut Chooser<'_>, _t: bool, out: &mut Out) {
    let fmt = c.pick(3);
    let parsed = c.pick(2) == 1;
    let n = [3usize, 0, 1, 2][c.dev(4)];
    let m = match fmt {
        0 => rt::CharsetModel::F0((0..n).map(|i| dv(c, 400 + i as i64, U16M) as u16).collect()),
        1 => rt::CharsetModel::F1((0..n).map(|i| (dv(c, 400 + 10 * i as i64, U16M) as u16, dv(c, 2, menu(K::U8)) as u8)).collect()),
        _ => rt::CharsetModel::F2((0..n).map(|i| (dv(c, 400 + 10 * i as i64, U16M) as u16, dv(c, 2, &[0, 1, 255, 256, 1000]) as u16)).collect()),
    };
    out.nontrivial = n > 0;
    let m2 = m.clone();
    let case = move || json!({"value_source": if parsed { "parsed" } else { "constructed" }, "charset": format!("{:?}", m2)});
    out.describe(case.clone());
    let spec = rt::charset_encode(&m);
    let n_glyphs = m.covered() + 1;
    let value = if parsed {
        match guard(|| ReadScope::new(&spec).read_dep::<CustomCharset<'_>>(n_glyphs)) {
            Ok(Ok(v)) => v,
            Ok(Err(e)) => return out.viol("model-bytes-do-not-parse", json!({"case": case(), "error": format!("{:?}", e)})),
            Err(p) => return out.panic("read", &p),
        }
    } else {
        match &m {
            rt::CharsetModel::F0(g) => CustomCharset::Format0 { glyphs: ReadArrayCow::Owned(g.clone()) },
            rt::CharsetModel::F1(r) => CustomCharset::Format1 { ranges: ReadArrayCow::Owned(r.iter().map(|(f, n)| Range { first: *f, n_left: *n }).collect()) },
            rt::CharsetModel::F2(r) => CustomCharset::Format2 { ranges: ReadArrayCow::Owned(r.iter().map(|(f, n)| Range { first: *f, n_left: *n }).collect()) },
        }
    };
    let to_model = |v: &CustomCharset<'_>| match v {
        CustomCharset::Format0 { glyphs } => rt::CharsetModel::F0(glyphs.iter().collect()),
        CustomCharset::Format1 { ranges } => rt::CharsetModel::F1(ranges.iter().map(|r| (r.first, r.n_left)).collect()),
        CustomCharset::Format2 { ranges } => rt::CharsetModel::F2(ranges.iter().map(|r| (r.first, r.n_left)).collect()),
    };
    let w1 = wr(0, |b| CustomCharset::write(b, &value));
    let check = |b: &[u8]| match rt::charset_decode(b, n_glyphs) {
        Ok((g, used)) if g == m && used == b.len() => Ok(()),
        Ok((g, used)) => Err(format!("decodes to {:?} using {} of {} bytes", g, used, b.len())),
        Err(e) => Err(e),
    };
    model_verdict(out, &case, true, w1, Some(&spec), check, |b| {
        guard(|| {
            let v2 = ReadScope::new(b).read_dep::<CustomCharset<'_>>(n_glyphs).map_err(|e| format!("parse: {:?}", e))?;
            if to_model(&v2) != m {
                return Err(format!("differs: {:?}", to_model(&v2)));
            }
            Ok(wr(0, |b| CustomCharset::write(b, &v2)))
        })
    });
}

fn s_cff_encoding(c: &mut Chooser<'_>, _t: bool, out: &mut Out) {
    let fmt = c.pick(2);
    // nCodes / nRanges is a Card8: 255 entries fit, 256 do not
    let n = [3usize, 0, 1, 255, 256][c.dev(5)];
    let m = match fmt {
        0 => rt::EncodingModel::F0((0..n).map(|i| if i < 2 { dv(c, 65 + i as i64, menu(K::U8)) as u8 } else { (i % 256) as u8 }).collect()),
        _ => rt::EncodingModel::F1((0..n).map(|i| if i < 2 { (dv(c, 65 + 8 * i as i64, menu(K::U8)) as u8, dv(c, 3, menu(K::U8)) as u8) } else { ((i % 256) as u8, 0) }).collect()),
    };
    let fits = n <= 255;
    out.nontrivial = true;
    let m2 = m.clone();
    let case = move || json!({"entries": n, "encoding": format!("{:?}", m2).chars().take(200).collect::<String>()});
    out.describe(case.clone());
    let raw: Vec<u8> = match &m {
        rt::EncodingModel::F0(v) => v.clone(),
        rt::EncodingModel::F1(v) => v.iter().flat_map(|(a, b)| [*a, *b]).collect(),
    };
    let value = match guard(|| -> Result<CustomEncoding<'_>, allsorts::error::ParseError> {
        Ok(match &m {
            rt::EncodingModel::F0(_) => CustomEncoding::Format0 { codes: ReadScope::new(&raw).ctxt().read_array::<U8>(n)? },
            rt::EncodingModel::F1(_) => CustomEncoding::Format1 { ranges: ReadScope::new(&raw).ctxt().read_array::<Range<u8, u8>>(n)? },
        })
    }) {
        Ok(Ok(v)) => v,
        Ok(Err(e)) => return out.viol("model-bytes-do-not-parse", json!({"case": case(), "error": format!("{:?}", e)})),
        Err(p) => return out.panic("read", &p),
    };
    let to_model = |v: &CustomEncoding<'_>| match v {
        CustomEncoding::Format0 { codes } => rt::EncodingModel::F0(codes.iter().collect()),
        CustomEncoding::Format1 { ranges } => rt::EncodingModel::F1(ranges.iter().map(|r| (r.first, r.n_left)).collect()),
    };
    let spec = if fits { Some(rt::encoding_encode(&m)) } else { None };
    let w1 = wr(0, |b| CustomEncoding::write(b, &value));
    let check = |b: &[u8]| match rt::encoding_decode(b) {
        Ok((g, used)) if g == m && used == b.len() => Ok(()),
        Ok((g, used)) => Err(format!("decodes to {} entries using {} of {} bytes", match &g { rt::EncodingModel::F0(v) => v.len(), rt::EncodingModel::F1(v) => v.len() }, used, b.len())),
        Err(e) => Err(e),
    };
    model_verdict(out, &case, fits, w1, spec.as_deref(), check, |b| {
        guard(|| {
            let v2 = ReadScope::new(b).read::<CustomEncoding<'_>>().map_err(|e| format!("parse: {:?}", e))?;
            if to_model(&v2) != m {
                return Err("differs: encoding after re-read".to_string());
            }
            Ok(wr(0, |b| CustomEncoding::write(b, &v2)))
        })
    });
}

fn fdselect_value<'a>(m: &rt::FdSelectModel) -> FDSelect<'a> {
    match m {
        rt::FdSelectModel::F0(v) => FDSelect::Format0 { glyph_font_dict_indices: ReadArrayCow::Owned(v.clone()) },
        rt::FdSelectModel::F3(r, s) => FDSelect::Format3 { ranges: ReadArrayCow::Owned(r.iter().map(|(f, fd)| Range { first: *f, n_left: *fd }).collect()), sentinel: *s },
    }
}

fn fdselect_to_model(v: &FDSelect<'_>) -> rt::FdSelectModel {
    match v {
        FDSelect::Format0 { glyph_font_dict_indices } => rt::FdSelectModel::F0(glyph_font_dict_indices.iter().collect()),
        FDSelect::Format3 { ranges, sentinel } => rt::FdSelectModel::F3(ranges.iter().map(|r| (r.first, r.n_left)).collect(), *sentinel),
    }
}

fn s_cff_fdselect(c: &mut Chooser<'_>, _t: bool, out: &mut Out) {
    let fmt = c.pick(2);
    let parsed = c.pick(2) == 1;
    let m = if fmt == 0 {
        let n = [3usize, 0, 1, 65535, 65536][c.dev(5)];
        rt::FdSelectModel::F0((0..n).map(|i| if i < 2 { dv(c, i as i64 + 1, menu(K::U8)) as u8 } else { 0 }).collect())
    } else {
        // nRanges is a Card16
        let n = [2usize, 0, 1, 65535, 65536][c.dev(5)];
        let r = (0..n).map(|i| if i < 2 { (dv(c, 5 * i as i64, U16M) as u16, dv(c, i as i64, menu(K::U8)) as u8) } else { (i as u16, 0) }).collect();
        rt::FdSelectModel::F3(r, dv(c, 70, U16M) as u16)
    };
    let (n_entries, fits) = match &m {
        rt::FdSelectModel::F0(v) => (v.len(), true),
        rt::FdSelectModel::F3(r, _) => (r.len(), r.len() <= 65535),
    };
    let parsed = parsed && fits;
    out.nontrivial = true;
    let m2 = m.clone();
    let case = move || json!({"value_source": if parsed { "parsed" } else { "constructed" }, "entries": n_entries, "fdselect": format!("{:?}", m2).chars().take(160).collect::<String>()});
    out.describe(case.clone());
    let spec = if fits { Some(rt::fdselect_encode(&m)) } else { None };
    let value = if parsed {
        match guard(|| ReadScope::new(spec.as_ref().unwrap()).read_dep::<FDSelect<'_>>(n_entries)) {
            Ok(Ok(v)) => v,
            Ok(Err(e)) => return out.viol("model-bytes-do-not-parse", json!({"case": case(), "error": format!("{:?}", e)})),
            Err(p) => return out.panic("read", &p),
        }
    } else {
        fdselect_value(&m)
    };
    let w1 = wr(0, |b| FDSelect::write(b, &value));
    let check = |b: &[u8]| match rt::fdselect_decode(b, n_entries) {
        Ok((g, used)) if g == m && used == b.len() => Ok(()),
        Ok((_, used)) => Err(format!("decodes differently, using {} of {} bytes", used, b.len())),
        Err(e) => Err(e),
    };
    model_verdict(out, &case, fits, w1, spec.as_deref(), check, |b| {
        guard(|| {
            let v2 = ReadScope::new(b).read_dep::<FDSelect<'_>>(n_entries).map_err(|e| format!("parse: {:?}", e))?;
            if fdselect_to_model(&v2) != m {
                return Err("differs: FDSelect after re-read".to_string());
            }
            Ok(wr(0, |b| FDSelect::write(b, &v2)))
        })
    });
}

fn ivs_model(c: &mut Chooser<'_>, small: bool) -> rt::IvsModel {
    let axis_count = [2u16, 0, 1][c.dev(3)];
    let nreg = [2usize, 0, 1, 3][c.dev(4)];
    let regions: Vec<Vec<[i16; 3]>> = (0..nreg)
        .map(|r| (0..axis_count).map(|a| if r == 0 && a == 0 && !small { [dv(c, 0, I16M) as i16, dv(c, 0x4000, I16M) as i16, dv(c, 0x4000, I16M) as i16] } else { [0, 0x2000 + 0x100 * r as i16, 0x4000] }).collect())
        .collect();
    let ndata = [1usize, 0, 2][c.dev(3)];
    let data = (0..ndata)
        .map(|d| {
            let item_count = [2u16, 0, 1][c.dev(3)];
            let nri = [2usize, 0, 1][c.dev(3)];
            // word delta count: one word + rest bytes, none, all words, long words
            let wdc = [1u16, 0, nri as u16, 0x8001][c.dev(4)].min(0x8000 | nri as u16);
            let wdc = if wdc & 0x7FFF > nri as u16 { nri as u16 } else { wdc };
            let mut m = rt::IvdModel { item_count, word_delta_count: wdc, region_indexes: (0..nri).map(|i| i as u16).collect(), delta_sets: vec![] };
            if !small {
                for v in m.region_indexes.iter_mut().take(1) {
                    *v = dv(c, *v as i64, U16M) as u16;
                }
            }
            // per the specification wordDeltaCount <= regionIndexCount: row = words then bytes
            let row = {
                let words = (wdc & 0x7FFF) as usize;
                let shorts = nri - words;
                if wdc & 0x8000 != 0 { 4 * words + 2 * shorts } else { 2 * words + shorts }
            };
            m.delta_sets = (0..row * item_count as usize).map(|i| (d * 16 + i + 1) as u8).collect();
            m
        })
        .collect();
    rt::IvsModel { axis_count, regions, data }
}

/// Independent decode of an IVS as allsorts *reads* it (row length = (regionIndexCount + wordCount) [* 2]).
fn ivs_rows_agree(m: &rt::IvsModel) -> bool {
    m.data.iter().all(|d| d.row_len() * d.item_count as usize == d.delta_sets.len())
}

/// Known systematic deviation K1 of `ItemVariationStore::write`: variationRegionListOffset is written as a 16-bit
/// field (the format has Offset32), everything after it moves up by two bytes and all offsets are two smaller than
/// in the specified layout. Returns the specified layout when `b` is exactly that deviation applied to it.
fn ivs_undo_offset16(b: &[u8]) -> Option<Vec<u8>> {
    let mut r = otmodel::be::R::new(b);
    let format = r.u16()?;
    let off = r.u16()? as u32;
    let n = r.u16()?;
    let offs: Vec<u32> = (0..n).map(|_| r.u32()).collect::<Option<_>>()?;
    let mut w = W::new();
    w.u16(format).u32(off + 2).u16(n);
    for o in offs {
        w.u32(o.checked_add(2)?);
    }
    w.bytes(&b[r.p..]);
    Some(w.done())
}

/// ItemVariationStore
fn s_ivs(c: &mut Chooser<'_>, _t: bool, out: &mut Out) {
    let prefix = [0usize, 6][c.dev(2)];
    let m = ivs_model(c, false);
    out.nontrivial = true;
    let m2 = m.clone();
    let case = move || json!({"bytes_already_in_buffer": prefix, "ivs": format!("{:?}", m2)});
    out.describe(case.clone());
    if !ivs_rows_agree(&m) {
        return out.skip("inconsistent-model");
    }
    let src = rt::ivs_encode(&m);
    let v = match guard(|| ReadScope::new(&src).read::<ItemVariationStore<'_>>()) {
        Ok(Ok(v)) => v,
        Ok(Err(e)) => return out.viol("model-bytes-do-not-parse", json!({"case": case(), "error": format!("{:?}", e), "bytes": hexs(&src)})),
        Err(p) => return out.panic("read", &p),
    };
    let spec = rt::ivs_encode(&m);
    let mut w1 = wr(0, |b| ItemVariationStore::write(b, &v));
    // deviation switch K1: attribute exactly this departure to its own key and carry on with the repaired bytes
    let mut k1 = false;
    if let Ok(Ok(b)) = &w1 {
        if *b != spec {
            if let Some(fixed) = ivs_undo_offset16(b) {
                if fixed == spec {
                    out.viol("variationRegionListOffset-written-as-16-bit-field", json!({"case": case(), "written": hexs(b), "specified_layout": hexs(&spec)}));
                    w1 = Ok(Ok(fixed));
                    k1 = true;
                }
            }
        }
    }
    let check = |b: &[u8]| match rt::ivs_decode(b) {
        Ok(g) if g == m => Ok(()),
        Ok(g) => Err(format!("decodes to {:?}", g)),
        Err(e) => Err(e),
    };
    let undo = |r: Result<Wr, PanicInfo>| match r {
        Ok(Ok(b)) if k1 => Ok(Ok(ivs_undo_offset16(&b).unwrap_or(b))),
        r => r,
    };
    let before = out.viol.len();
    let b0 = model_verdict(out, &case, true, w1, Some(&spec), check, |b| {
        guard(|| {
            let v2 = ReadScope::new(b).read::<ItemVariationStore<'_>>().map_err(|e| format!("parse: {:?}", e))?;
            Ok(undo(wr(0, |b| ItemVariationStore::write(b, &v2))))
        })
    });
    let b0 = if out.viol.len() == before { b0.or(Some(spec.clone())) } else { None };
    position_check(out, &case, prefix, b0, || undo(wr(prefix, |b| ItemVariationStore::write(b, &v))));
}

// whole CFF tables ------------------------------------------------------------------------------

fn ints(v: &[i32]) -> Vec<Tok> {
    v.iter().map(|x| Tok::Int(*x)).collect()
}

fn small_private(k: usize, subrs: bool) -> rt::PrivDigest {
    let mut dict: DictModel = vec![(rt::op::BLUE_VALUES, ints(&[-10 - k as i32, 0, 500, 510])), (rt::op::STD_HW, ints(&[70 + k as i32]))];
    if subrs {
        dict.push((rt::op::SUBRS, ints(&[0])));
    }
    rt::PrivDigest { dict, subrs: if subrs { Some(vec![vec![11], vec![k as u8, 11]]) } else { None } }
}

/// Post-read edits through the public `MaybeOwnedIndex::replace` (turn the INDEX into its owned form, whose
/// writer chooses offSize itself).
const EDIT_SIZES: [usize; 6] = [1, 0, 254, 255, 65534, 65535];

fn cff_font_model(c: &mut Chooser<'_>, cid: bool) -> (rt::CffDigest, rt::BuildOpts) {
    use rt::op::*;
    let minor = [0u8, 1, 255][c.dev(3)];
    let hdr_size = [4u8, 6][c.dev(2)];
    let off_size = [2u8, 1, 3, 4][c.dev(4)];
    let form = form_of(c);
    let index_off_size = [0u8, 4][c.dev(2)];
    let strings: Vec<Vec<u8>> = match c.dev(4) {
        0 => vec![b"Regular".to_vec(), b"Some Font".to_vec()],
        1 => vec![],
        2 => vec![vec![b'x'; 300]],
        _ => vec![vec![], b"y".to_vec(), vec![b'z'; 65536]],
    };
    let gsubrs: Vec<Vec<u8>> = match c.dev(4) {
        0 => vec![vec![11]],
        1 => vec![],
        2 => vec![vec![11], vec![0x8B, 11]],
        _ => vec![vec![11; 300]],
    };
    let nglyphs = [3usize, 1, 2][c.dev(3)];
    let charstrings: Vec<Vec<u8>> = (0..nglyphs).map(|i| vec![0x8B + i as u8, 14]).collect();
    let mut top: DictModel = Vec::new();
    if cid {
        top.push((ROS, ints(&[391, 392, 0])));
    }
    match c.dev(3) {
        0 => top.push((FULL_NAME, ints(&[391]))),
        1 => {}
        _ => top.push((VERSION, vec![dv_tok(c, Tok::Int(392), &[])])),
    }
    // FontBBox: non-default / spelled-out default / absent
    match c.dev(3) {
        0 => top.push((FONT_BBOX, ints(&[-50, -200, 1000, 900]))),
        1 => top.push((FONT_BBOX, ints(&[0, 0, 0, 0]))),
        _ => {}
    }
    // other spelled-out defaults
    match c.dev(4) {
        0 => {}
        1 => top.push((UNDERLINE_POSITION, ints(&[-100]))),
        2 => top.push((CHARSTRING_TYPE, ints(&[2]))),
        _ => top.push((FONT_MATRIX, vec![real(&[0x0A, 0x00, 0x1F]), Tok::Int(0), Tok::Int(0), real(&[0x0A, 0x00, 0x1F]), Tok::Int(0), Tok::Int(0)])),
    }
    // a Top DICT long enough to need 2-byte offsets in the Top DICT INDEX
    if c.dev(2) == 1 {
        top.push((XUID, (0..48).map(|i| Tok::Int(100000 + i)).collect()));
    }
    let n1 = nglyphs - 1;
    let charset = match c.dev(7) {
        0 => rt::CharsetD::Custom(rt::CharsetModel::F0((0..n1).map(|i| 392 + i as u16).collect())),
        1 => rt::CharsetD::Predefined(0), // operator absent
        2 => {
            top.push((CHARSET, ints(&[0])));
            rt::CharsetD::Predefined(0)
        }
        3 => {
            top.push((CHARSET, ints(&[1])));
            rt::CharsetD::Predefined(1)
        }
        4 => {
            top.push((CHARSET, ints(&[2])));
            rt::CharsetD::Predefined(2)
        }
        5 => rt::CharsetD::Custom(rt::CharsetModel::F1(if n1 > 0 { vec![(392, (n1 - 1) as u8)] } else { vec![] })),
        _ => rt::CharsetD::Custom(rt::CharsetModel::F2(if n1 > 0 { vec![(392, (n1 - 1) as u16)] } else { vec![] })),
    };
    if matches!(charset, rt::CharsetD::Custom(_)) {
        top.push((CHARSET, ints(&[0])));
    }
    let mut encoding = None;
    let mut private = None;
    let mut fdarray = Vec::new();
    let mut fdselect = None;
    if !cid {
        encoding = Some(match c.dev(5) {
            0 => rt::EncodingD::Predefined(0), // operator absent
            1 => {
                top.push((ENCODING, ints(&[0])));
                rt::EncodingD::Predefined(0)
            }
            2 => {
                top.push((ENCODING, ints(&[1])));
                rt::EncodingD::Predefined(1)
            }
            3 => {
                top.push((ENCODING, ints(&[0])));
                rt::EncodingD::Custom(rt::EncodingModel::F0((0..n1).map(|i| 65 + i as u8).collect()))
            }
            _ => {
                top.push((ENCODING, ints(&[0])));
                rt::EncodingD::Custom(rt::EncodingModel::F1(vec![(65, n1.saturating_sub(1) as u8)]))
            }
        });
        top.push((CHAR_STRINGS, ints(&[0])));
        let subrs = c.dev(2) == 0;
        let dict = private_model(c, false, subrs);
        private = Some(rt::PrivDigest { dict, subrs: if subrs { Some(vec![vec![11], vec![0x8C, 11]]) } else { None } });
        top.push((PRIVATE, ints(&[0, 0])));
    } else {
        match c.dev(3) {
            0 => top.push((CID_COUNT, ints(&[nglyphs as i32]))),
            1 => top.push((CID_COUNT, ints(&[8720]))), // spelled-out default
            _ => {}
        }
        top.push((CHAR_STRINGS, ints(&[0])));
        let nfd = [2usize, 1][c.dev(2)];
        for k in 0..nfd {
            let fd: DictModel = vec![(FONT_NAME, ints(&[393 + k as i32])), (PRIVATE, ints(&[0, 0]))];
            fdarray.push((fd, small_private(k, k == 0)));
        }
        top.push((FD_ARRAY, ints(&[0])));
        fdselect = Some(match c.dev(2) {
            0 => rt::FdSelectModel::F3(vec![(0, 0)], nglyphs as u16),
            _ => rt::FdSelectModel::F0((0..nglyphs).map(|i| (i % nfd) as u8).collect()),
        });
        top.push((FD_SELECT, ints(&[0])));
    }
    let font = rt::FontDigest { top, charstrings, charset, encoding, private, fdarray, fdselect };
    (rt::CffDigest { minor, off_size, names: vec![b"TestFont".to_vec()], strings, gsubrs, fonts: vec![font] }, rt::BuildOpts { hdr_size, form, index_off_size })
}

fn cff_case(d: &rt::CffDigest, o: &rt::BuildOpts, edit: Option<(usize, usize)>, prefix: usize) -> impl Fn() -> Value + Clone + 'static {
    let f = &d.fonts[0];
    let top = format!("{:?}", f.top);
    let (minor, off_size, o2) = (d.minor, d.off_size, *o);
    let strings: Vec<usize> = d.strings.iter().map(|s| s.len()).collect();
    let gsubrs: Vec<usize> = d.gsubrs.iter().map(|s| s.len()).collect();
    let (charset, encoding, ng) = (format!("{:?}", f.charset), format!("{:?}", f.encoding), f.charstrings.len());
    let private = format!("{:?}", f.private.as_ref().map(|p| &p.dict));
    let (nfd, fdsel) = (f.fdarray.len(), format!("{:?}", f.fdselect));
    move || json!({"bytes_already_in_buffer": prefix, "header": {"minor": minor, "offSize": off_size, "hdrSize": o2.hdr_size}, "source_encoding": format!("{:?}", o2), "string_index_object_lens": strings, "global_subr_lens": gsubrs, "glyphs": ng, "top_dict": top, "charset": charset, "encoding": encoding, "private_dict": private, "font_dicts": nfd, "fdselect": fdsel, "edit_after_read_(index,object_len)": edit})
}

/// whole CFF table (Type 1 flavoured and CID-keyed)
fn s_cff_font(c: &mut Chooser<'_>, _t: bool, out: &mut Out) {
    let cid = c.pick(2) == 1;
    let prefix = [0usize, 9][c.dev(2)];
    let (mut d, opts) = cff_font_model(c, cid);
    // edit after reading: 0 none, 1.. replace object 0 of (global subrs | charstrings) with an object of EDIT_SIZES[k]
    let edit = match c.dev(1 + 2 * EDIT_SIZES.len()) {
        0 => None,
        k => Some(((k - 1) / EDIT_SIZES.len(), EDIT_SIZES[(k - 1) % EDIT_SIZES.len()])),
    };
    out.nontrivial = true;
    let case = cff_case(&d, &opts, edit, prefix);
    out.describe(case.clone());
    let src = rt::cff_build(&d, &opts);
    let too_many_operands = d.fonts[0].private.as_ref().map_or(false, |p| p.dict.iter().any(|e| e.1.len() > 48));
    let mut v = match guard(|| ReadScope::new(&src).read::<CFF<'_>>()) {
        Ok(Ok(v)) => v,
        Ok(Err(_)) if too_many_operands => return out.skip("does-not-parse"),
        Ok(Err(e)) => return out.viol("model-bytes-do-not-parse", json!({"case": case(), "error": format!("{:?}", e), "bytes": hexs(&src)})),
        Err(p) => return out.panic("read", &p),
    };
    if let Some((which, size)) = edit {
        let obj: Vec<u8> = (0..size).map(|i| (i % 249) as u8).collect();
        if which == 0 {
            if d.gsubrs.is_empty() {
                return out.skip("edit-not-applicable");
            }
            v.global_subr_index.replace(0, obj.clone());
            d.gsubrs[0] = obj;
        } else {
            v.fonts[0].char_strings_index.replace(0, obj.clone());
            d.fonts[0].charstrings[0] = obj;
        }
    }
    let w1 = wr(0, |b| CFF::write(b, &v));
    // deviation switch K3: a Top DICT that spells out the default `0 charset` is sized without that entry but
    // written with it: the Top DICT INDEX placeholder is too small (Err(PlaceholderMismatch), or a slice panic in
    // WriteSlice::write_bytes, which bounds-checks against the placeholder length but not against its own offset)
    let explicit_default_charset = d.fonts[0].charset == rt::CharsetD::Predefined(0) && d.fonts[0].top.iter().any(|e| e.0 == rt::op::CHARSET);
    if explicit_default_charset {
        let how = match &w1 {
            Err(p) if p.file.ends_with("binary/write.rs") => Some(format!("panic: {} at {}", p.msg, p.loc())),
            Ok(Err(e)) if e == "PlaceholderMismatch" => Some(format!("Err({})", e)),
            _ => None,
        };
        if let Some(how) = how {
            out.viol("top-dict-with-explicit-default-charset-cannot-be-written", json!({"case": case(), "result": how, "source_bytes": hexs(&src)}));
            return;
        }
    }
    let check = |b: &[u8]| rt::cff_parse(b).and_then(|g| rt::cff_equiv(&d, &g));
    let b0 = model_verdict(out, &case, true, w1, None, check, |b| {
        guard(|| {
            let v2 = ReadScope::new(b).read::<CFF<'_>>().map_err(|e| format!("parse: {:?}", e))?;
            Ok(wr(0, |b| CFF::write(b, &v2)))
        })
    });
    position_check(out, &case, prefix, b0, || wr(prefix, |b| CFF::write(b, &v)));
}

/// whole CFF2 table
fn s_cff2_font(c: &mut Chooser<'_>, _t: bool, out: &mut Out) {
    use rt::op::*;
    let with_subrs = c.pick(2) == 0;
    let prefix = [0usize, 9][c.dev(2)];
    let minor = [0u8, 1, 255][c.dev(3)];
    let hdr_size = [5u8, 7][c.dev(2)];
    let form = form_of(c);
    let index_off_size = [0u8, 4][c.dev(2)];
    let gsubrs: Vec<Vec<u8>> = match c.dev(4) {
        0 => vec![vec![11]],
        1 => vec![],
        2 => vec![vec![11], vec![0x8B, 11]],
        _ => vec![vec![11; 300]],
    };
    let nglyphs = [3usize, 1, 2][c.dev(3)];
    let charstrings: Vec<Vec<u8>> = (0..nglyphs).map(|i| vec![0x8B + i as u8]).collect();
    let mut top: DictModel = Vec::new();
    match c.dev(3) {
        0 => {}
        1 => top.push((FONT_MATRIX, vec![real(&[0x0A, 0x00, 0x1F]), Tok::Int(0), Tok::Int(0), real(&[0x0A, 0x00, 0x1F]), Tok::Int(0), Tok::Int(0)])),
        _ => top.push((FONT_MATRIX, vec![real(&[0xA0, 0x02, 0xFF]), Tok::Int(0), Tok::Int(0), real(&[0xA0, 0x02, 0xFF]), Tok::Int(0), Tok::Int(0)])),
    }
    top.push((CHAR_STRINGS, ints(&[0])));
    top.push((FD_ARRAY, ints(&[0])));
    let nfd = [1usize, 2][c.dev(2)];
    let mut fdselect = None;
    if nfd > 1 {
        top.push((FD_SELECT, ints(&[0])));
        fdselect = Some(match c.dev(2) {
            0 => rt::FdSelectModel::F3(vec![(0, 1)], nglyphs as u16),
            _ => rt::FdSelectModel::F0((0..nglyphs).map(|i| (i % nfd) as u8).collect()),
        });
    }
    let vstore = match c.dev(2) {
        0 => None,
        _ => {
            top.push((VSTORE, ints(&[0])));
            Some(ivs_model(c, true))
        }
    };
    let mut fonts = Vec::new();
    for k in 0..nfd {
        let fd: DictModel = vec![(PRIVATE, ints(&[0, 0]))];
        if k == 0 {
            let subrs = with_subrs;
            let dict = private_model(c, true, subrs);
            fonts.push((fd, rt::PrivDigest { dict, subrs: if subrs { Some(vec![vec![11], vec![0x8C, 11]]) } else { None } }));
        } else {
            fonts.push((fd, small_private(k, false)));
        }
    }
    let d = rt::Cff2Digest { minor, top, gsubrs, charstrings, vstore, fdselect, fonts };
    let opts = rt::BuildOpts { hdr_size, form, index_off_size };
    out.nontrivial = true;
    let d2 = d.clone();
    let case = move || json!({"bytes_already_in_buffer": prefix, "source_encoding": format!("{:?}", opts), "cff2": format!("{:?}", d2)});
    out.describe(case.clone());
    if d.vstore.as_ref().map_or(false, |v| !ivs_rows_agree(v)) {
        return out.skip("inconsistent-model");
    }
    let src = rt::cff2_build(&d, &opts);
    let v = match guard(|| ReadScope::new(&src).read::<CFF2<'_>>()) {
        Ok(Ok(v)) => v,
        Ok(Err(e)) => return out.viol("model-bytes-do-not-parse", json!({"case": case(), "error": format!("{:?}", e), "bytes": hexs(&src)})),
        Err(p) => return out.panic("read", &p),
    };
    let w1 = wr(0, |b| CFF2::write(b, v.clone()));
    let check = |b: &[u8]| rt::cff2_parse(b).and_then(|g| rt::cff2_equiv(&d, &g));
    // deviation switch K4: local subrs are written *before* their Private DICT and the Subrs operand is the
    // (negative) distance back to them; allsorts' own reader refuses negative offsets
    if with_subrs {
        if let Ok(Ok(b)) = &w1 {
            if check(b).is_err() {
                let lenient = rt::cff2_parse_opt(b, d.vstore.is_none(), true).and_then(|g| {
                    let mut want = d.clone();
                    if !d.vstore.is_none() {
                        want.vstore = None;
                    }
                    rt::cff2_equiv(&want, &g)
                });
                let reread = guard(|| ReadScope::new(b).read::<CFF2<'_>>().map(|_| ()));
                if lenient.is_ok() && !matches!(reread, Ok(Ok(()))) {
                    out.viol("local-subrs-written-before-private-dict-with-negative-offset", json!({"case": case(), "written": hexs(b), "strict_independent_decoder": check(b).err(), "allsorts_reread": format!("{:?}", reread.map_err(|p| p.msg))}));
                    return;
                }
            }
        }
    }
    // the variation store is written without its length prefix, with a 16-bit region list offset and with offsets
    // counted from the start of the table: attribute exactly "everything but the VariationStore is right"
    if d.vstore.is_some() {
        if let Ok(Ok(b)) = &w1 {
            if check(b).is_err() {
                let mut without = d.clone();
                without.vstore = None;
                let rest_ok = rt::cff2_parse_opt(b, false, with_subrs).and_then(|g| rt::cff2_equiv(&without, &g)).is_ok();
                let reread = guard(|| ReadScope::new(b).read::<CFF2<'_>>().map(|_| ()));
                if rest_ok {
                    out.viol("variation-store-not-readable-after-write", json!({"case": case(), "written": hexs(b), "independent_decoder": check(b).err(), "allsorts_reread": format!("{:?}", reread.map_err(|p| p.msg))}));
                    return;
                }
            }
        }
    }
    let b0 = model_verdict(out, &case, true, w1, None, check, |b| {
        guard(|| {
            let v2 = ReadScope::new(b).read::<CFF2<'_>>().map_err(|e| format!("parse: {:?}", e))?;
            Ok(wr(0, |b| CFF2::write(b, v2.clone())))
        })
    });
    position_check(out, &case, prefix, b0, || wr(prefix, |b| CFF2::write(b, v.clone())));
}

// ---------------------------------------------------------------------------------------------
// Second direction: every table of every fixture font that parses => write => parse => write
// ---------------------------------------------------------------------------------------------

use allsorts::font_data::FontData;
use allsorts::tables::FontTableProvider;

const FIXTURE_TABLES: [&[u8; 4]; 16] = [b"head", b"hhea", b"vhea", b"maxp", b"hmtx", b"vmtx", b"name", b"OS/2", b"post", b"cvt ", b"glyf", b"cmap", b"CFF ", b"CFF2", b"HVAR", b"MVAR"];

fn fixture_files() -> Vec<String> {
    fn walk(dir: &std::path::Path, out: &mut Vec<String>) {
        let mut entries: Vec<_> = match std::fs::read_dir(dir) {
            Ok(r) => r.filter_map(|e| e.ok()).map(|e| e.path()).collect(),
            Err(_) => return,
        };
        entries.sort();
        for p in entries {
            if p.is_dir() {
                walk(&p, out);
            } else if let Some(ext) = p.extension().and_then(|e| e.to_str()) {
                if ["ttf", "otf", "ttc", "woff", "woff2"].contains(&ext.to_ascii_lowercase().as_str()) {
                    out.push(p.to_string_lossy().to_string());
                }
            }
        }
    }
    let mut v = Vec::new();
    walk(std::path::Path::new(&format!("{}/tests/fonts", crate::util::REPO)), &mut v);
    v
}

struct FixOut {
    viol: Vec<(String, Value)>,
    outcome: H,
    /// the table parsed and was written
    exercised: bool,
}

impl FixOut {
    fn v(&mut self, table: &str, what: &str, detail: Value) {
        self.viol.push((format!("C15:fixture:{}:{}", table.trim(), what), detail));
    }
}

/// parse -> write -> parse -> write for one value type; `digest` renders a value for comparison.
/// Returns the first written bytes.
macro_rules! stable {
    ($fo:expr, $table:expr, $data:expr, $d:ident => $read:expr, ($b:ident, $v:ident) => $write:expr, $g:ident => $digest:expr) => {{
        let data: &[u8] = $data;
        let first = {
            let $d: &[u8] = data;
            guard(|| $read)
        };
        match first {
            Err(_) | Ok(Err(_)) => None, // the fixture table does not parse: outside the quantifier
            Ok(Ok(v1)) => {
                $fo.exercised = true;
                let d1 = {
                    let $g = &v1;
                    $digest
                };
                let w1 = {
                    let $v = &v1;
                    wr(0, |$b| $write)
                };
                match w1 {
                    Err(p) => {
                        $fo.v($table, &format!("panic-in-write:{}", site_key(&p)), json!({"panic": p.msg, "at": p.loc()}));
                        None
                    }
                    Ok(Err(e)) => {
                        $fo.v($table, "parsed-table-refused-by-writer", json!({"error": e}));
                        None
                    }
                    Ok(Ok(b2)) => {
                        $fo.outcome = $fo.outcome.bytes(&b2);
                        let second = {
                            let $d: &[u8] = &b2;
                            guard(|| $read)
                        };
                        match second {
                            Err(p) => $fo.v($table, &format!("panic-in-read:{}", site_key(&p)), json!({"panic": p.msg})),
                            Ok(Err(e)) => $fo.v($table, "written-bytes-do-not-parse", json!({"error": format!("{:?}", e), "written": hexs(&b2)})),
                            Ok(Ok(v2)) => {
                                let d2 = {
                                    let $g = &v2;
                                    $digest
                                };
                                if d1 != d2 {
                                    $fo.v($table, "reread-differs", json!({"first": format!("{:?}", d1).chars().take(600).collect::<String>(), "reread": format!("{:?}", d2).chars().take(600).collect::<String>()}));
                                }
                                let w2 = {
                                    let $v = &v2;
                                    wr(0, |$b| $write)
                                };
                                match w2 {
                                    Err(p) => $fo.v($table, &format!("panic-in-write:{}", site_key(&p)), json!({"panic": p.msg})),
                                    Ok(Err(e)) => $fo.v($table, "second-write-refused", json!({"error": e})),
                                    Ok(Ok(b3)) => {
                                        if b3 != b2 {
                                            $fo.v($table, "second-write-differs", json!({"first_len": b2.len(), "second_len": b3.len()}));
                                        }
                                    }
                                }
                            }
                        }
                        Some(b2)
                    }
                }
            }
        }
    }};
}

fn name_digest(t: &NameTable<'_>) -> (Vec<[u16; 6]>, Option<Vec<[u16; 2]>>, Vec<u8>) {
    (
        t.name_records.iter().map(|r| [r.platform_id, r.encoding_id, r.language_id, r.name_id, r.length, r.offset]).collect(),
        t.opt_langtag_records.as_ref().map(|l| l.iter().map(|r| [r.length, r.offset]).collect()),
        t.string_storage.data().to_vec(),
    )
}

fn fixture_table<P: FontTableProvider>(p: &P, tag: &[u8; 4], fo: &mut FixOut) {
    let t = std::str::from_utf8(tag).unwrap();
    let get = |tg: &[u8; 4]| p.table_data(otmodel::tag(tg)).ok().flatten().map(|c| c.into_owned());
    let Some(data) = get(tag) else { return };
    if data.is_empty() {
        return;
    }
    let maxp = get(b"maxp").and_then(|d| ReadScope::new(&d).read::<MaxpTable>().ok());
    let head = get(b"head").and_then(|d| ReadScope::new(&d).read::<HeadTable>().ok());
    match tag {
        b"head" => {
            stable!(fo, t, &data, d => ReadScope::new(d).read::<HeadTable>(), (b, v) => { let ph = HeadTable::write(b, v)?; b.write_placeholder(ph, v.check_sum_adjustment)?; Ok(()) }, v => head_to(v));
        }
        b"hhea" | b"vhea" => {
            stable!(fo, t, &data, d => ReadScope::new(d).read::<HheaTable>(), (b, v) => HheaTable::write(b, v), v => hhea_to(v));
        }
        b"maxp" => {
            stable!(fo, t, &data, d => ReadScope::new(d).read::<MaxpTable>(), (b, v) => MaxpTable::write(b, v), v => maxp_to(v));
        }
        b"hmtx" | b"vmtx" => {
            let hea = get(if tag == b"hmtx" { b"hhea" } else { b"vhea" }).and_then(|d| ReadScope::new(&d).read::<HheaTable>().ok());
            if let (Some(m), Some(h)) = (&maxp, &hea) {
                let args = (m.num_glyphs as usize, h.num_h_metrics as usize);
                stable!(fo, t, &data, d => ReadScope::new(d).read_dep::<HmtxTable<'_>>(args), (b, v) => HmtxTable::write(b, v), v => (v.h_metrics.iter().map(|m| (m.advance_width, m.lsb)).collect::<Vec<_>>(), v.left_side_bearings.iter().collect::<Vec<i16>>()));
            }
        }
        b"name" => {
            stable!(fo, t, &data, d => ReadScope::new(d).read::<NameTable<'_>>(), (b, v) => NameTable::write(b, v), v => name_digest(v));
            // owned form
            if let Ok(Ok(v)) = guard(|| ReadScope::new(&data).read::<NameTable<'_>>()) {
                if let Ok(o) = name_owned::NameTable::try_from(&v) {
                    let strings = |o: &name_owned::NameTable<'_>| (o.name_records.iter().map(|r| (r.platform_id, r.encoding_id, r.language_id, r.name_id, r.string.to_vec())).collect::<Vec<_>>(), o.langtag_records.iter().map(|l| l.to_vec()).collect::<Vec<_>>());
                    match wr(0, |b| name_owned::NameTable::write(b, &o)) {
                        Err(p) => fo.v("name-owned", &format!("panic-in-write:{}", site_key(&p)), json!({"panic": p.msg})),
                        // offsets of an owned table are recomputed: storage above 64K cannot be addressed
                        Ok(Err(_)) => {}
                        Ok(Ok(b2)) => {
                            fo.outcome = fo.outcome.bytes(&b2);
                            match guard(|| ReadScope::new(&b2).read::<NameTable<'_>>().and_then(|t| name_owned::NameTable::try_from(&t).map(|o| strings(&o)))) {
                                Ok(Ok(s2)) if s2 == strings(&o) => {}
                                other => fo.v("name-owned", "reread-differs", json!({"result": format!("{:?}", other.map(|r| r.map(|_| "different strings"))).chars().take(200).collect::<String>()})),
                            }
                        }
                    }
                }
            }
        }
        b"OS/2" => {
            stable!(fo, t, &data, d => ReadScope::new(d).read_dep::<Os2>(d.len()), (b, v) => Os2::write(b, v), v => {
                let mut x = os2_to(v);
                // declared normalisation: versions 2 and 3 are written as 4
                if x[0] == 2 || x[0] == 3 {
                    x[0] = 4;
                }
                x
            });
        }
        b"post" => {
            stable!(fo, t, &data, d => ReadScope::new(d).read::<PostTable<'_>>(), (b, v) => PostTable::write(b, v), v => (post_header_to(&v.header), v.opt_sub_table.as_ref().map(|s| (s.glyph_name_index.iter().collect::<Vec<u16>>(), s.names.iter().map(|n| n.bytes.to_vec()).collect::<Vec<_>>()))));
        }
        b"cvt " => {
            stable!(fo, t, &data, d => ReadScope::new(d).read_dep::<CvtTable<'_>>(d.len() as u32), (b, v) => CvtTable::write(b, v), v => v.values.iter().collect::<Vec<i16>>());
        }
        b"glyf" => {
            let (Some(m), Some(h), Some(loca)) = (&maxp, &head, get(b"loca")) else { return };
            let n = m.num_glyphs as usize;
            let fmt = h.index_to_loc_format;
            // one round: (glyf, loca) -> parse -> write -> (glyf', loca'). `parse_all`: turn every record into its
            // parsed form first (re-encodes every glyph; the result may no longer fit a short loca, so that round
            // targets the long format).
            let round = |glyf: &[u8], loca: &[u8], fmt_in: IndexToLocFormat, fmt_out: IndexToLocFormat, parse_all: bool| -> Result<Option<(Vec<u8>, Vec<u8>, Vec<String>)>, String> {
                let Ok(l) = ReadScope::new(loca).read_dep::<LocaTable<'_>>((n, fmt_in)) else { return Ok(None) };
                let Ok(g) = ReadScope::new(glyf).read_dep::<GlyfTable<'_>>(&l) else { return Ok(None) };
                let Ok(mut parsed) = GlyfTable::new(g.records().to_vec()) else { return Ok(None) };
                let mut digest = Vec::with_capacity(n);
                for i in 0..parsed.num_glyphs() {
                    match parsed.get_parsed_glyph(i) {
                        Ok(Glyph::Empty(_)) => digest.push("empty".to_string()),
                        Ok(Glyph::Simple(s)) => digest.push(format!("{:?}", simple_to_model(s))),
                        Ok(Glyph::Composite(k)) => digest.push(format!("{:?}", composite_to_model(k))),
                        Err(_) => return Ok(None), // a glyph of the fixture does not parse
                    }
                }
                let mut buf = WriteBuffer::new();
                let lo = GlyfTable::write_dep(&mut buf, if parse_all { parsed } else { g }, fmt_out).map_err(|e| format!("glyf {:?}", e))?;
                let mut lb = WriteBuffer::new();
                OwnedLoca::write_dep(&mut lb, lo, fmt_out).map_err(|e| format!("loca {:?}", e))?;
                Ok(Some((buf.into_inner(), lb.into_inner(), digest)))
            };
            for parse_all in [false, true] {
                let fmt_out = if parse_all { IndexToLocFormat::Long } else { fmt };
                let label = if parse_all { "glyf-reencoded" } else { "glyf" };
                match guard(|| round(&data, &loca, fmt, fmt_out, parse_all)) {
                    Err(p) => fo.v(label, &format!("panic:{}", site_key(&p)), json!({"panic": p.msg, "at": p.loc()})),
                    Ok(Err(e)) => fo.v(label, "parsed-table-refused-by-writer", json!({"error": e})),
                    Ok(Ok(None)) => {}
                    Ok(Ok(Some((g2, l2, d1)))) => {
                        fo.exercised = true;
                        fo.outcome = fo.outcome.bytes(&g2).bytes(&l2);
                        match guard(|| round(&g2, &l2, fmt_out, fmt_out, parse_all)) {
                            Err(p) => fo.v(label, &format!("panic:{}", site_key(&p)), json!({"panic": p.msg, "at": p.loc()})),
                            Ok(Err(e)) => fo.v(label, "second-write-refused", json!({"error": e})),
                            Ok(Ok(None)) => fo.v(label, "written-bytes-do-not-parse", json!({"glyf_len": g2.len(), "loca_len": l2.len()})),
                            Ok(Ok(Some((g3, l3, d2)))) => {
                                if d1 != d2 {
                                    let i = d1.iter().zip(&d2).position(|(a, b)| a != b);
                                    fo.v(label, "reread-differs", json!({"first_differing_glyph": i, "first": i.map(|i| d1[i].chars().take(400).collect::<String>()), "reread": i.map(|i| d2[i].chars().take(400).collect::<String>())}));
                                }
                                if g3 != g2 || l3 != l2 {
                                    fo.v(label, "second-write-differs", json!({"glyf_lens": [g2.len(), g3.len()], "loca_lens": [l2.len(), l3.len()]}));
                                }
                            }
                        }
                    }
                }
            }
        }
        b"cmap" => {
            let Ok(Ok(cm)) = guard(|| ReadScope::new(&data).read::<Cmap<'_>>()) else { return };
            let mut owned_records = Vec::new();
            let mut seen = Vec::new();
            for r in cm.encoding_records() {
                let sub = match data.get(r.offset as usize..) {
                    Some(s) => s,
                    None => continue,
                };
                let first = !seen.contains(&r.offset);
                seen.push(r.offset);
                let format = otmodel::be::u16_at(sub, 0).unwrap_or(0xFFFF);
                if let Ok(Ok(v)) = guard(|| ReadScope::new(sub).read::<CmapSubtable<'_>>()) {
                    if let Some(o) = v.to_owned() {
                        owned_records.push(cmap_owned::EncodingRecord { platform_id: r.platform_id, encoding_id: r.encoding_id, sub_table: o });
                    }
                }
                if !first || ![0u16, 4, 6, 10, 12].contains(&format) {
                    continue; // format 2 is declared NotImplemented by the writer; 13/14 are not parsed into CmapSubtable
                }
                let label = format!("cmap-format{}", format);
                stable!(fo, &label, sub, d => ReadScope::new(d).read::<CmapSubtable<'_>>(), (b, v) => CmapSubtable::write(b, v), v => v.to_owned().map(|o| owned_sub_to_model(&o)));
            }
            if !owned_records.is_empty() {
                let table = cmap_owned::Cmap { encoding_records: owned_records };
                match wr(0, |b| cmap_owned::Cmap::write(b, table.clone())) {
                    Err(p) => fo.v("cmap-owned", &format!("panic-in-write:{}", site_key(&p)), json!({"panic": p.msg})),
                    Ok(Err(e)) => fo.v("cmap-owned", "parsed-table-refused-by-writer", json!({"error": e})),
                    Ok(Ok(b2)) => {
                        fo.exercised = true;
                        fo.outcome = fo.outcome.bytes(&b2);
                        let back = guard(|| -> Result<cmap_owned::Cmap, String> {
                            let t2 = ReadScope::new(&b2).read::<Cmap<'_>>().map_err(|e| format!("{:?}", e))?;
                            let mut v = Vec::new();
                            for r in t2.encoding_records() {
                                let s = t2.scope.offset(r.offset as usize).read::<CmapSubtable<'_>>().map_err(|e| format!("{:?}", e))?;
                                v.push(cmap_owned::EncodingRecord { platform_id: r.platform_id, encoding_id: r.encoding_id, sub_table: s.to_owned().ok_or("to_owned")? });
                            }
                            Ok(cmap_owned::Cmap { encoding_records: v })
                        });
                        match back {
                            Ok(Ok(c2)) if c2 == table => {}
                            other => fo.v("cmap-owned", "reread-differs", json!({"result": format!("{:?}", other.map(|r| r.map(|_| "different"))).chars().take(200).collect::<String>()})),
                        }
                    }
                }
            }
        }
        b"CFF " => {
            let Ok(want) = rt::cff_parse(&data) else { return };
            let b2 = stable!(fo, t, &data, d => ReadScope::new(d).read::<CFF<'_>>(), (b, v) => CFF::write(b, v), _v => ());
            if let Some(b2) = b2 {
                if let Err(e) = rt::cff_parse(&b2).and_then(|g| rt::cff_equiv(&want, &g)) {
                    fo.v(t, "independent-decode-of-written-bytes-disagrees", json!({"disagreement": e}));
                }
            }
        }
        b"CFF2" => {
            let Ok(want) = rt::cff2_parse(&data) else { return };
            let Ok(Ok(v1)) = guard(|| ReadScope::new(&data).read::<CFF2<'_>>()) else { return };
            fo.exercised = true;
            match wr(0, |b| CFF2::write(b, v1.clone())) {
                Err(p) => fo.v(t, &format!("panic-in-write:{}", site_key(&p)), json!({"panic": p.msg})),
                Ok(Err(e)) => fo.v(t, "parsed-table-refused-by-writer", json!({"error": e})),
                Ok(Ok(b2)) => {
                    fo.outcome = fo.outcome.bytes(&b2);
                    let strict = rt::cff2_parse(&b2).and_then(|g| rt::cff2_equiv(&want, &g));
                    if let Err(e) = strict {
                        // attribute to the known departures when they explain the disagreement exactly
                        let has_subrs = want.fonts.iter().any(|f| f.1.subrs.is_some());
                        let mut w2 = want.clone();
                        w2.vstore = None;
                        let lenient = rt::cff2_parse_opt(&b2, false, true).and_then(|g| rt::cff2_equiv(&w2, &g));
                        let no_vstore = rt::cff2_parse_opt(&b2, false, false).and_then(|g| rt::cff2_equiv(&w2, &g));
                        if no_vstore.is_ok() && want.vstore.is_some() {
                            fo.viol.push(("C15:cff2:variation-store-not-readable-after-write".into(), json!({"independent_decoder": e})));
                        } else if lenient.is_ok() && has_subrs {
                            fo.viol.push(("C15:cff2:local-subrs-written-before-private-dict-with-negative-offset".into(), json!({"independent_decoder": e, "also_has_variation_store": want.vstore.is_some()})));
                        } else {
                            fo.v(t, "independent-decode-of-written-bytes-disagrees", json!({"disagreement": e, "lenient": lenient.err()}));
                        }
                    } else {
                        match guard(|| ReadScope::new(&b2).read::<CFF2<'_>>().map(|v2| wr(0, |b| CFF2::write(b, v2.clone())))) {
                            Ok(Ok(Ok(Ok(b3)))) if b3 == b2 => {}
                            other => fo.v(t, "reread-or-second-write-differs", json!({"result": format!("{:?}", other.map(|r| r.map(|w| w.map(|x| x.map(|b| b.len()))))).chars().take(200).collect::<String>()})),
                        }
                    }
                }
            }
        }
        b"HVAR" | b"MVAR" => {
            // the item variation store inside HVAR (Offset32 at 4) / MVAR (Offset16 at 10)
            let off = if tag == b"HVAR" { otmodel::be::u32_at(&data, 4).map(|v| v as usize) } else { otmodel::be::u16_at(&data, 10).map(|v| v as usize) };
            let Some(sub) = off.filter(|o| *o > 0).and_then(|o| data.get(o..)) else { return };
            let Ok(want) = rt::ivs_decode(sub) else { return };
            let Ok(Ok(v1)) = guard(|| ReadScope::new(sub).read::<ItemVariationStore<'_>>()) else { return };
            fo.exercised = true;
            let label = format!("{}-ItemVariationStore", t);
            match wr(0, |b| ItemVariationStore::write(b, &v1)) {
                Err(p) => fo.v(&label, &format!("panic-in-write:{}", site_key(&p)), json!({"panic": p.msg})),
                Ok(Err(e)) => fo.v(&label, "parsed-table-refused-by-writer", json!({"error": e})),
                Ok(Ok(b2)) => {
                    fo.outcome = fo.outcome.bytes(&b2);
                    let mut bytes = b2.clone();
                    if rt::ivs_decode(&b2).ok().as_ref() != Some(&want) {
                        match ivs_undo_offset16(&b2) {
                            Some(fixed) if rt::ivs_decode(&fixed).ok().as_ref() == Some(&want) => {
                                fo.viol.push(("C15:ItemVariationStore:variationRegionListOffset-written-as-16-bit-field".into(), json!({"written_prefix": hexs(&b2[..b2.len().min(24)])})));
                                bytes = fixed;
                            }
                            _ => {
                                fo.v(&label, "independent-decode-of-written-bytes-disagrees", json!({"written_len": b2.len()}));
                                return;
                            }
                        }
                    }
                    match guard(|| ReadScope::new(&bytes).read::<ItemVariationStore<'_>>().map(|v2| wr(0, |b| ItemVariationStore::write(b, &v2)))) {
                        Ok(Ok(Ok(Ok(b3)))) if b3 == b2 => {}
                        other => fo.v(&label, "reread-or-second-write-differs", json!({"result": format!("{:?}", other.map(|r| r.map(|w| w.map(|x| x.map(|b| b.len()))))).chars().take(200).collect::<String>()})),
                    }
                }
            }
        }
        _ => {}
    }
}

/// Run one (font file, font index, table) triple. Returns None when the file/table is absent or unreadable.
fn fixture_one(path: &str, index: usize, tag: &[u8; 4]) -> Option<FixOut> {
    let data = std::fs::read(path).ok()?;
    if data.is_empty() {
        return None; // emptied fixture
    }
    let mut fo = FixOut { viol: Vec::new(), outcome: H::new().str(path).u64(index as u64).bytes(tag), exercised: false };
    let fd = guard(|| ReadScope::new(&data).read::<FontData<'_>>()).ok()?.ok()?;
    let provider = guard(|| fd.table_provider(index)).ok()?.ok()?;
    fixture_table(&provider, tag, &mut fo);
    Some(fo)
}

fn run_fixtures(ctx: &Ctx) {
    let files = fixture_files();
    let jobs: Vec<(String, usize, &'static [u8; 4])> = files
        .iter()
        .flat_map(|f| {
            let n = if f.to_ascii_lowercase().ends_with(".ttc") { 4 } else { 1 };
            (0..n).flat_map(move |i| FIXTURE_TABLES.iter().map(move |t| (f.clone(), i, *t)))
        })
        .collect();
    let res: Vec<(u64, u64)> = jobs
        .par_iter()
        .map(|(f, i, t)| match fixture_one(f, *i, t) {
            None => (0, 0),
            Some(fo) => {
                let oh = fo.outcome.get();
                ctx.mark_outcome(oh);
                if fo.exercised {
                    ctx.mark_nontrivial(oh);
                }
                let rel = f.strip_prefix(crate::util::REPO).unwrap_or(f).trim_start_matches('/').to_string();
                for (k, d) in fo.viol {
                    let tn = std::str::from_utf8(&t[..]).unwrap();
                    collect(k, (1u8, 0, vec![*i as u32], format!("{}:{}", rel, tn)), || json!({"structure": "fixture", "font": rel, "index": i, "table": tn, "detail": d}));
                }
                (1, fo.exercised as u64)
            }
        })
        .collect();
    let ran: u64 = res.iter().map(|r| r.0).sum();
    let exercised: u64 = res.iter().map(|r| r.1).sum();
    ctx.evals(exercised);
    ctx.add_states(ran);
    ctx.add_transitions(ran);
    ctx.set("fixtures", json!({"font_files": files.len(), "font_table_pairs_visited": ran, "tables_parsed_written_reparsed": exercised}));
}

fn replay_fixture(w: &Value) -> Result<(), String> {
    let font = w["font"].as_str().ok_or("witness without font")?;
    let table = w["table"].as_str().ok_or("witness without table")?;
    let index = w["index"].as_u64().unwrap_or(0) as usize;
    let mut tag = [b' '; 4];
    for (i, b) in table.bytes().take(4).enumerate() {
        tag[i] = b;
    }
    match fixture_one(&format!("{}/{}", crate::util::REPO, font), index, &tag) {
        None => Ok(()),
        Some(fo) if fo.viol.is_empty() => Ok(()),
        Some(fo) => Err(fo.viol.iter().map(|(k, d)| format!("{} {}", k, d)).collect::<Vec<_>>().join("; ")),
    }
}

// ---------------------------------------------------------------------------------------------
// Registry, run, replay
// ---------------------------------------------------------------------------------------------

type Body = fn(&mut Chooser<'_>, bool, &mut Out);

/// Violations are collected here and handed to `Ctx` at the end so that the witness kept per key is the same in
/// every run: synthetic cases before fixtures, fewest deviations first, then the smallest choice vector.
type SortKey = (u8, usize, Vec<u32>, String);
struct Collected {
    count: u64,
    /// cases already counted (the parallel explorer probes subtree roots with extra body runs)
    seen: std::collections::HashSet<u64>,
    best: (SortKey, Value),
}
static COLLECT: std::sync::Mutex<Option<std::collections::BTreeMap<String, Collected>>> = std::sync::Mutex::new(None);

fn collect(key: String, sort: SortKey, witness: impl FnOnce() -> Value) {
    let mut g = COLLECT.lock().unwrap();
    let m = g.get_or_insert_with(Default::default);
    let mut h = H::new().u64(sort.0 as u64).str(&sort.3);
    for c in &sort.2 {
        h = h.u64(*c as u64);
    }
    let id = h.get();
    match m.get_mut(&key) {
        None => {
            m.insert(key, Collected { count: 1, seen: [id].into_iter().collect(), best: (sort, witness()) });
        }
        Some(c) => {
            if c.seen.insert(id) {
                c.count += 1;
            }
            if sort < c.best.0 {
                c.best = (sort, witness());
            }
        }
    }
}

fn flush_collected(ctx: &Ctx) {
    let m = COLLECT.lock().unwrap().take().unwrap_or_default();
    for (key, c) in m {
        let mut w = Some(c.best.1);
        for _ in 0..c.count {
            ctx.violation(&key, || w.take().unwrap_or(Value::Null));
        }
    }
}

struct Structure {
    name: &'static str,
    body: Body,
    /// deviation bound in (quick, thorough)
    bound: (u32, u32),
    /// depth at which the choice tree is cut into parallel subtrees
    split: usize,
}

fn structures() -> Vec<Structure> {
    vec![
        Structure { name: "head", body: s_head, bound: (2, 3), split: 4 },
        Structure { name: "hhea", body: s_hhea, bound: (2, 3), split: 4 },
        Structure { name: "maxp", body: s_maxp, bound: (2, 3), split: 4 },
        Structure { name: "OS/2", body: s_os2, bound: (2, 3), split: 4 },
        Structure { name: "post-header", body: s_post_hdr, bound: (2, 3), split: 4 },
        Structure { name: "TableRecord", body: s_table_record, bound: (2, 4), split: 4 },
        Structure { name: "hmtx", body: s_hmtx, bound: (2, 3), split: 4 },
        Structure { name: "cvt", body: s_cvt, bound: (2, 3), split: 3 },
        Structure { name: "loca", body: s_loca, bound: (2, 3), split: 3 },
        Structure { name: "loca-owned", body: s_loca_owned, bound: (2, 3), split: 3 },
        Structure { name: "name", body: s_name, bound: (2, 3), split: 4 },
        Structure { name: "name-owned", body: s_name_owned, bound: (2, 3), split: 4 },
        Structure { name: "post2", body: s_post2, bound: (2, 3), split: 4 },
        Structure { name: "cmap-subtable", body: s_cmap_sub, bound: (2, 3), split: 4 },
        Structure { name: "cmap-owned", body: s_cmap_owned, bound: (2, 3), split: 4 },
        Structure { name: "glyph-simple", body: s_glyph_simple, bound: (2, 3), split: 4 },
        Structure { name: "glyph-simple-numberOfContours-boundary", body: s_glyph_simple_contours, bound: (1, 2), split: 2 },
        Structure { name: "glyph-composite-instruction-flag-placement", body: s_glyph_composite_instr, bound: (2, 3), split: 5 },
        Structure { name: "glyph-composite", body: s_glyph_composite, bound: (2, 3), split: 4 },
        Structure { name: "glyf+loca", body: s_glyf_table, bound: (2, 3), split: 4 },
        Structure { name: "cff-operand-integer", body: s_cff_int, bound: (0, 0), split: 1 },
        Structure { name: "cff-operand-real", body: s_cff_real, bound: (0, 0), split: 3 },
        Structure { name: "cff-dict", body: s_cff_dict, bound: (2, 3), split: 4 },
        Structure { name: "cff-index", body: s_cff_index, bound: (2, 3), split: 3 },
        Structure { name: "cff-charset", body: s_cff_charset, bound: (2, 3), split: 4 },
        Structure { name: "cff-encoding", body: s_cff_encoding, bound: (2, 3), split: 3 },
        Structure { name: "cff-fdselect", body: s_cff_fdselect, bound: (2, 3), split: 3 },
        Structure { name: "ItemVariationStore", body: s_ivs, bound: (2, 3), split: 4 },
        Structure { name: "cff", body: s_cff_font, bound: (2, 3), split: 5 },
        Structure { name: "cff2", body: s_cff2_font, bound: (2, 3), split: 5 },
        Structure { name: "cmap-owned-numTables-boundary", body: s_cmap_owned_count, bound: (1, 1), split: 2 },
    ]
}

fn run_structure(ctx: &Ctx, s: &Structure, thorough: bool) -> (u64, u64) {
    let bound = if thorough { s.bound.1 } else { s.bound.0 };
    let skipped = std::sync::Mutex::new(std::collections::HashSet::new());
    let viols = std::sync::Mutex::new(std::collections::HashSet::new());
    let stats = mcx::explore_par(bound, s.split, |c: &mut Chooser<'_>| {
        let mut out = Out::new(s.name);
        (s.body)(c, thorough, &mut out);
        let oh = out.outcome.get();
        ctx.mark_outcome(oh);
        if out.nontrivial {
            ctx.mark_nontrivial(H::new().str(s.name).u64(oh).get());
        }
        let choices = c.choices();
        let id = choices.iter().fold(H::new(), |h, c| h.u64(*c as u64)).get();
        if out.skipped {
            skipped.lock().unwrap().insert(id);
        }
        if !out.viol.is_empty() {
            viols.lock().unwrap().insert(id);
        }
        for (key, detail) in out.viol.drain(..) {
            let sort = (0u8, choices.iter().filter(|c| **c != 0).count(), choices.clone(), String::new());
            collect(key, sort, || json!({"structure": s.name, "choices": choices, "bound": bound, "thorough": thorough, "detail": detail}));
        }
        if c.deviations() >= 1 {
            let desc = out.desc.take();
            ctx.sample(H::new().str(s.name).u64(oh).get(), || json!({"structure": s.name, "choices": choices, "case": desc.map(|f| f())}));
        }
    });
    let skipped = skipped.into_inner().unwrap().len() as u64;
    ctx.add_states(stats.states);
    ctx.add_transitions(stats.transitions);
    // executions that ended without a comparison are not evaluations
    ctx.evals(stats.executions - skipped);
    ctx.bump("executions_without_comparison", skipped);
    (stats.executions, viols.into_inner().unwrap().len() as u64)
}

pub fn run(ctx: &Ctx) {
    let thorough = ctx.tier.thorough();
    ctx.set_rule("per writable structure: every assignment of field values with at most `bound` fields deviating from the default to a value of the field's boundary menu (mcx::explore deviation points; format/version selectors are free choices); a case is non-trivial when the writer accepted the value and the bytes were re-read and compared (distinct written byte strings are counted), or when an oversize value was presented and the verdict Err/Ok was observed");
    ctx.assume("a value is 'within format limits' when every field holds a value its on-disk field can represent and redundant fields agree (e.g. composite flags match the argument variants); such values must be written (Ok), others with an oversize count/length/offset must be refused (Err)");
    ctx.assume("writers are additionally handed a buffer that already holds bytes: the bytes appended must not depend on it (only checked when the empty-buffer run passed every oracle)");
    ctx.assume("a cmap format 4 subtable without segments (parses, but lacks the mandatory 0xFFFF segment) may be refused or written, not panicked on");
    ctx.assume("simple glyph flags other than ON_CURVE are an encoding detail: re-read glyphs are compared by contour ends, instructions, bounding box, on-curve bits and absolute coordinates");
    ctx.assume("DICT entries whose operands equal the specification default by value may be kept or omitted by the writer; all other entries must survive unchanged and in order");
    let list = structures();
    let mut per = serde_json::Map::new();
    // all structures (and the fixture sweep) run concurrently; each exploration is parallel inside as well
    let (rows, fix_seconds) = rayon::join(
        || {
            list.par_iter()
                .map(|s| {
                    let t0 = ctx.elapsed();
                    let (n, v) = run_structure(ctx, s, thorough);
                    (s.name, json!({"bound": if thorough { s.bound.1 } else { s.bound.0 }, "executions": n, "violating_executions": v, "seconds_wall_overlapping": ((ctx.elapsed() - t0) * 100.0).round() / 100.0}))
                })
                .collect::<Vec<_>>()
        },
        || {
            let t0 = ctx.elapsed();
            run_fixtures(ctx);
            ctx.elapsed() - t0
        },
    );
    for (n, v) in rows {
        per.insert(n.to_string(), v);
    }
    per.insert("fixture fonts".to_string(), json!({"seconds_wall_overlapping": (fix_seconds * 100.0).round() / 100.0}));
    flush_collected(ctx);
    ctx.set(
        "bounds",
        json!({
            "tier": ctx.tier.name(),
            "per_structure": per,
            "field_menus": {"u8": menu(K::U8), "i8": menu(K::I8), "u16": menu(K::U16), "i16": menu(K::I16), "u32": menu(K::U32), "i32": menu(K::I32), "i64": menu(K::I64), "cff_integer_operand": INTM},
            "not_reachable_through_the_public_api": [
                "CFF INDEX with a 16-bit count holding more than 65535 objects (Index fields are private, owned INDEXes cannot grow)",
                "cmap formats 10/12 with 2^32 entries",
                "CFF2 charstring operands (StackValue is crate-private)",
                "hmtx/loca length disagreeing with maxp/hhea counts: these tables carry no count field of their own for the writer to check"
            ],
        }),
    );
}

pub fn replay(w: &Value) -> Result<(), String> {
    let name = w["structure"].as_str().ok_or("witness without structure")?;
    if name == "fixture" {
        return replay_fixture(w);
    }
    let thorough = w["thorough"].as_bool().unwrap_or(false);
    let bound = w["bound"].as_u64().unwrap_or(2) as u32;
    let choices: Vec<u32> = w["choices"].as_array().ok_or("witness without choices")?.iter().map(|v| v.as_u64().unwrap_or(0) as u32).collect();
    let list = structures();
    let s = list.iter().find(|s| s.name == name).ok_or_else(|| format!("unknown structure {}", name))?;
    let res = std::sync::Mutex::new(Vec::new());
    mcx::explore::replay(&choices, bound.max(8), |c| {
        let mut out = Out::new(s.name);
        (s.body)(c, thorough, &mut out);
        *res.lock().unwrap() = out.viol;
    });
    let v = res.into_inner().unwrap();
    if v.is_empty() {
        Ok(())
    } else {
        Err(v.iter().map(|(k, d)| format!("{} {}", k, d)).collect::<Vec<_>>().join("; "))
    }
}

