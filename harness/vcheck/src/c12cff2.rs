//! C12, CFF2 family — instancing a CFF2 variable font evaluates the variation model.
//!
//! Bounded exhaustive exploration: synthetic CFF2 variable fonts (complete OTTO fonts: head, hhea, maxp, hmtx, cmap,
//! name, OS/2, post, fvar, optional avar / HVAR, CFF2 with VariationStore) built with the independent encoders of
//! `otmodel::cffenc` / `otmodel::varenc` x user coordinate tuples. Every case runs the real
//! `allsorts::variations::instance`; the output font is decoded with an independent CFF2 / DICT / charstring reader
//! (this file) and the independent Type 2 interpreter `cffenc::Env`, and compared with the model:
//!   (1) static output: no fvar/avar/HVAR/MVAR/gvar, CFF2 present without VariationStore, no blend / vsindex operator in any
//!       charstring or subroutine, no blend in a Private DICT;
//!   (2) the path of every output glyph = default + sum scalar x delta at the normalised tuple the library reports;
//!   (3) hmtx advance = default + HVAR delta (lsb: + HVAR lsb delta when HVAR maps side bearings, untouched otherwise),
//!       hmtx length consistent with hhea.numberOfHMetrics;
//!   (4) stem / mask operators, their operand counts and mask bytes preserved; stem operands blended like path operands.
//! A second seam visits the output with allsorts' own CFF2Outlines (no tuple).
//!
//! One index vector = one model font (`gen`), so a witness is replayed from (idx, user tuple) without the explorer.

use allsorts::binary::read::ReadScope;
use allsorts::cff::cff2::CFF2;
use allsorts::cff::outline::CFF2Outlines;
use allsorts::font_data::FontData;
use allsorts::outline::{OutlineBuilder, OutlineSink};
use allsorts::pathfinder_geometry::line_segment::LineSegment2F;
use allsorts::pathfinder_geometry::vector::Vector2F;
use allsorts::tables::{Fixed, FontTableProvider};
use allsorts::Font;
use mcx::{guard, Ctx, H};
use otmodel::be::R;
use otmodel::cffenc::*;
use otmodel::varenc::{self, AxisDef, EvalOpts, Hvar, IndexMap, IvData, Ivs, Rat};
use otmodel::{sfnt, tables, tag};
use rayon::prelude::*;
use serde_json::{json, Value};

const ONE: i16 = 16384;
/// path / stem coordinates: the instancer writes every blended operand as a 16.16 number (quantisation 2^-16 per
/// operand, f32 arithmetic); the comparison allows 0.01 unit per coordinate
const TOL: f64 = 0.01;

// ------------------------------------------------------------------------------------------------ model

#[derive(Clone, Debug)]
struct GlyphM {
    /// path model; operands carry deltas for the regions of `vsindex`
    path: PathModel,
    /// the complete program at the variable level: [stem / mask prefix] path form [mid-path hintmask]
    flat: Vec<VTok>,
    /// ItemVariationData used by this glyph's blends
    vsindex: usize,
    advance: u16,
    lsb: i16,
}

struct Case {
    axes: Vec<AxisDef>,
    avar: Option<Vec<Vec<(i16, i16)>>>,
    store: VarStore,
    glyphs: Vec<GlyphM>,
    /// the encoded CFF2 table parts
    charstrings: Vec<Vec<u8>>,
    gsubrs: SubrIndex,
    fds: Vec<PrivateSpec>,
    fd_of_glyph: Vec<u8>,
    fdselect_format: u8,
    /// blended StdHW per font DICT: (value with deltas, vsindex)
    std_hw: Vec<Option<(V, usize)>>,
    hvar: Option<Hvar>,
    num_h_metrics: u16,
    /// user tuples (16.16 raw) to instance at
    users: Vec<Vec<i32>>,
    describe: Value,
}

fn stores() -> Vec<VarStore> {
    let r1: Vec<Region> = vec![vec![(0, ONE, ONE)], vec![(-ONE, -ONE, 0)], vec![(0, ONE / 2, ONE)], vec![(ONE / 2, ONE, ONE)]];
    let d1: Vec<Vec<u16>> = vec![vec![0], vec![1, 0], vec![2, 3], vec![0, 1]];
    let r2: Vec<Region> = vec![vec![(0, ONE, ONE), (0, 0, 0)], vec![(0, 0, 0), (0, ONE, ONE)], vec![(0, ONE, ONE), (0, ONE, ONE)], vec![(-ONE, -ONE, 0), (0, ONE / 2, ONE)]];
    let d2: Vec<Vec<u16>> = vec![vec![0], vec![0, 1], vec![2, 3], vec![1, 2]];
    // third store: ItemVariationData 0 and 2 have regionIndexCount = 0 (k = 0: `n blend` leaves the n defaults), 1 has two
    // regions and 3 one, so the default subtable, a Private DICT vsindex and a charstring vsindex each reach a subtable
    // without regions in some vsindex configuration, and the glyphs / font DICTs of one font mix k = 0 with k > 0
    let d0: Vec<Vec<u16>> = vec![vec![], vec![1, 0], vec![], vec![2]];
    vec![VarStore { axis_count: 1, regions: r1.clone(), datas: d1 }, VarStore { axis_count: 2, regions: r2, datas: d2 }, VarStore { axis_count: 1, regions: r1, datas: d0 }]
}

/// segment shapes (a subset of the C18 alphabet)
#[derive(Clone, Copy, Debug, PartialEq, Eq)]
enum SK {
    L,
    LH,
    LV,
    C,
    CHV,
    CVH,
    CHH,
    CVV,
}

const KINDS: [SK; 8] = [SK::L, SK::LH, SK::LV, SK::C, SK::CHV, SK::CVH, SK::CHH, SK::CVV];

/// contour specs: (horizontal-only move?, segment kinds)
fn path_specs(thorough: bool) -> Vec<Vec<(u8, Vec<SK>)>> {
    use SK::*;
    let mut v: Vec<Vec<(u8, Vec<SK>)>> = vec![
        vec![(0, vec![L])],
        vec![(0, vec![C])],
        vec![(1, vec![LH, LV, LH])],
        vec![(0, vec![L, C])],
        vec![(2, vec![C, L])],
        vec![(0, vec![CHV, CVH])],
        vec![(1, vec![CHH, CHH])],
        vec![(2, vec![CVV])],
        vec![(0, vec![L, L, C])],
        vec![(0, vec![CHV])],
        vec![(2, vec![LV, CVH, L])],
        vec![(0, vec![L, C]), (2, vec![LV])],
    ];
    if thorough {
        for a in KINDS {
            for b in KINDS {
                v.push(vec![(0, vec![a, b])]);
            }
        }
    }
    v
}

/// operand values: small defaults, deltas with halves so that rounding a delta before scaling is visible
struct Pool {
    i: usize,
    k: usize,
}

impl Pool {
    fn next(&mut self) -> V {
        const D: [i32; 13] = [12, -7, 30, -45, 3, -26, 19, 8, -20, 41, -5, 36, -15];
        // deltas in half units
        const E0: [i32; 11] = [8, -13, 20, 0, -5, 17, -24, 0, 12, 29, -9];
        const E1: [i32; 7] = [-7, 10, 0, -19, 3, 15, 0];
        let i = self.i;
        self.i += 1;
        let mut v = V::i(D[i % D.len()] + (i / D.len()) as i32);
        if self.k >= 1 {
            v.dl[0] = E0[i % E0.len()] * 32768;
        }
        if self.k >= 2 {
            v.dl[1] = E1[i % E1.len()] * 32768;
        }
        v
    }
}

fn build_path(spec: &[(u8, Vec<SK>)], k: usize, salt: usize) -> PathModel {
    let mut p = Pool { i: salt, k };
    let z = V::ZERO;
    let mut contours = Vec::new();
    for (mk, kinds) in spec {
        let mv = match mk {
            0 => [p.next(), p.next()],
            1 => [p.next(), z],
            _ => [z, p.next()],
        };
        let mut segs = Vec::new();
        for kd in kinds {
            let mut n = || p.next();
            segs.push(match kd {
                SK::L => Seg::Line([n(), n()]),
                SK::LH => Seg::Line([n(), z]),
                SK::LV => Seg::Line([z, n()]),
                SK::C => Seg::Curve([n(), n(), n(), n(), n(), n()]),
                SK::CHV => Seg::Curve([n(), z, n(), n(), z, n()]),
                SK::CVH => Seg::Curve([z, n(), n(), n(), n(), z]),
                SK::CHH => Seg::Curve([n(), z, n(), n(), n(), z]),
                SK::CVV => Seg::Curve([z, n(), n(), n(), z, n()]),
            });
        }
        contours.push(Contour { mv, segs });
    }
    PathModel { contours }
}

// index vector: [store, vsconfig, path, form group, fd config, metrics config, avar, private blend]
const NDIM: usize = 8;

pub fn dims(thorough: bool) -> [usize; NDIM] {
    [3, 6, path_specs(thorough).len(), if thorough { 4 } else { 3 }, 3, 5, 2, 2]
}

fn in_tier(idx: &[usize], thorough: bool) -> bool {
    // quick: at most one of (fd config, metrics config, avar, private blend) departs from its default
    thorough || idx[4..8].iter().filter(|x| **x != 0).count() <= 1
}

fn landmarks_1(regions: &[(i16, i16, i16)], quick2: bool) -> Vec<i32> {
    let mut v: Vec<i32> = vec![0, 1, -1, 16384, 16383, -16384, -16383];
    for r in regions {
        let (s, p, e) = (r.0 as i32, r.1 as i32, r.2 as i32);
        for x in [s, p, e] {
            v.extend([x - 1, x, x + 1]);
        }
        v.push((s + p) / 2);
        v.push((p + e) / 2);
    }
    if quick2 {
        v = vec![-16384, -8192, -1, 0, 4096, 8191, 8192, 16384];
    }
    v.retain(|x| (-16384..=16384).contains(x));
    v.sort();
    v.dedup();
    v
}

fn gen(idx: &[usize], thorough: bool) -> Option<Case> {
    if idx.len() != NDIM {
        return None;
    }
    let d = dims(true);
    if idx.iter().zip(d.iter()).any(|(i, n)| i >= n) {
        return None;
    }
    let (si, vc, pi, group, fdc, mc, avar_on, pblend) = (idx[0], idx[1], idx[2], idx[3], idx[4], idx[5], idx[6], idx[7]);
    let store = stores().remove(si);
    let nd = store.datas.len();
    let specs = path_specs(true);
    let spec = &specs[pi];
    let n_glyphs = 4usize;
    // font DICT of each glyph
    let fd_of_glyph: Vec<u8> = match fdc {
        0 => vec![],
        1 => vec![0, 0, 1, 1],
        _ => vec![1, 1, 0, 1],
    };
    let n_fds = if fdc == 0 { 1 } else { 2 };
    // Private DICT vsindex per FD (None = operator absent = 0) and charstring vsindex per glyph
    let private_vs: Vec<Option<u16>> = (0..n_fds)
        .map(|f| {
            let base = match vc {
                0 | 5 => None,
                1..=3 => Some(vc as u16),
                _ => Some(1),
            };
            if f == 0 {
                base
            } else {
                Some(((base.unwrap_or(0) as usize + 1) % nd) as u16)
            }
        })
        .collect();
    let cs_vs = |g: usize| -> Option<usize> {
        match vc {
            4 => Some(2),
            5 if g == 2 => Some(3),
            _ => None,
        }
    };
    let fd_of = |g: usize| fd_of_glyph.get(g).copied().unwrap_or(0) as usize;
    let opts = FormOpts { max_args: 513, ..FormOpts::default() };

    let mut gsubrs = SubrIndex { count: 3, items: vec![] };
    let mut lsubrs: Vec<SubrIndex> = (0..n_fds).map(|_| SubrIndex { count: 4, items: vec![] }).collect();
    let mut glyphs: Vec<GlyphM> = Vec::new();
    let mut charstrings: Vec<Vec<u8>> = Vec::new();
    let mut texts: Vec<String> = Vec::new();
    for g in 0..n_glyphs {
        let f = fd_of(g);
        let vsindex = cs_vs(g).unwrap_or(private_vs[f].unwrap_or(0) as usize);
        let k = store.datas[vsindex].len();
        let advance = 500 + 10 * g.min(1) as u16 * if mc == 1 || mc == 3 { 1 } else { g as u16 };
        if g == 0 {
            glyphs.push(GlyphM { path: PathModel::default(), flat: vec![], vsindex, advance: 500, lsb: 0 });
            charstrings.push(vec![]);
            texts.push(String::new());
            continue;
        }
        let slot = g - 1;
        let path = build_path(spec, k, 5 * slot);
        let forms = path_forms(&path, &opts);
        let fi = 3 * group + slot;
        if 3 * group >= forms.len() {
            return None;
        }
        let form = forms[fi % forms.len()].clone();
        let policy = [BlendPolicy::AllAtOnce, BlendPolicy::PerOperand, BlendPolicy::VaryingRuns][(slot + group) % 3];
        let hinted = (slot + group) % 3 != 0;
        let use_subrs = (slot + 2 * group) % 3 == 1;
        // program at the variable level
        let mut flat: Vec<VTok> = Vec::new();
        let plan = HintPlan { nh: 2 + slot as u8, nv: if slot == 2 { 8 } else { 1 }, form: if slot == 2 { HintForm::HmImplicit } else { HintForm::Hm }, fill: 0xa5 };
        if hinted {
            let mut pre = plan.prefix();
            let mut n = 0;
            for t in pre.iter_mut() {
                if let VTok::Num(v) = t {
                    if k >= 1 && n % 3 != 2 {
                        v.dl[0] = (n as i32 % 4 - 1) * 32768;
                    }
                    if k >= 2 && n % 2 == 0 {
                        v.dl[1] = int(1);
                    }
                    n += 1;
                }
            }
            flat.extend(pre);
        }
        let mut ops_seen = 0;
        for t in &form {
            flat.push(*t);
            if matches!(t, VTok::Op(_) | VTok::Esc(_)) {
                ops_seen += 1;
                if hinted && ops_seen == 2 {
                    flat.push(VTok::Op(op::HINTMASK));
                    flat.push(plan.mask());
                }
            }
        }
        // byte layout: optionally the middle third in a local and the last third in a global subroutine (cuts after operators)
        let op_ends: Vec<usize> = flat.iter().enumerate().filter(|(i, t)| matches!(t, VTok::Op(_) | VTok::Esc(_)) && !matches!(flat.get(i + 1), Some(VTok::Mask(..)))).map(|(i, _)| i + 1).chain(flat.iter().enumerate().filter(|(_, t)| matches!(t, VTok::Mask(..))).map(|(i, _)| i + 1)).collect();
        let mut ends = op_ends.clone();
        ends.sort();
        // k = 0 (ItemVariationData without regions): the operands still go through blend, `d1..dn n blend` with n = all
        // operands of the operator / 1 / 2 according to the policy
        let ser = |t: &[VTok]| {
            let toks = if k == 0 {
                match policy {
                    BlendPolicy::AllAtOnce => expand_blend_forced(t, 0, 513, false),
                    BlendPolicy::PerOperand => expand_blend_forced(t, 0, 1, false),
                    BlendPolicy::VaryingRuns => expand_blend_forced(t, 0, 2, true),
                }
            } else {
                expand_blend(t, k, policy)
            };
            serialize(&toks, &NumPolicy::SHORTEST).bytes
        };
        let mut prog: Vec<u8> = Vec::new();
        if let Some(j) = cs_vs(g) {
            prog.extend(serialize(&[Tok::Num(int(j as i32)), Tok::Op(op::VSINDEX)], &NumPolicy::SHORTEST).bytes);
        }
        if use_subrs && ends.len() >= 3 {
            let a = ends[ends.len() / 3];
            let b = ends[2 * ends.len() / 3];
            prog.extend(ser(&flat[..a]));
            lsubrs[f].set(slot + 1, ser(&flat[a..b]));
            prog.extend(lsubrs[f].call(slot + 1, false, None));
            gsubrs.set(slot, ser(&flat[b..]));
            prog.extend(gsubrs.call(slot, true, None));
        } else {
            prog.extend(ser(&flat));
        }
        texts.push(format!("{:?}{}{}: {}", policy, if use_subrs { " +local+global subr" } else { "" }, if cs_vs(g).is_some() { " +charstring vsindex" } else { "" }, vtoks_text(&flat)));
        charstrings.push(prog);
        glyphs.push(GlyphM { path, flat, vsindex, advance, lsb: 10 * g as i16 - 15 });
    }
    // Private DICTs
    let mut std_hw: Vec<Option<(V, usize)>> = Vec::new();
    let fds: Vec<PrivateSpec> = (0..n_fds)
        .map(|f| {
            let vs = private_vs[f].unwrap_or(0) as usize;
            let k = store.datas[vs].len();
            let mut extra = Vec::new();
            if pblend == 1 {
                // StdHW as a blended value: default d1..dk 1 blend StdHW (integer deltas)
                let mut v = V::i(50 + f as i32);
                v.dl[0] = int(3);
                if k >= 2 {
                    v.dl[1] = int(-4);
                }
                dict_int(v.d >> 16, &mut extra);
                for r in 0..k {
                    dict_int(v.dl[r] >> 16, &mut extra);
                }
                dict_int(1, &mut extra);
                dict_op(dop::BLEND, &mut extra);
                dict_op(dop::STD_HW, &mut extra);
                std_hw.push(Some((v, vs)));
            } else {
                std_hw.push(None);
            }
            PrivateSpec { subrs: if lsubrs[f].items.is_empty() { None } else { Some(lsubrs[f].clone()) }, vsindex: private_vs[f], extra, ..Default::default() }
        })
        .collect();
    // metrics
    let num_h_metrics: u16 = if mc == 1 || mc == 3 { 2 } else { n_glyphs as u16 };
    let regions: Vec<varenc::RegionAxes> = store.regions.clone();
    let ivs = |subtables: Vec<IvData>| Ivs { regions: regions.clone(), subtables, regions_last: false };
    let hvar = match mc {
        0 | 1 => None,
        2 => Some(Hvar { ivs: ivs(vec![IvData { region_idx: vec![0, 1], rows: (0..n_glyphs as i32).map(|g| vec![40 + 7 * g, -30 + g]).collect(), word_count: 2, long_words: false }]), adv: None, lsb: None, rsb: None }),
        3 => Some(Hvar {
            ivs: ivs(vec![IvData { region_idx: vec![0], rows: vec![vec![100], vec![-37]], word_count: 1, long_words: false }, IvData { region_idx: vec![1, 2], rows: vec![vec![13, 300], vec![0, -1]], word_count: 2, long_words: false }]),
            adv: Some(IndexMap { entries: vec![(0, 1), (1, 0), (1, 0), (1, 0)], inner_bits: 4, entry_size: 1, format: 0 }),
            lsb: None,
            rsb: None,
        }),
        _ => Some(Hvar {
            ivs: ivs(vec![IvData { region_idx: vec![0, 1], rows: vec![vec![64, -64], vec![127, 1], vec![-128, 300]], word_count: 2, long_words: false }]),
            adv: Some(IndexMap { entries: vec![(0, 0), (0, 1), (0, 2), (0, 1)], inner_bits: 8, entry_size: 2, format: 0 }),
            lsb: Some(IndexMap { entries: vec![(0, 2), (0, 2), (0, 0), (0, 1)], inner_bits: 8, entry_size: 2, format: 0 }),
            rsb: None,
        }),
    };
    let axes: Vec<AxisDef> = (0..store.axis_count as usize).map(|i| AxisDef { tag: tag(b"TSTA") + i as u32, min: -65536, def: 0, max: 65536 }).collect();
    let avar = if avar_on == 1 { Some((0..axes.len()).map(|i| if i == 0 { vec![(-ONE, -ONE), (0, 0), (ONE / 2, ONE / 4), (ONE, ONE)] } else { vec![(-ONE, -ONE), (0, 0), (ONE, ONE)] }).collect()) } else { None };
    // user tuples: normalised landmark n -> user 4*n (axes are -1..0..1 in 16.16), plus values beyond the axis range
    let mut users: Vec<Vec<i32>> = Vec::new();
    if store.axis_count == 1 {
        let regs: Vec<(i16, i16, i16)> = store.regions.iter().map(|r| r[0]).collect();
        users.push(vec![-65536 - 0x4000]);
        for n in landmarks_1(&regs, false) {
            users.push(vec![4 * n]);
        }
        users.push(vec![65536 + 0x4000]);
    } else {
        let regs0: Vec<(i16, i16, i16)> = store.regions.iter().map(|r| r[0]).collect();
        let regs1: Vec<(i16, i16, i16)> = store.regions.iter().map(|r| r[1]).collect();
        let mut a: Vec<i32> = landmarks_1(&regs0, !thorough).into_iter().map(|n| 4 * n).collect();
        let mut b: Vec<i32> = landmarks_1(&regs1, true).into_iter().map(|n| 4 * n).collect();
        a.push(65536 + 0x4000);
        b.insert(0, -65536 - 0x4000);
        for x in &a {
            for y in &b {
                users.push(vec![*x, *y]);
            }
        }
    }
    let describe = json!({
        "axes": store.axis_count, "item_variation_data_regions": store.datas.iter().map(|dd| dd.iter().map(|r| format!("{:?}", store.regions[*r as usize])).collect::<Vec<_>>()).collect::<Vec<_>>(),
        "private_dict_vsindex_per_fd": private_vs, "fd_of_glyph": fd_of_glyph, "fdselect_format": if fdc == 2 { 3 } else { 0 },
        "glyph_programs": texts, "glyph_vsindex": glyphs.iter().map(|g| g.vsindex).collect::<Vec<_>>(),
        "hvar": (["none", "none, numberOfHMetrics 2", "direct (no index map)", "advance index map, 2 subtables, numberOfHMetrics 2", "advance + lsb index maps"][mc]),
        "avar": avar_on == 1, "blended_StdHW_in_private_dict": pblend == 1,
    });
    Some(Case { axes, avar, store, glyphs, charstrings, gsubrs, fds, fd_of_glyph, fdselect_format: if fdc == 2 { 3 } else { 0 }, std_hw, hvar, num_h_metrics, users, describe })
}

fn build_font(c: &Case) -> Vec<u8> {
    let n = c.glyphs.len() as u16;
    let cff2 = build_cff2_parts(&c.charstrings, &c.gsubrs, &c.fds, if c.fd_of_glyph.is_empty() { None } else { Some((&c.fd_of_glyph[..], c.fdselect_format)) }, Some(&c.store));
    let nhm = c.num_h_metrics as usize;
    let metrics: Vec<(u16, i16)> = c.glyphs[..nhm].iter().map(|g| (g.advance, g.lsb)).collect();
    let extra: Vec<i16> = c.glyphs[nhm..].iter().map(|g| g.lsb).collect();
    for g in &c.glyphs[nhm..] {
        assert_eq!(g.advance, c.glyphs[nhm - 1].advance, "machinery: glyphs beyond numberOfHMetrics share the last advance");
    }
    let cmap: Vec<(u16, u16)> = (1..n).map(|g| (0x40 + g, g)).collect();
    let mut t: Vec<(u32, Vec<u8>)> = vec![
        (tag(b"head"), tables::head(1000, 1)),
        (tag(b"maxp"), tables::maxp_05(n)),
        (tag(b"hhea"), tables::hhea(c.num_h_metrics)),
        (tag(b"hmtx"), tables::hmtx(&metrics, &extra)),
        (tag(b"cmap"), tables::cmap_table(&[(3, 1, tables::cmap4_subtable(&cmap))])),
        (tag(b"post"), tables::post3()),
        (tag(b"name"), varenc::encode_name(&[(1, "Cff2Model"), (2, "Regular"), (4, "Cff2Model Regular"), (6, "Cff2Model-Regular"), (256, "Axis A"), (257, "Axis B")])),
        (tag(b"OS/2"), tables::os2_v4(0x41, 0x40 + n - 1)),
        (tag(b"CFF2"), cff2),
        (tag(b"fvar"), varenc::encode_fvar(&c.axes)),
    ];
    if let Some(a) = &c.avar {
        t.push((tag(b"avar"), varenc::encode_avar(a)));
    }
    if let Some(h) = &c.hvar {
        t.push((tag(b"HVAR"), varenc::encode_hvar(h, c.axes.len())));
    }
    sfnt::build(sfnt::OTTO, &t)
}

// ------------------------------------------------------------------------------------------------ independent readers

#[derive(Debug, Default)]
struct OutFd {
    /// Private DICT entries: (operator, operands)
    private: Vec<(u16, Vec<f64>)>,
    lsubrs: Option<Vec<Vec<u8>>>,
}

#[derive(Debug, Default)]
struct OutCff2 {
    has_vstore: bool,
    charstrings: Vec<Vec<u8>>,
    gsubrs: Vec<Vec<u8>>,
    fds: Vec<OutFd>,
    fd_of_glyph: Vec<u8>,
}

/// DICT data -> (operator, operands); operators above 0x0c00 are the escaped ones
fn read_dict(d: &[u8]) -> Result<Vec<(u16, Vec<f64>)>, String> {
    let mut out = Vec::new();
    let mut ops: Vec<f64> = Vec::new();
    let mut i = 0;
    while i < d.len() {
        let b = d[i];
        i += 1;
        match b {
            0..=11 | 13..=24 => {
                out.push((b as u16, std::mem::take(&mut ops)));
            }
            12 => {
                let b1 = *d.get(i).ok_or("DICT: truncated escape")?;
                i += 1;
                out.push((0x0c00 | b1 as u16, std::mem::take(&mut ops)));
            }
            28 => {
                let s = d.get(i..i + 2).ok_or("DICT: truncated int16")?;
                i += 2;
                ops.push(i16::from_be_bytes([s[0], s[1]]) as f64);
            }
            29 => {
                let s = d.get(i..i + 4).ok_or("DICT: truncated int32")?;
                i += 4;
                ops.push(i32::from_be_bytes([s[0], s[1], s[2], s[3]]) as f64);
            }
            30 => {
                // binary coded decimal real
                let mut text = String::new();
                'outer: loop {
                    let byte = *d.get(i).ok_or("DICT: truncated real")?;
                    i += 1;
                    for nib in [byte >> 4, byte & 15] {
                        match nib {
                            0..=9 => text.push((b'0' + nib) as char),
                            10 => text.push('.'),
                            11 => text.push('E'),
                            12 => text.push_str("E-"),
                            14 => text.push('-'),
                            15 => break 'outer,
                            _ => return Err("DICT: reserved nibble".into()),
                        }
                    }
                }
                ops.push(text.parse::<f64>().map_err(|_| format!("DICT: bad real {:?}", text))?);
            }
            32..=246 => ops.push(b as f64 - 139.0),
            247..=250 => {
                let b1 = *d.get(i).ok_or("DICT: truncated")? as f64;
                i += 1;
                ops.push((b as f64 - 247.0) * 256.0 + b1 + 108.0);
            }
            251..=254 => {
                let b1 = *d.get(i).ok_or("DICT: truncated")? as f64;
                i += 1;
                ops.push(-(b as f64 - 251.0) * 256.0 - b1 - 108.0);
            }
            _ => return Err(format!("DICT: reserved byte {}", b)),
        }
    }
    if !ops.is_empty() {
        return Err("DICT: operands without operator".into());
    }
    Ok(out)
}

/// CFF2 INDEX at `pos`: objects and the position after the INDEX
fn read_index2(d: &[u8], pos: usize) -> Result<(Vec<Vec<u8>>, usize), String> {
    let mut r = R::at(d, pos);
    let count = r.u32().ok_or("INDEX: truncated count")? as usize;
    if count == 0 {
        return Ok((vec![], pos + 4));
    }
    let off_size = r.u8().ok_or("INDEX: truncated offSize")? as usize;
    if !(1..=4).contains(&off_size) {
        return Err("INDEX: offSize".into());
    }
    let mut offs = Vec::with_capacity(count + 1);
    for _ in 0..=count {
        let s = r.take(off_size).ok_or("INDEX: truncated offsets")?;
        offs.push(s.iter().fold(0usize, |a, b| (a << 8) | *b as usize));
    }
    let base = r.p - 1;
    let mut objs = Vec::with_capacity(count);
    for w in offs.windows(2) {
        if w[0] < 1 || w[1] < w[0] {
            return Err("INDEX: offsets not increasing".into());
        }
        objs.push(d.get(base + w[0]..base + w[1]).ok_or("INDEX: object beyond the table")?.to_vec());
    }
    Ok((objs, base + offs[count]))
}

fn read_cff2(d: &[u8]) -> Result<OutCff2, String> {
    let mut r = R::new(d);
    let major = r.u8().ok_or("header")?;
    let _minor = r.u8().ok_or("header")?;
    let hdr = r.u8().ok_or("header")? as usize;
    let top_len = r.u16().ok_or("header")? as usize;
    if major != 2 {
        return Err("major version is not 2".into());
    }
    let top = read_dict(d.get(hdr..hdr + top_len).ok_or("Top DICT beyond the table")?)?;
    let get = |o: u16| top.iter().find(|e| e.0 == o).and_then(|e| e.1.first().copied()).map(|v| v as usize);
    let (gsubrs, _) = read_index2(d, hdr + top_len)?;
    let mut out = OutCff2 { has_vstore: get(dop::VSTORE).is_some(), gsubrs, ..Default::default() };
    out.charstrings = read_index2(d, get(dop::CHARSTRINGS).ok_or("no CharStrings operator")?)?.0;
    let (fdarray, _) = read_index2(d, get(dop::FD_ARRAY).ok_or("no FDArray operator")?)?;
    for fd in &fdarray {
        let fdict = read_dict(fd)?;
        let p = fdict.iter().find(|e| e.0 == dop::PRIVATE).ok_or("Font DICT without Private")?;
        if p.1.len() != 2 {
            return Err("Private operator needs two operands".into());
        }
        let (size, off) = (p.1[0] as usize, p.1[1] as usize);
        let private = read_dict(d.get(off..off + size).ok_or("Private DICT beyond the table")?)?;
        let lsubrs = match private.iter().find(|e| e.0 == dop::SUBRS).and_then(|e| e.1.first().copied()) {
            Some(rel) => Some(read_index2(d, off + rel as usize)?.0),
            None => None,
        };
        out.fds.push(OutFd { private, lsubrs });
    }
    let n = out.charstrings.len();
    out.fd_of_glyph = match get(dop::FD_SELECT) {
        None => {
            if out.fds.len() > 1 {
                return Err("several Font DICTs but no FDSelect".into());
            }
            vec![0; n]
        }
        Some(pos) => {
            let mut r = R::at(d, pos);
            match r.u8().ok_or("FDSelect")? {
                0 => r.take(n).ok_or("FDSelect format 0 truncated")?.to_vec(),
                3 => {
                    let nr = r.u16().ok_or("FDSelect")? as usize;
                    let mut ranges = Vec::new();
                    for _ in 0..nr {
                        ranges.push((r.u16().ok_or("FDSelect")? as usize, r.u8().ok_or("FDSelect")?));
                    }
                    let sentinel = r.u16().ok_or("FDSelect")? as usize;
                    let mut v = vec![255u8; n];
                    for (i, (first, fd)) in ranges.iter().enumerate() {
                        let end = ranges.get(i + 1).map(|x| x.0).unwrap_or(sentinel);
                        for g in *first..end.min(n) {
                            v[g] = *fd;
                        }
                    }
                    v
                }
                f => return Err(format!("FDSelect format {}", f)),
            }
        }
    };
    if out.fd_of_glyph.iter().any(|f| *f as usize >= out.fds.len()) {
        return Err("FDSelect names a Font DICT that does not exist".into());
    }
    Ok(out)
}

/// one hint operator as it is executed: (operator, operands, mask bytes)
#[derive(Clone, Debug, PartialEq)]
struct HintEv {
    opc: u8,
    args: Vec<f64>,
    mask: Vec<u8>,
}

#[derive(Default, Debug)]
struct Walk {
    hints: Vec<HintEv>,
    blend_ops: usize,
    vsindex_ops: usize,
    nstems: usize,
}

/// Tokenise a *static* CFF2 charstring, descending into subroutines: records blend / vsindex operators (which a static
/// font must not contain) and every stem / mask operator with its operands and mask bytes.
fn walk(cs: &[u8], lsubrs: Option<&[Vec<u8>]>, gsubrs: &[Vec<u8>], stack: &mut Vec<f64>, w: &mut Walk, depth: usize) -> Result<(), String> {
    if depth > 10 {
        return Err("subroutine nesting".into());
    }
    let bias = |n: usize| if n < 1240 { 107 } else if n < 33900 { 1131 } else { 32768 };
    let mut i = 0;
    while i < cs.len() {
        let b = cs[i];
        i += 1;
        match b {
            32..=246 => stack.push(b as f64 - 139.0),
            247..=250 => {
                let b1 = *cs.get(i).ok_or("truncated number")? as f64;
                i += 1;
                stack.push((b as f64 - 247.0) * 256.0 + b1 + 108.0);
            }
            251..=254 => {
                let b1 = *cs.get(i).ok_or("truncated number")? as f64;
                i += 1;
                stack.push(-(b as f64 - 251.0) * 256.0 - b1 - 108.0);
            }
            28 => {
                let s = cs.get(i..i + 2).ok_or("truncated number")?;
                i += 2;
                stack.push(i16::from_be_bytes([s[0], s[1]]) as f64);
            }
            255 => {
                let s = cs.get(i..i + 4).ok_or("truncated number")?;
                i += 4;
                stack.push(i32::from_be_bytes([s[0], s[1], s[2], s[3]]) as f64 / 65536.0);
            }
            op::BLEND => {
                w.blend_ops += 1;
                return Ok(());
            }
            op::VSINDEX => {
                w.vsindex_ops += 1;
                stack.clear();
            }
            op::HSTEM | op::VSTEM | op::HSTEMHM | op::VSTEMHM => {
                w.nstems += stack.len() / 2;
                w.hints.push(HintEv { opc: b, args: std::mem::take(stack), mask: vec![] });
            }
            op::HINTMASK | op::CNTRMASK => {
                w.nstems += stack.len() / 2;
                let n = (w.nstems + 7) / 8;
                let m = cs.get(i..i + n).ok_or("mask runs past the end of the charstring")?.to_vec();
                i += n;
                w.hints.push(HintEv { opc: b, args: std::mem::take(stack), mask: m });
            }
            op::CALLSUBR | op::CALLGSUBR => {
                let v = stack.pop().ok_or("call without operand")?;
                let list: &[Vec<u8>] = if b == op::CALLSUBR { lsubrs.ok_or("callsubr without local subroutines")? } else { gsubrs };
                let n = v as i64 + bias(list.len());
                let sub = list.get(usize::try_from(n).map_err(|_| "negative subroutine number")?).ok_or("subroutine number out of range")?;
                walk(sub, lsubrs, gsubrs, stack, w, depth + 1)?;
                if w.blend_ops > 0 {
                    return Ok(());
                }
            }
            op::ESCAPE => {
                i += 1;
                stack.clear();
            }
            _ => stack.clear(),
        }
    }
    Ok(())
}

#[derive(Default)]
struct Rec(Vec<Cmd>);

impl OutlineSink for Rec {
    fn move_to(&mut self, to: Vector2F) {
        self.0.push((0, [to.x() as f64, to.y() as f64, 0., 0., 0., 0.]));
    }
    fn line_to(&mut self, to: Vector2F) {
        self.0.push((1, [to.x() as f64, to.y() as f64, 0., 0., 0., 0.]));
    }
    fn quadratic_curve_to(&mut self, c: Vector2F, to: Vector2F) {
        self.0.push((2, [c.x() as f64, c.y() as f64, to.x() as f64, to.y() as f64, 0., 0.]));
    }
    fn cubic_curve_to(&mut self, c: LineSegment2F, to: Vector2F) {
        self.0.push((3, [c.from_x() as f64, c.from_y() as f64, c.to_x() as f64, c.to_y() as f64, to.x() as f64, to.y() as f64]));
    }
    fn close(&mut self) {
        self.0.push((4, [0.; 6]));
    }
}

fn drop_stray_closes(c: &[Cmd]) -> Vec<Cmd> {
    let mut out = Vec::new();
    let mut open = false;
    for x in c {
        if x.0 == 4 {
            if open {
                out.push(*x);
            }
            open = false;
        } else {
            open = true;
            out.push(*x);
        }
    }
    out
}

fn same_path(a: &[Cmd], b: &[Cmd], tol: f64) -> bool {
    a.len() == b.len() && a.iter().zip(b.iter()).all(|(x, y)| x.0 == y.0 && x.1.iter().zip(y.1.iter()).all(|(u, v)| (u - v).abs() <= tol))
}

fn cmds_json(c: &[Cmd]) -> Value {
    Value::Array(
        c.iter()
            .map(|(k, a)| {
                let (name, n) = match k {
                    0 => ("M", 2),
                    1 => ("L", 2),
                    2 => ("Q", 4),
                    3 => ("C", 6),
                    _ => ("Z", 0),
                };
                json!([name, a[..n].to_vec()])
            })
            .collect(),
    )
}

// ------------------------------------------------------------------------------------------------ the check

/// accepted ways of writing a blended operand into the static charstring
const POLICIES: [&str; 3] = ["unrounded", "rounded floor(x+0.5)", "rounded half away from zero"];

fn round_policy(p: usize, v: f64) -> f64 {
    match p {
        0 => v,
        1 => (v + 0.5).floor(),
        _ => v.round(),
    }
}

fn expected_path(path: &PathModel, scalars: &[f64], policy: usize) -> Vec<Cmd> {
    let mut out = Vec::new();
    if policy == 0 {
        eval(path, scalars, (0.0, 0.0), &mut out);
    } else {
        let fix = |v: &V| V::c((round_policy(policy, v.at(scalars)) * 65536.0) as F);
        let rounded = PathModel {
            contours: path
                .contours
                .iter()
                .map(|c| Contour {
                    mv: [fix(&c.mv[0]), fix(&c.mv[1])],
                    segs: c
                        .segs
                        .iter()
                        .map(|s| match s {
                            Seg::Line(a) => Seg::Line([fix(&a[0]), fix(&a[1])]),
                            Seg::Curve(a) => Seg::Curve([fix(&a[0]), fix(&a[1]), fix(&a[2]), fix(&a[3]), fix(&a[4]), fix(&a[5])]),
                        })
                        .collect(),
                })
                .collect(),
        };
        eval(&rounded, &[], (0.0, 0.0), &mut out);
    }
    out
}

fn expected_hints(flat: &[VTok], scalars: &[f64]) -> Vec<HintEv> {
    let mut out: Vec<HintEv> = Vec::new();
    let mut run: Vec<f64> = Vec::new();
    for t in flat {
        match t {
            VTok::Num(v) => run.push(v.at(scalars)),
            VTok::Op(o) if matches!(*o, op::HSTEM | op::VSTEM | op::HSTEMHM | op::VSTEMHM | op::HINTMASK | op::CNTRMASK) => out.push(HintEv { opc: *o, args: std::mem::take(&mut run), mask: vec![] }),
            VTok::Mask(b, n) => {
                if let Some(l) = out.last_mut() {
                    l.mask = b[..*n as usize].to_vec();
                }
            }
            _ => run.clear(),
        }
    }
    out
}

fn operand_ok(want: f64, got: f64) -> bool {
    (0..POLICIES.len()).any(|p| (round_policy(p, want) - got).abs() <= TOL)
}

fn err_class(e: &str) -> String {
    e.chars().map(|c| if c.is_ascii_alphanumeric() { c } else { '-' }).take(48).collect::<String>().trim_matches('-').to_string()
}

fn panic_site(p: &mcx::PanicInfo) -> String {
    let root = p.file.find("/src/").map(|i| p.file[..i].to_string()).unwrap_or_else(|| "/repo".to_string());
    p.site_key(&root)
}

fn witness(case: &Case, idx: &[usize], font: &[u8], user: &[i32], extra: Value) -> Value {
    json!({"family": "cff2", "idx": idx, "user_tuple_16.16": user, "case": case.describe, "font_hex": mcx::hex(font), "detail": extra})
}

/// Worker threads finish in arbitrary order: the witness kept per key is the case with the smallest case hash, so that two
/// runs write identical replay files.
#[derive(Default)]
struct Collect {
    viols: std::sync::Mutex<std::collections::BTreeMap<String, (u64, u64, Value)>>,
}

impl Collect {
    fn violation(&self, key: &str, id: u64, mk: impl FnOnce() -> Value) {
        let mut v = self.viols.lock().unwrap();
        match v.get_mut(key) {
            Some(e) => {
                e.0 += 1;
                if id < e.1 {
                    e.1 = id;
                    e.2 = mk();
                }
            }
            None => {
                v.insert(key.to_string(), (1, id, mk()));
            }
        }
    }
    fn flush(&self, ctx: &Ctx) {
        let v = std::mem::take(&mut *self.viols.lock().unwrap());
        for (key, (count, _id, w)) in v {
            let mut w = Some(w);
            for _ in 0..count {
                ctx.violation(&key, || w.take().unwrap_or(Value::Null));
            }
        }
    }
}

fn case_id(idx: &[usize], user: &[i32]) -> u64 {
    H::new().str("cff2").bytes(&idx.iter().map(|x| *x as u8).collect::<Vec<u8>>()).bytes(&user.iter().flat_map(|u| u.to_be_bytes()).collect::<Vec<u8>>()).get()
}

/// one (font, user tuple): returns (outcome hash, non-trivial)
fn check_one(col: &Collect, case: &Case, idx: &[usize], font: &[u8], provider: &impl FontTableProvider, user: &[i32]) -> (u64, bool) {
    let id = case_id(idx, user);
    let viol = |key: &str, extra: Value| col.violation(key, id, || witness(case, idx, font, user, extra));
    let fixed: Vec<Fixed> = user.iter().map(|u| Fixed::from_raw(*u)).collect();
    let r = guard(|| allsorts::variations::instance(provider, &fixed).map(|(out, t)| (out, t.iter().map(|v| v.raw_value()).collect::<Vec<i16>>())));
    let (out, coords) = match r {
        Err(p) => {
            viol(&format!("C12:cff2:panic:{}", panic_site(&p)), json!({"panic": p.msg, "at": p.loc()}));
            return (H::new().str("panic").get(), false);
        }
        Ok(Err(e)) => {
            let e = format!("{:?}", e);
            viol(&format!("C12:cff2:wellformed-font-rejected:{}", err_class(&e)), json!({"error": e}));
            return (H::new().str("error").get(), false);
        }
        Ok(Ok(x)) => x,
    };
    // normalised coordinates: exact without avar, within one unit of the exact avar value otherwise (C13 decides normalisation)
    for (i, a) in case.axes.iter().enumerate() {
        let map = case.avar.as_ref().map(|m| m[i].as_slice());
        let want = varenc::normalise(a, map, user[i] as i64);
        let ok = match coords.get(i) {
            None => false,
            Some(g) => {
                if case.avar.is_none() {
                    want == Rat::int(*g as i64)
                } else {
                    want.within(*g as i64, 1, 1)
                }
            }
        };
        if !ok {
            viol("C12:cff2:normalised-coordinate-mismatch", json!({"axis": i, "expected_2.14": want.to_f64(), "got_tuple": coords}));
            return (H::new().str("norm").get(), false);
        }
    }
    let at_default = user.iter().zip(&case.axes).all(|(u, a)| *u == a.def);

    // machinery self-test: the source charstrings, read by the reference interpreter at this tuple, give the path model
    let scalars_of = |vi: usize| scalars_for(&case.store, vi, &coords);
    {
        let fd_of = |g: u16| case.fd_of_glyph.get(g as usize).copied().unwrap_or(0) as usize;
        let none = |_c: u8| -> Option<u16> { None };
        let sc = |vi: usize| -> Option<Vec<f64>> {
            if vi < case.store.datas.len() {
                Some(scalars_of(vi))
            } else {
                None
            }
        };
        let env = Env { cff2: true, charstrings: &case.charstrings, gsubrs: &case.gsubrs, lsubrs_by_fd: case.fds.iter().map(|f| f.subrs.as_ref()).collect(), fd_of_glyph: &fd_of, seac_gid: &none, scalars: &sc, default_vsindex_by_fd: case.fds.iter().map(|f| f.vsindex.unwrap_or(0) as usize).collect(), dev: Dev::default() };
        for (g, gm) in case.glyphs.iter().enumerate() {
            let got = env.interpret(g as u16).unwrap_or_else(|e| panic!("machinery: reference interpreter rejects source glyph {} of {:?}: {}", g, idx, e));
            let want = expected_path(&gm.path, &scalars_of(gm.vsindex), 0);
            assert!(same_path(&want, &got, 1e-9), "machinery: source glyph {} of {:?} does not encode the path model", g, idx);
        }
    }

    // (1) static, loadable output
    let of = match sfnt::parse(&out) {
        Some(f) => f,
        None => {
            viol("C12:cff2:output-unreadable", json!({"output_hex": mcx::hex(&out)}));
            return (H::new().str("unreadable").get(), false);
        }
    };
    for t in [b"fvar", b"avar", b"gvar", b"cvar", b"HVAR", b"MVAR", b"VVAR"] {
        if of.table(tag(t)).is_some() {
            viol("C12:cff2:variation-table-left-in-output", json!({"table": String::from_utf8_lossy(t)}));
        }
    }
    let loaded = guard(|| {
        let fd = ReadScope::new(&out).read::<FontData<'_>>().map_err(|e| format!("FontData {:?}", e))?;
        let p = fd.table_provider(0).map_err(|e| format!("table_provider {:?}", e))?;
        let f = Font::new(p).map_err(|e| format!("Font::new {:?}", e))?;
        Ok::<(bool, u16), String>((f.is_variable(), f.num_glyphs()))
    });
    match loaded {
        Err(p) => viol(&format!("C12:cff2:panic:{}", panic_site(&p)), json!({"panic_loading_output": p.msg})),
        Ok(Err(e)) => viol(&format!("C12:cff2:output-does-not-load:{}", err_class(&e)), json!({"error": e})),
        Ok(Ok((var, n))) => {
            if var {
                viol("C12:cff2:output-is-still-variable", json!({}));
            }
            if n as usize != case.glyphs.len() {
                viol("C12:cff2:glyph-count-changed", json!({"num_glyphs": n}));
            }
        }
    }
    let cff2_bytes = match of.table(tag(b"CFF2")) {
        Some(b) => b,
        None => {
            viol("C12:cff2:no-CFF2-table-in-output", json!({"tags": of.tags().iter().map(|t| otmodel::tag_str(*t)).collect::<Vec<_>>()}));
            return (H::new().str("nocff2").get(), false);
        }
    };
    let oc = match read_cff2(cff2_bytes) {
        Ok(o) => o,
        Err(e) => {
            viol(&format!("C12:cff2:output-CFF2-unreadable:{}", err_class(&e)), json!({"problem": e, "cff2_hex": mcx::hex(cff2_bytes)}));
            return (H::new().str("badcff2").get(), false);
        }
    };
    if oc.has_vstore {
        viol("C12:cff2:variation-store-left-in-output", json!({}));
    }
    if oc.charstrings.len() != case.glyphs.len() {
        viol("C12:cff2:glyph-count-changed", json!({"charstrings_in_output": oc.charstrings.len()}));
        return (H::new().str("count").get(), false);
    }
    // Private DICTs: no blend left; a blended StdHW has the interpolated value
    for (f, fd) in oc.fds.iter().enumerate() {
        if fd.private.iter().any(|e| e.0 == dop::BLEND) {
            viol("C12:cff2:blend-operator-left-in-private-dict", json!({"font_dict": f}));
        }
    }
    if oc.fds.len() == case.fds.len() {
        for (f, hw) in case.std_hw.iter().enumerate() {
            if let Some((v, vs)) = hw {
                let want = v.at(&scalars_of(*vs));
                let got = oc.fds[f].private.iter().find(|e| e.0 == dop::STD_HW).map(|e| e.1.clone());
                let ok = matches!(&got, Some(a) if a.len() == 1 && operand_ok(want, a[0]));
                if !ok {
                    viol("C12:cff2:private-dict-blended-value", json!({"font_dict": f, "operator": "StdHW", "expected": want, "got_operands": got, "vsindex": vs, "region_scalars": scalars_of(*vs)}));
                }
            }
        }
    } else {
        viol("C12:cff2:font-dict-count-changed", json!({"font_dicts_in_output": oc.fds.len()}));
    }

    // (2) + (4): charstrings
    let gs = SubrIndex::dense(oc.gsubrs.clone());
    let ls: Vec<Option<SubrIndex>> = oc.fds.iter().map(|f| f.lsubrs.as_ref().map(|l| SubrIndex::dense(l.clone()))).collect();
    let fd_of = |g: u16| oc.fd_of_glyph[g as usize] as usize;
    let none = |_c: u8| -> Option<u16> { None };
    let no_scalars = |_vi: usize| -> Option<Vec<f64>> { None };
    let env = Env { cff2: true, charstrings: &oc.charstrings, gsubrs: &gs, lsubrs_by_fd: ls.iter().map(|l| l.as_ref()).collect(), fd_of_glyph: &fd_of, seac_gid: &none, scalars: &no_scalars, default_vsindex_by_fd: vec![0; oc.fds.len()], dev: Dev::default() };
    let visitor_paths: Result<Vec<Result<Vec<Cmd>, String>>, mcx::PanicInfo> = guard(|| {
        let t = ReadScope::new(cff2_bytes).read::<CFF2<'_>>();
        (0..case.glyphs.len() as u16)
            .map(|g| match &t {
                Err(e) => Err(format!("CFF2 {:?}", e)),
                Ok(t) => {
                    let mut rec = Rec::default();
                    let mut o = CFF2Outlines { table: t, tuple: None };
                    o.visit(g, &mut rec).map(|_| rec.0).map_err(|e| format!("{:?}", e))
                }
            })
            .collect()
    });
    let mut nontrivial = false;
    let mut h = H::new();
    for (g, gm) in case.glyphs.iter().enumerate() {
        let scalars = scalars_of(gm.vsindex);
        if scalars.iter().any(|s| *s != 0.0) && !gm.flat.is_empty() {
            nontrivial = true;
        }
        h = h.bytes(&oc.charstrings[g]);
        let f = oc.fd_of_glyph[g] as usize;
        let mut w = Walk::default();
        let wr = walk(&oc.charstrings[g], oc.fds[f].lsubrs.as_deref(), &oc.gsubrs, &mut Vec::new(), &mut w, 0);
        if w.blend_ops > 0 {
            viol("C12:cff2:blend-operator-left-in-charstring", json!({"glyph": g, "charstring_hex": mcx::hex(&oc.charstrings[g])}));
            continue;
        }
        if w.vsindex_ops > 0 {
            viol("C12:cff2:vsindex-operator-left-in-charstring", json!({"glyph": g, "charstring_hex": mcx::hex(&oc.charstrings[g])}));
        }
        if let Err(e) = wr {
            viol(&format!("C12:cff2:output-charstring-invalid:{}", err_class(&e)), json!({"glyph": g, "problem": e, "charstring_hex": mcx::hex(&oc.charstrings[g])}));
            continue;
        }
        // hint operators
        let eh = expected_hints(&gm.flat, &scalars);
        let hints_ok = eh.len() == w.hints.len() && eh.iter().zip(w.hints.iter()).all(|(a, b)| a.opc == b.opc && a.mask == b.mask && a.args.len() == b.args.len() && a.args.iter().zip(b.args.iter()).all(|(x, y)| operand_ok(*x, *y)));
        if !hints_ok {
            let structure = eh.len() == w.hints.len() && eh.iter().zip(w.hints.iter()).all(|(a, b)| a.opc == b.opc && a.mask == b.mask && a.args.len() == b.args.len());
            viol(if structure { "C12:cff2:stem-operand-values" } else { "C12:cff2:hint-operators-not-preserved" }, json!({"glyph": g, "expected": eh.iter().map(|e| json!([op_name(e.opc), e.args, mcx::hex(&e.mask)])).collect::<Vec<_>>(), "got": w.hints.iter().map(|e| json!([op_name(e.opc), e.args, mcx::hex(&e.mask)])).collect::<Vec<_>>(), "region_scalars": scalars}));
        }
        // path, independent interpreter
        let got = match env.interpret(g as u16) {
            Ok(p) => p,
            Err(e) => {
                viol(&format!("C12:cff2:output-charstring-invalid:{}", err_class(&e)), json!({"glyph": g, "problem": e, "charstring_hex": mcx::hex(&oc.charstrings[g])}));
                continue;
            }
        };
        let exact = expected_path(&gm.path, &scalars, 0);
        let ok = if at_default { same_path(&exact, &got, 1e-9) } else { (0..POLICIES.len()).any(|p| same_path(&expected_path(&gm.path, &scalars, p), &got, TOL)) };
        if !ok {
            viol(if at_default { "C12:cff2:default-instance-differs-from-default-master" } else { "C12:cff2:path-differs-from-variation-model" }, json!({"glyph": g, "vsindex": gm.vsindex, "region_scalars": scalars, "normalised_tuple": coords, "expected_path": cmds_json(&exact), "output_path": cmds_json(&got), "output_charstring_hex": mcx::hex(&oc.charstrings[g])}));
        }
        // second seam: allsorts' own visitor on the output, without a tuple
        match &visitor_paths {
            Err(p) => viol(&format!("C12:cff2:panic:{}", panic_site(p)), json!({"panic_visiting_output": p.msg})),
            Ok(v) => match &v[g] {
                Err(e) => viol(&format!("C12:cff2:visitor-rejects-output-glyph:{}", err_class(e)), json!({"glyph": g, "error": e})),
                Ok(p) => {
                    if !same_path(&drop_stray_closes(p), &got, 1e-3) {
                        viol("C12:cff2:visitor-and-interpreter-disagree-on-output", json!({"glyph": g, "visitor": cmds_json(p), "interpreter": cmds_json(&got)}));
                    }
                }
            },
        }
    }

    // (3) metrics
    let n = case.glyphs.len() as u16;
    let nhm = of.table(tag(b"hhea")).and_then(|t| otmodel::be::u16_at(t, 34));
    let hm = match (of.table(tag(b"hmtx")), nhm) {
        (Some(t), Some(nhm)) if nhm >= 1 && nhm <= n && t.len() == 4 * nhm as usize + 2 * (n - nhm) as usize => otmodel::read::hmtx_metrics(t, n, nhm),
        _ => None,
    };
    match hm {
        None => viol("C12:cff2:hmtx-inconsistent-with-numberOfHMetrics", json!({"numberOfHMetrics": nhm, "hmtx_length": of.table(tag(b"hmtx")).map(|t| t.len()), "num_glyphs": n, "source_numberOfHMetrics": case.num_h_metrics})),
        Some(m) => {
            let o = EvalOpts::default();
            for (g, gm) in case.glyphs.iter().enumerate() {
                h = h.u64(m[g].0 as u64).u64(m[g].1 as u64);
                let adv = match &case.hvar {
                    Some(hv) => Rat::int(gm.advance as i64).add(varenc::hvar_advance_delta(hv, g, &coords, &o).expect("machinery: HVAR model")),
                    None => Rat::int(gm.advance as i64),
                };
                let adv_ok = if case.hvar.is_some() { adv.within(m[g].0 as i64, 1025, 1024) } else { adv == Rat::int(m[g].0 as i64) };
                if !adv_ok {
                    viol("C12:cff2:advance-width", json!({"glyph": g, "expected": adv.to_f64(), "got": m[g].0, "default": gm.advance}));
                }
                let lsb = match case.hvar.as_ref().and_then(|hv| varenc::hvar_lsb_delta(hv, g, &coords, &o)) {
                    Some(d) => (Rat::int(gm.lsb as i64).add(d), false),
                    None => (Rat::int(gm.lsb as i64), true),
                };
                let lsb_ok = if lsb.1 { lsb.0 == Rat::int(m[g].1 as i64) } else { lsb.0.within(m[g].1 as i64, 1025, 1024) };
                if !lsb_ok {
                    viol("C12:cff2:left-side-bearing", json!({"glyph": g, "expected": lsb.0.to_f64(), "got": m[g].1, "default": gm.lsb, "hvar_maps_lsb": !lsb.1}));
                }
            }
        }
    }
    (h.get(), nontrivial)
}

fn decode(mut flat: usize, dims: &[usize]) -> Vec<usize> {
    let mut v = vec![0; dims.len()];
    for i in (0..dims.len()).rev() {
        v[i] = flat % dims[i];
        flat /= dims[i];
    }
    v
}

fn run_case(ctx: &Ctx, col: &Collect, idx: &[usize], case: &Case, users: &[Vec<i32>]) {
    let font = build_font(case);
    let problems = sfnt::validate(&font);
    assert!(problems.is_empty(), "machinery: model font {:?} is not a valid sfnt: {:?}", idx, problems);
    let fd = ReadScope::new(&font).read::<FontData<'_>>().expect("machinery: FontData");
    let provider = fd.table_provider(0).expect("machinery: provider");
    for user in users {
        let (oh, nontrivial) = check_one(col, case, idx, &font, &provider, user);
        let id = case_id(idx, user);
        if nontrivial {
            ctx.mark_nontrivial(id);
        }
        ctx.mark_outcome(oh);
        ctx.sample(id, || json!({"family": "cff2", "idx": idx, "user_tuple_16.16": user, "case": case.describe}));
    }
    let n = users.len() as u64;
    ctx.evals(n);
    ctx.add_states(n + 1);
    ctx.add_transitions(n);
}

/// The CFF2 family of C12; called at the end of `c12::run`.
pub fn run_phase(ctx: &Ctx) {
    let thorough = ctx.tier.thorough();
    let d = dims(thorough);
    let total: usize = d.iter().product();
    let fonts = std::sync::atomic::AtomicU64::new(0);
    let col = Collect::default();
    (0..total).into_par_iter().for_each(|flat| {
        let idx = decode(flat, &d);
        if !in_tier(&idx, thorough) {
            return;
        }
        if let Some(case) = gen(&idx, thorough) {
            fonts.fetch_add(1, std::sync::atomic::Ordering::Relaxed);
            run_case(ctx, &col, &idx, &case, &case.users);
        }
    });
    col.flush(ctx);
    ctx.assume("cff2: a blended operand may be written unrounded (16.16) or rounded to an integer (floor(x+0.5) or half away from zero); the output path is compared within 0.01 unit per coordinate against the model evaluated under each of these policies at the normalised tuple the library reports; at the default tuple the default master is demanded exactly");
    ctx.assume("cff2: the instancer may inline or keep subroutines and may re-encode path operators; only the drawn path, the stem / mask operators (operator, operand count, blended operand values, mask bytes) and the absence of blend / vsindex are demanded; a vsindex left in a Private DICT is not reported");
    ctx.assume("cff2: advance = hmtx default + HVAR delta within one unit (exactly the default without HVAR); lsb = default + HVAR lsb delta when HVAR maps side bearings, else unchanged");
    ctx.set(
        "cff2_bounds",
        json!({
            "fonts": fonts.load(std::sync::atomic::Ordering::Relaxed),
            "index_space": {"variation_store": "1 axis / 2 axes, 4 regions, 4 ItemVariationData (1..2 regions); 1 axis, 4 regions, 4 ItemVariationData with 0 2 0 1 regions (regionIndexCount = 0: operands written `d1..dn n blend` with n = operator operand count / 1 / 2 alternating with plain operands, blended StdHW `d 1 blend`)", "vsindex": "absent, Private DICT 1/2/3, charstring operator overriding the Private DICT (all glyphs / one glyph)", "path_specs": d[2], "form_groups_of_3": d[3], "font_dicts": "1, 2 with FDSelect format 0, 2 with format 3 (different vsindex and local subrs per FD)", "metrics": "no HVAR; no HVAR with numberOfHMetrics 2; HVAR direct; HVAR advance index map over 2 subtables with numberOfHMetrics 2; HVAR advance + lsb maps", "avar": [false, true], "blended_StdHW_in_private_dict": [false, true]},
            "per_font": "3 drawn glyphs: blend all-at-once / per-operand / runs of varying operands, rotating with: stems + hintmask (blended stem operands, implicit vstem, mid-path hintmask), middle third in a local and last third in a global subroutine containing blend",
            "quick_restriction": "at most one of (font dicts, metrics, avar, private blend) departs from its default",
            "user_tuples": "1 axis: every region start/peak/end +-1 unit, midpoints, 0, +-1 unit, +-1, beyond both ends; 2 axes: product of per-axis menus (second axis and, in quick, the first: -1 -0.5 -1unit 0 0.25 0.5-1unit 0.5 1; thorough first axis: the full landmark list; plus beyond one end each)",
        }),
    );
}

pub fn replay(w: &Value) -> Result<(), String> {
    let idx: Vec<usize> = w["idx"].as_array().ok_or("witness has no idx")?.iter().map(|v| v.as_u64().unwrap_or(0) as usize).collect();
    let user: Vec<i32> = w["user_tuple_16.16"].as_array().ok_or("witness has no user tuple")?.iter().map(|v| v.as_i64().unwrap_or(0) as i32).collect();
    let case = gen(&idx, true).ok_or("the index vector does not denote a case")?;
    if let Some(hexs) = w["font_hex"].as_str() {
        if mcx::unhex(hexs) != build_font(&case) {
            return Err("machinery: the regenerated model font differs from the recorded font bytes".into());
        }
    }
    let ctx = Ctx::new("C12", mcx::Tier::Quick, "model_checking");
    let users = if user.is_empty() { case.users.clone() } else { vec![user] };
    let col = Collect::default();
    run_case(&ctx, &col, &idx, &case, &users);
    col.flush(&ctx);
    let keys = ctx.violation_keys();
    if keys.is_empty() {
        Ok(())
    } else {
        Err(format!("{:?}", keys))
    }
}
