//! C04 — glyph substitution follows OpenType GSUB lookup semantics.
//!
//! Bounded exhaustive exploration: a catalogue of abstract GSUB programs over the 8-glyph universe
//! (0 .notdef, 1 a, 2 b, 3 c, 4 L(igature), 5 m1, 6 m2, 7 x) is encoded to binary by `otmodel::gsubenc`
//! (written from the specification), run through the real allsorts code on every glyph string over
//! {a,b,L,m1,m2} up to a length bound, and the resulting run (glyph ids, unicodes, LIGATURE /
//! MULTI_SUBST_DUP flags, liga_component_pos of marks) is compared with the reference list-rewriting
//! interpreter `gsubenc::apply_gsub` executed on the *abstract* program.
//!
//! Program classes: (i) "single": one lookup (every type / format, >= 2 subtables) x 27 lookup-flag
//! settings; "ctxflags": every contextual template x 27 flag settings with a nested single substitution at
//! every sequence index; (ii) "pair": ordered pairs of lookups in one / two features, both language-system
//! orders, both caller orders, both index-array orders, 'rvrn'; "shared": one lookup index listed by two / three
//! enabled features, twice by one feature, overlapping index sets, with lookups that are not idempotent; (iii) "nest": contextual templates x nested
//! lookups of every type at every sequence index, two-record combinations, nesting depth up to and beyond
//! the recursion limit; (iv) "variations": FeatureVariations x tuples at and around the range edges;
//! "reach": contextual rules at / next to the start of the run whose nested ligature consumes glyphs beyond the
//! matched input, strings over {a,b,m1} up to length 7 (quick) / 8 (thorough);
//! "misc": modulo-65536 deltas, no GDEF, script selection;
//! (v) "frac": FeatureMask::FRAC on the Features::Mask path (lookups of 'frac' only inside ASCII fractions): lookup lists
//! over ccmp (1->2), liga (2->1, 3->1) and frac (single, 2->1, 1->2) lookups in every relative order x all texts
//! prefix + fraction + between + second fraction + tail, against a piece-wise reference on the original text.
//! Seams: gsub::apply + Features::Custom on new_layout_cache(LayoutTable<GSUB>) (every encoding with <= 2
//! non-default choices among Coverage 1/2, ClassDef 1/2, Extension), gsub::apply + Features::Mask, and
//! Font::shape on a wrapped sfnt.
//!
//! A mismatch is attributed to a precise key only if the observed output equals the reference run with the
//! corresponding deviation switch(es); everything else is "C04:mismatch:...".

use allsorts::binary::read::ReadScope;
use allsorts::font::MatchingPresentation;
use allsorts::gsub::{self, FeatureInfo, FeatureMask, Features, GlyphOrigin, RawGlyph, RawGlyphFlags};
use allsorts::layout::{new_layout_cache, GDEFTable, LayoutCache, LayoutTable, GSUB};
use allsorts::tables::variable_fonts::Tuple;
use allsorts::tables::F2Dot14;
use mcx::{guard, hex, Ctx, PanicInfo, H};
use otmodel::gsubenc::*;
use otmodel::tag;
use rayon::prelude::*;
use serde_json::{json, Value as J};
use std::collections::BTreeMap;

use crate::util::with_font;

const A: G = 1;
const B: G = 2;
const C: G = 3;
const L: G = 4;
const M1: G = 5;
const M2: G = 6;
const X: G = 7;
const ALPHABET: [G; 5] = [A, B, L, M1, M2];

const T_CALT: u32 = tag(b"calt");
const T_LIGA: u32 = tag(b"liga");
const T_RVRN: u32 = tag(b"rvrn");
const T_CLIG: u32 = tag(b"clig");
const T_LATN: u32 = tag(b"latn");
const T_DFLT: u32 = tag(b"DFLT");

const MFS: u16 = USE_MARK_FILTERING_SET;

const SEAM_CUSTOM: u8 = 1;
const SEAM_MASK: u8 = 2;
const SEAM_SHAPE: u8 = 4;

type Fl = (u16, u16);

fn flag_atoms() -> Vec<(&'static str, Fl)> {
    vec![
        ("IgnoreBase", (IGNORE_BASE, 0)),
        ("IgnoreLig", (IGNORE_LIG, 0)),
        ("IgnoreMarks", (IGNORE_MARKS, 0)),
        ("Attach1", (0x0100, 0)),
        ("Attach2", (0x0200, 0)),
        ("Set0", (MFS, 0)),
        ("Set1", (MFS, 1)),
    ]
}

/// no flag, the seven single settings and the 19 consistent pairs
fn flags27() -> Vec<(String, Fl)> {
    let atoms = flag_atoms();
    let mut v: Vec<(String, Fl)> = vec![("0".into(), (0, 0))];
    for a in &atoms {
        v.push((a.0.to_string(), a.1));
    }
    for i in 0..atoms.len() {
        for j in i + 1..atoms.len() {
            let (x, y) = (&atoms[i], &atoms[j]);
            let both_attach = x.1 .0 & 0xFF00 != 0 && y.1 .0 & 0xFF00 != 0;
            let both_set = x.1 .0 & MFS != 0 && y.1 .0 & MFS != 0;
            if both_attach || both_set {
                continue;
            }
            v.push((format!("{}+{}", x.0, y.0), (x.1 .0 | y.1 .0, x.1 .1 | y.1 .1)));
        }
    }
    v
}

fn flags8() -> Vec<(String, Fl)> {
    flags27().into_iter().take(8).collect()
}

/// reduced menu for the pair / nesting classes
fn flags_small() -> Vec<(String, Fl)> {
    vec![("0".into(), (0, 0)), ("IgnoreMarks".into(), (IGNORE_MARKS, 0)), ("Attach1".into(), (0x0100, 0)), ("Set0".into(), (MFS, 0))]
}

fn lk(fl: Fl, subs: Vec<Sub>) -> Lookup {
    Lookup { flag: fl.0, mark_set: fl.1, subs }
}

/// A main lookup (index 0) plus the lookups it nests; sequence lookup records use bundle-local indices.
#[derive(Clone)]
struct Bundle {
    name: String,
    lookups: Vec<Lookup>,
    alt: Option<usize>,
}

fn remap_sub(s: &Sub, f: &dyn Fn(u16) -> u16) -> Sub {
    let rr = |r: &Vec<SeqLookup>| -> Vec<SeqLookup> { r.iter().map(|x| (x.0, f(x.1))).collect() };
    let rs = |sets: &Vec<Option<Vec<Rule>>>| -> Vec<Option<Vec<Rule>>> {
        sets.iter().map(|s| s.as_ref().map(|v| v.iter().map(|r| Rule { input: r.input.clone(), records: rr(&r.records) }).collect())).collect()
    };
    let cs = |sets: &Vec<Option<Vec<ChainRule>>>| -> Vec<Option<Vec<ChainRule>>> {
        sets.iter()
            .map(|s| {
                s.as_ref().map(|v| {
                    v.iter()
                        .map(|r| ChainRule { backtrack: r.backtrack.clone(), input: r.input.clone(), lookahead: r.lookahead.clone(), records: rr(&r.records) })
                        .collect()
                })
            })
            .collect()
    };
    match s {
        Sub::Context1 { cov, sets } => Sub::Context1 { cov: cov.clone(), sets: rs(sets) },
        Sub::Context2 { cov, classes, sets } => Sub::Context2 { cov: cov.clone(), classes: classes.clone(), sets: rs(sets) },
        Sub::Context3 { covs, records } => Sub::Context3 { covs: covs.clone(), records: rr(records) },
        Sub::Chain1 { cov, sets } => Sub::Chain1 { cov: cov.clone(), sets: cs(sets) },
        Sub::Chain2 { cov, back_classes, in_classes, ahead_classes, sets } => Sub::Chain2 {
            cov: cov.clone(),
            back_classes: back_classes.clone(),
            in_classes: in_classes.clone(),
            ahead_classes: ahead_classes.clone(),
            sets: cs(sets),
        },
        Sub::Chain3 { back, input, ahead, records } => Sub::Chain3 { back: back.clone(), input: input.clone(), ahead: ahead.clone(), records: rr(records) },
        other => other.clone(),
    }
}

fn remap_lookup(l: &Lookup, f: &dyn Fn(u16) -> u16) -> Lookup {
    Lookup { flag: l.flag, mark_set: l.mark_set, subs: l.subs.iter().map(|s| remap_sub(s, f)).collect() }
}

impl Bundle {
    fn simple(name: String, l: Lookup) -> Bundle {
        Bundle { name, lookups: vec![l], alt: None }
    }
    /// all lookups with local index j moved to j + offset
    fn embed(&self, offset: u16) -> Vec<Lookup> {
        self.lookups.iter().map(|l| remap_lookup(l, &|j| j + offset)).collect()
    }
}

// ---------------------------------------------------------------------------------------------------
// templates
// ---------------------------------------------------------------------------------------------------

fn lig(cov: Vec<G>, sets: Vec<Vec<(G, Vec<G>)>>) -> Sub {
    Sub::Ligature { cov, sets }
}

/// non-contextual single-lookup templates: (name, subtables, alternate index)
fn simple_templates() -> Vec<(String, Vec<Sub>, Option<usize>)> {
    let mut v: Vec<(String, Vec<Sub>, Option<usize>)> = Vec::new();
    let mut add = |n: &str, s: Vec<Sub>| v.push((n.to_string(), s, None));
    add("single1[a]+1", vec![Sub::Single1 { cov: vec![A], delta: 1 }]);
    add("single1[a,b,m1]+1", vec![Sub::Single1 { cov: vec![A, B, M1], delta: 1 }]);
    add("single1[m2]-5", vec![Sub::Single1 { cov: vec![M2], delta: -5 }]);
    add("single1[L,m2]-3", vec![Sub::Single1 { cov: vec![L, M2], delta: -3 }]);
    add("single2[a,L,m1]>[b,a,m2]", vec![Sub::Single2 { cov: vec![A, L, M1], subst: vec![B, A, M2] }]);
    add("single2[a,b]>[b,a]", vec![Sub::Single2 { cov: vec![A, B], subst: vec![B, A] }]);
    add("single:2sub{[a]+1|[a,b]>[x,L]}", vec![Sub::Single1 { cov: vec![A], delta: 1 }, Sub::Single2 { cov: vec![A, B], subst: vec![X, L] }]);
    add("single:2sub{[m1]>[m2]|[a,m1,m2]+1}", vec![Sub::Single2 { cov: vec![M1], subst: vec![M2] }, Sub::Single1 { cov: vec![A, M1, M2], delta: 1 }]);
    add("multiple[a]>[]", vec![Sub::Multiple { cov: vec![A], seqs: vec![vec![]] }]);
    add("multiple[a]>[b]", vec![Sub::Multiple { cov: vec![A], seqs: vec![vec![B]] }]);
    add("multiple[a]>[a,m1,b]", vec![Sub::Multiple { cov: vec![A], seqs: vec![vec![A, M1, B]] }]);
    add("multiple[a,m1]>[b,b],[m2,m1]", vec![Sub::Multiple { cov: vec![A, M1], seqs: vec![vec![B, B], vec![M2, M1]] }]);
    add(
        "multiple:2sub{[a]>[b,b]|[a,b]>[x],[a,a,a]}",
        vec![Sub::Multiple { cov: vec![A], seqs: vec![vec![B, B]] }, Sub::Multiple { cov: vec![A, B], seqs: vec![vec![X], vec![A, A, A]] }],
    );
    add("multiple[L]>[a,b]", vec![Sub::Multiple { cov: vec![L], seqs: vec![vec![A, B]] }]);
    add("multiple[m1]>[]", vec![Sub::Multiple { cov: vec![M1], seqs: vec![vec![]] }]);
    add("ligature{a b>L}", vec![lig(vec![A], vec![vec![(L, vec![B])]])]);
    add("ligature{a b a>L}", vec![lig(vec![A], vec![vec![(L, vec![B, A])]])]);
    add("ligature{a b a>L; a b>x}", vec![lig(vec![A], vec![vec![(L, vec![B, A]), (X, vec![B])]])]);
    add("ligature{a b>x; a b a>L}", vec![lig(vec![A], vec![vec![(X, vec![B]), (L, vec![B, A])]])]);
    add("ligature{a m1>x}", vec![lig(vec![A], vec![vec![(X, vec![M1])]])]);
    add("ligature{m1 m2>m1; m1 m1>m2}", vec![lig(vec![M1], vec![vec![(M1, vec![M2]), (M2, vec![M1])]])]);
    add("ligature{a>L}", vec![lig(vec![A], vec![vec![(L, vec![])]])]);
    add(
        "ligature:2sub{a b>L|a a>x; b b>x}",
        vec![lig(vec![A], vec![vec![(L, vec![B])]]), lig(vec![A, B], vec![vec![(X, vec![A])], vec![(X, vec![B])]])],
    );
    add("ligature{a b>L; b a>x}", vec![lig(vec![A, B], vec![vec![(L, vec![B])], vec![(X, vec![A])]])]);
    add("ligature{L a>b}", vec![lig(vec![L], vec![vec![(B, vec![A])]])]);
    add("ligature{a L b>x}", vec![lig(vec![A], vec![vec![(X, vec![L, B])]])]);
    add("ligature{a a a a>L}", vec![lig(vec![A], vec![vec![(L, vec![A, A, A])]])]);
    add("reverse[a,b]>[b,a]", vec![Sub::Reverse { cov: vec![A, B], back: vec![], ahead: vec![], subst: vec![B, A] }]);
    add("reverse[a]>[b]/ahead[b]", vec![Sub::Reverse { cov: vec![A], back: vec![], ahead: vec![vec![B]], subst: vec![B] }]);
    add("reverse[a]>[b]/back[a]", vec![Sub::Reverse { cov: vec![A], back: vec![vec![A]], ahead: vec![], subst: vec![B] }]);
    add("reverse[a,m1]>[x,m2]/back[a][b]", vec![Sub::Reverse { cov: vec![A, M1], back: vec![vec![A], vec![B]], ahead: vec![], subst: vec![X, M2] }]);
    add("reverse[a,b,L]>[L,L,a]/back[m1]ahead[m2]", vec![Sub::Reverse { cov: vec![A, B, L], back: vec![vec![M1]], ahead: vec![vec![M2]], subst: vec![L, L, A] }]);
    add(
        "reverse:2sub{[a]>[b]/ahead[b]|[a,b]>[x,L]}",
        vec![
            Sub::Reverse { cov: vec![A], back: vec![], ahead: vec![vec![B]], subst: vec![B] },
            Sub::Reverse { cov: vec![A, B], back: vec![], ahead: vec![], subst: vec![X, L] },
        ],
    );
    add("reverse[a]>[L]/ahead[a,b][m1]", vec![Sub::Reverse { cov: vec![A], back: vec![], ahead: vec![vec![A, B], vec![M1]], subst: vec![L] }]);
    // alternates with the caller's choice
    for alt in [None, Some(0), Some(1), Some(2), Some(3)] {
        v.push((format!("alternate[a,b]>[b,L,x],[a] alt={:?}", alt), vec![Sub::Alternate { cov: vec![A, B], alts: vec![vec![B, L, X], vec![A]] }], alt));
    }
    for alt in [None, Some(1)] {
        v.push((
            format!("alternate:2sub{{[a]>[x]|[a,b]>[L,b],[L,a]}} alt={:?}", alt),
            vec![Sub::Alternate { cov: vec![A], alts: vec![vec![X]] }, Sub::Alternate { cov: vec![A, B], alts: vec![vec![L, B], vec![L, A]] }],
            alt,
        ));
    }
    v
}

/// contextual template: input length of the primary rule and a builder taking the primary rule's records and
/// the records of the secondary rules / subtables
struct CtxT {
    name: &'static str,
    n: usize,
    build: fn(&[SeqLookup], &[SeqLookup]) -> Vec<Sub>,
}

fn rule(input: Vec<u16>, r: &[SeqLookup]) -> Rule {
    Rule { input, records: r.to_vec() }
}

fn crule(backtrack: Vec<u16>, input: Vec<u16>, lookahead: Vec<u16>, r: &[SeqLookup]) -> ChainRule {
    ChainRule { backtrack, input, lookahead, records: r.to_vec() }
}

fn ctx_templates() -> Vec<CtxT> {
    vec![
        CtxT { name: "ctx1{a}", n: 1, build: |r, _| vec![Sub::Context1 { cov: vec![A], sets: vec![Some(vec![rule(vec![], r)])] }] },
        CtxT { name: "ctx1{a b}", n: 2, build: |r, _| vec![Sub::Context1 { cov: vec![A], sets: vec![Some(vec![rule(vec![B], r)])] }] },
        CtxT {
            name: "ctx1{a b a | a b:other}",
            n: 3,
            build: |r, o| vec![Sub::Context1 { cov: vec![A, B], sets: vec![Some(vec![rule(vec![B, A], r), rule(vec![B], o)]), None] }],
        },
        CtxT {
            name: "ctx1{a b:other | a b a}",
            n: 3,
            build: |r, o| vec![Sub::Context1 { cov: vec![A, B], sets: vec![Some(vec![rule(vec![B], o), rule(vec![B, A], r)]), None] }],
        },
        CtxT {
            name: "ctx2{class0(L) a | a b:other}",
            n: 2,
            build: |r, o| {
                vec![Sub::Context2 {
                    cov: vec![A, B, L, M1],
                    classes: vec![(A, 1), (B, 2), (M1, 3)],
                    sets: vec![Some(vec![rule(vec![1], r)]), Some(vec![rule(vec![2], o)]), None, None],
                }]
            },
        },
        CtxT {
            name: "ctx2{[ab] [ab] L | [ab] [ab]:other}",
            n: 3,
            build: |r, o| {
                vec![Sub::Context2 { cov: vec![A, B], classes: vec![(A, 1), (B, 1), (L, 2)], sets: vec![None, Some(vec![rule(vec![1, 2], r), rule(vec![1], o)]), None] }]
            },
        },
        CtxT {
            name: "ctx2{a class0}",
            n: 2,
            build: |r, _| vec![Sub::Context2 { cov: vec![A], classes: vec![(B, 1)], sets: vec![Some(vec![rule(vec![0], r)]), None] }],
        },
        CtxT { name: "ctx3{[ab] [b m1]}", n: 2, build: |r, _| vec![Sub::Context3 { covs: vec![vec![A, B], vec![B, M1]], records: r.to_vec() }] },
        CtxT { name: "ctx3{[a]}", n: 1, build: |r, _| vec![Sub::Context3 { covs: vec![vec![A]], records: r.to_vec() }] },
        CtxT {
            name: "ctx3{[a] [b L] [a m2]}",
            n: 3,
            build: |r, _| vec![Sub::Context3 { covs: vec![vec![A], vec![B, L], vec![A, M2]], records: r.to_vec() }],
        },
        CtxT { name: "chain1{b|a|b}", n: 1, build: |r, _| vec![Sub::Chain1 { cov: vec![A], sets: vec![Some(vec![crule(vec![B], vec![], vec![B], r)])] }] },
        CtxT {
            name: "chain1{b a|a b|}",
            n: 2,
            build: |r, _| vec![Sub::Chain1 { cov: vec![A], sets: vec![Some(vec![crule(vec![A, B], vec![B], vec![], r)])] }],
        },
        CtxT {
            name: "chain1{|a b|a b ; |a b|:other}",
            n: 2,
            build: |r, o| vec![Sub::Chain1 { cov: vec![A], sets: vec![Some(vec![crule(vec![], vec![B], vec![A, B], r), crule(vec![], vec![B], vec![], o)])] }],
        },
        CtxT {
            name: "chain2{|class0(L) a| ; b|a b|a:other}",
            n: 2,
            build: |r, o| {
                vec![Sub::Chain2 {
                    cov: vec![A, B, L],
                    back_classes: vec![(B, 1), (M1, 2)],
                    in_classes: vec![(A, 1), (B, 2)],
                    ahead_classes: vec![(M1, 1), (A, 2)],
                    sets: vec![Some(vec![crule(vec![], vec![1], vec![], r)]), Some(vec![crule(vec![1], vec![2], vec![2], o)]), None],
                }]
            },
        },
        CtxT {
            name: "chain2{m1|a|m1}",
            n: 1,
            build: |r, _| {
                vec![Sub::Chain2 {
                    cov: vec![A],
                    back_classes: vec![(A, 1), (B, 2), (M1, 3)],
                    in_classes: vec![(A, 1), (B, 2), (M1, 3)],
                    ahead_classes: vec![(A, 1), (B, 2), (M1, 3)],
                    sets: vec![None, Some(vec![crule(vec![3], vec![], vec![3], r)]), None, None],
                }]
            },
        },
        CtxT {
            name: "chain3{[aL]|[a][b]|[ab]}",
            n: 2,
            build: |r, _| vec![Sub::Chain3 { back: vec![vec![A, L]], input: vec![vec![A], vec![B]], ahead: vec![vec![A, B]], records: r.to_vec() }],
        },
        CtxT {
            name: "chain3{|[ab]|[m1][m2]}",
            n: 1,
            build: |r, _| vec![Sub::Chain3 { back: vec![], input: vec![vec![A, B]], ahead: vec![vec![M1], vec![M2]], records: r.to_vec() }],
        },
        CtxT {
            name: "chain3{[a][b]|[aL]|}",
            n: 1,
            build: |r, _| vec![Sub::Chain3 { back: vec![vec![B], vec![A]], input: vec![vec![A, L]], ahead: vec![], records: r.to_vec() }],
        },
        CtxT {
            name: "chain3{[m1]|[a][m1][b]|}",
            n: 3,
            build: |r, _| vec![Sub::Chain3 { back: vec![vec![M1]], input: vec![vec![A], vec![M1], vec![B]], ahead: vec![], records: r.to_vec() }],
        },
        // the "ignore sub" idiom: an earlier rule without records wins and nothing happens
        CtxT {
            name: "ctx1{a b:no-records | a}",
            n: 1,
            build: |r, _| vec![Sub::Context1 { cov: vec![A], sets: vec![Some(vec![rule(vec![B], &[]), rule(vec![], r)])] }],
        },
        CtxT {
            name: "chain1{|a|b:no-records ; m1|a|:other ; |a|}",
            n: 1,
            build: |r, o| {
                vec![Sub::Chain1 {
                    cov: vec![A],
                    sets: vec![Some(vec![crule(vec![], vec![], vec![B], &[]), crule(vec![M1], vec![], vec![], o), crule(vec![], vec![], vec![], r)])],
                }]
            },
        },
        CtxT {
            name: "chain:2sub{|[a]|[b]:no-records ; |[ab]|}",
            n: 1,
            build: |r, _| {
                vec![
                    Sub::Chain3 { back: vec![], input: vec![vec![A]], ahead: vec![vec![B]], records: vec![] },
                    Sub::Chain3 { back: vec![], input: vec![vec![A, B]], ahead: vec![], records: r.to_vec() },
                ]
            },
        },
        CtxT {
            name: "ctx:2sub{ctx3[a][b] | ctx1{a}:other}",
            n: 2,
            build: |r, o| {
                vec![Sub::Context3 { covs: vec![vec![A], vec![B]], records: r.to_vec() }, Sub::Context1 { cov: vec![A], sets: vec![Some(vec![rule(vec![], o)])] }]
            },
        },
        CtxT {
            name: "chain:2sub{[b]|[a]|:other ; |[a]|[b]}",
            n: 1,
            build: |r, o| {
                vec![
                    Sub::Chain3 { back: vec![vec![B]], input: vec![vec![A]], ahead: vec![], records: o.to_vec() },
                    Sub::Chain3 { back: vec![], input: vec![vec![A]], ahead: vec![vec![B]], records: r.to_vec() },
                ]
            },
        },
    ]
}


/// class-based (format 2) templates whose Coverage table is NOT the union of the classes that have a rule set, and
/// chained templates with three different ClassDefs: a rule can only start at a covered glyph, and every sequence
/// is classified with its own ClassDef
fn coverage_templates() -> Vec<CtxT> {
    vec![
        // b is in class 1 (which has a rule set) but is not covered
        CtxT {
            name: "ctx2{cov[a] class1={a,b}: 1 1}",
            n: 2,
            build: |r, _| vec![Sub::Context2 { cov: vec![A], classes: vec![(A, 1), (B, 1)], sets: vec![None, Some(vec![rule(vec![1], r)])] }],
        },
        // covered class-0 glyphs L, m1 with a rule set for class 0; b is class 0 but not covered; a is covered, its class has no set
        CtxT {
            name: "ctx2{cov[a,L,m1] class1={a}: set0 = 0 1}",
            n: 2,
            build: |r, _| vec![Sub::Context2 { cov: vec![A, L, M1], classes: vec![(A, 1)], sets: vec![Some(vec![rule(vec![1], r)]), None] }],
        },
        // covered class-0 glyphs b, L without a rule set for class 0
        CtxT {
            name: "ctx2{cov[a,b,L] class1={a}: set0 null, set1 = 1 0}",
            n: 2,
            build: |r, _| vec![Sub::Context2 { cov: vec![A, B, L], classes: vec![(A, 1)], sets: vec![None, Some(vec![rule(vec![0], r)])] }],
        },
        // chained: b has input class 1 with a rule set but is not covered; L (class 2) is covered
        CtxT {
            name: "chain2{cov[a,L] in1={a,b} in2={L}: |1 2| ; |2 1|:other}",
            n: 2,
            build: |r, o| {
                vec![Sub::Chain2 {
                    cov: vec![A, L],
                    back_classes: vec![],
                    in_classes: vec![(A, 1), (B, 1), (L, 2)],
                    ahead_classes: vec![],
                    sets: vec![None, Some(vec![crule(vec![], vec![2], vec![], r)]), Some(vec![crule(vec![], vec![1], vec![], o)])],
                }]
            },
        },
        // chained: covered class-0 glyphs b, m2 with a rule set for class 0; L is class 0 but not covered; a (class 1) has no set
        CtxT {
            name: "chain2{cov[a,b,m2] in1={a}: set0 = |0 1|}",
            n: 2,
            build: |r, _| {
                vec![Sub::Chain2 {
                    cov: vec![A, B, M2],
                    back_classes: vec![(A, 1)],
                    in_classes: vec![(A, 1)],
                    ahead_classes: vec![(A, 1)],
                    sets: vec![Some(vec![crule(vec![], vec![1], vec![], r)]), None],
                }]
            },
        },
        // three different ClassDefs: backtrack {a:2, b:1, m1:1}, input {a:1, b:2}, lookahead {a:1, b:1, L:2, m1:3}
        CtxT {
            name: "chain2{3 classdefs: back1(b,m1)|in1(a) in2(b)|ahead2(L) ; back2(a)|in2(b)|ahead1(a,b):other}",
            n: 2,
            build: |r, o| {
                vec![Sub::Chain2 {
                    cov: vec![A, B],
                    back_classes: vec![(A, 2), (B, 1), (M1, 1)],
                    in_classes: vec![(A, 1), (B, 2)],
                    ahead_classes: vec![(A, 1), (B, 1), (L, 2), (M1, 3)],
                    sets: vec![None, Some(vec![crule(vec![1], vec![2], vec![2], r)]), Some(vec![crule(vec![2], vec![], vec![1], o)])],
                }]
            },
        },
        // the same glyph classes numbered differently in the three ClassDefs, two-glyph backtrack and lookahead
        CtxT {
            name: "chain2{3 classdefs: back3(a) back1(L)|in2(a)|ahead1(b) ahead3(a)}",
            n: 1,
            build: |r, _| {
                vec![Sub::Chain2 {
                    cov: vec![A, B],
                    back_classes: vec![(A, 3), (B, 2), (L, 1)],
                    in_classes: vec![(A, 2), (B, 3), (L, 1)],
                    ahead_classes: vec![(A, 3), (B, 1), (L, 2)],
                    sets: vec![None, None, Some(vec![crule(vec![3, 1], vec![], vec![1, 3], r)]), None],
                }]
            },
        },
        // format 3: the first input coverage is the coverage; the glyph also appears in backtrack / lookahead coverages
        CtxT {
            name: "chain3{[a b]|[b][a b]|[a]}",
            n: 2,
            build: |r, _| vec![Sub::Chain3 { back: vec![vec![A, B]], input: vec![vec![B], vec![A, B]], ahead: vec![vec![A]], records: r.to_vec() }],
        },
    ]
}

/// every alphabet glyph changes, so the output shows exactly which position a nested lookup hit
fn n_swap() -> Lookup {
    lk((0, 0), vec![Sub::Single2 { cov: vec![A, B, L, M1, M2], subst: vec![B, A, X, M2, M1] }])
}

fn n_other() -> Lookup {
    lk((0, 0), vec![Sub::Single2 { cov: vec![A, B, L, M1, M2], subst: vec![C, C, C, C, C] }])
}

/// contextual bundle: main = template with `recs` (records refer to local index 2 + k), local 1 = "other"
fn ctx_bundle(t: &CtxT, fl: Fl, fname: &str, recs: &[SeqLookup], nested: &[Lookup], tagname: &str) -> Bundle {
    let main = lk(fl, (t.build)(recs, &[(0, 1)]));
    let mut lookups = vec![main, n_other()];
    lookups.extend(nested.iter().cloned());
    Bundle { name: format!("{} flag={} {}", t.name, fname, tagname), lookups, alt: None }
}

/// lookups that can be nested (bundle-local, main first); `pf` = the parent's flags
fn nested_catalogue(pf: Fl) -> Vec<Bundle> {
    let z: Fl = (0, 0);
    let mut v = vec![
        Bundle::simple("swap".into(), n_swap()),
        Bundle::simple("single1[a]+1".into(), lk(z, vec![Sub::Single1 { cov: vec![A], delta: 1 }])),
        Bundle::simple("multiple[a]>[b,m1,a]".into(), lk(z, vec![Sub::Multiple { cov: vec![A], seqs: vec![vec![B, M1, A]] }])),
        Bundle::simple("multiple[a,b]>[b,b],[a]".into(), lk(z, vec![Sub::Multiple { cov: vec![A, B], seqs: vec![vec![B, B], vec![A]] }])),
        Bundle::simple("alternate[a,b]>[x,L],[L]".into(), lk(z, vec![Sub::Alternate { cov: vec![A, B], alts: vec![vec![X, L], vec![L]] }])),
        Bundle::simple("ligature{a b>L}".into(), lk(pf, vec![lig(vec![A], vec![vec![(L, vec![B])]])])),
        Bundle::simple("ligature{a b a>L}".into(), lk(pf, vec![lig(vec![A], vec![vec![(L, vec![B, A])]])])),
        Bundle::simple("ligature{b a>x; b b>L}".into(), lk(pf, vec![lig(vec![B], vec![vec![(X, vec![A]), (L, vec![B])]])])),
        Bundle::simple("ligature{a m1>x}".into(), lk(z, vec![lig(vec![A], vec![vec![(X, vec![M1])]])])),
        Bundle::simple("ligature{a b>L}/IgnoreMarks".into(), lk((IGNORE_MARKS, 0), vec![lig(vec![A], vec![vec![(L, vec![B])]])])),
        // empty sequences are forbidden by the specification; kept last so that witnesses prefer valid programs
        Bundle::simple("multiple[a]>[]".into(), lk(z, vec![Sub::Multiple { cov: vec![A], seqs: vec![vec![]] }])),
        Bundle::simple("multiple[b]>[]".into(), lk(z, vec![Sub::Multiple { cov: vec![B], seqs: vec![vec![]] }])),
    ];
    // nested contextual lookups (depth 2); their own nested lookup is bundle-local index 1
    v.push(Bundle {
        name: "ctx3{[ab]}>swap".into(),
        lookups: vec![lk(pf, vec![Sub::Context3 { covs: vec![vec![A, B]], records: vec![(0, 1)] }]), n_swap()],
        alt: None,
    });
    v.push(Bundle {
        name: "chain3{[a]|[b]|}>swap".into(),
        lookups: vec![lk(pf, vec![Sub::Chain3 { back: vec![vec![A]], input: vec![vec![B]], ahead: vec![], records: vec![(0, 1)] }]), n_swap()],
        alt: None,
    });
    v.push(Bundle {
        name: "ctx1{b a}>swap@1".into(),
        lookups: vec![lk(pf, vec![Sub::Context1 { cov: vec![B], sets: vec![Some(vec![rule(vec![A], &[(1, 1)])])] }]), n_swap()],
        alt: None,
    });
    v.push(Bundle {
        name: "ctx3{[a][b]}>ligature{a b>L}".into(),
        lookups: vec![lk(pf, vec![Sub::Context3 { covs: vec![vec![A], vec![B]], records: vec![(0, 1)] }]), lk(pf, vec![lig(vec![A], vec![vec![(L, vec![B])]])])],
        alt: None,
    });
    v
}

// ---------------------------------------------------------------------------------------------------
// programs
// ---------------------------------------------------------------------------------------------------

struct Prog {
    name: String,
    class: &'static str,
    gsub: Gsub,
    gdef: Option<Gdef>,
    /// enabled features (tag, alternate) in the caller's order
    feats: Vec<(u32, Option<usize>)>,
    tuples: Vec<Option<Vec<i16>>>,
    /// maximal string length (quick, thorough)
    maxlen: (usize, usize),
    seams: u8,
    /// 0 = default encoding only, 1 = default + extension, 2 = all encodings with <= 2 non-default choices
    encodings: u8,
}

fn one_feature(bundle: &Bundle) -> Gsub {
    Gsub { script: T_DFLT, langsys: vec![0], features: vec![Feature { tag: T_LIGA, lookups: vec![0] }], lookups: bundle.lookups.clone(), variations: None }
}

fn prog_of(class: &'static str, b: &Bundle, maxlen: (usize, usize), seams: u8, encodings: u8) -> Prog {
    Prog {
        name: format!("{}: {}", class, b.name),
        class,
        gsub: one_feature(b),
        gdef: Some(Gdef::universe()),
        feats: vec![(T_LIGA, b.alt)],
        tuples: vec![None],
        maxlen,
        seams,
        encodings,
    }
}

/// quick: all encodings for the 8 single flag settings, the default encoding for the 19 flag pairs
fn enc_level(thorough: bool, flag_index: usize) -> u8 {
    if thorough || flag_index < 8 {
        2
    } else {
        0
    }
}

fn cat_single(thorough: bool) -> Vec<Prog> {
    let mut v = Vec::new();
    for (fi, (fname, fl)) in flags27().into_iter().enumerate() {
        for (name, subs, alt) in simple_templates() {
            let b = Bundle { name: format!("{} flag={}", name, fname), lookups: vec![lk(fl, subs)], alt };
            v.push(prog_of("single", &b, (4, 5), SEAM_CUSTOM | SEAM_MASK | SEAM_SHAPE, enc_level(thorough, fi)));
        }
    }
    v
}

fn all_records(n: usize, target: u16) -> Vec<SeqLookup> {
    (0..n as u16).map(|k| (k, target)).collect()
}

fn cat_ctxflags(thorough: bool) -> Vec<Prog> {
    let mut v = Vec::new();
    for (fi, (fname, fl)) in flags27().into_iter().enumerate() {
        for t in ctx_templates().into_iter().chain(coverage_templates()) {
            let b = ctx_bundle(&t, fl, &fname, &all_records(t.n, 2), &[n_swap()], "swap@all");
            v.push(prog_of("ctxflags", &b, (4, 5), SEAM_CUSTOM | SEAM_MASK | SEAM_SHAPE, enc_level(thorough, fi)));
            if t.n >= 2 {
                for k in 0..t.n as u16 {
                    let b = ctx_bundle(&t, fl, &fname, &[(k, 2)], &[n_swap()], &format!("swap@{}", k));
                    v.push(prog_of("ctxflags", &b, (4, 5), SEAM_CUSTOM, 0));
                }
            }
        }
    }
    v
}

fn cat_nest(thorough: bool) -> Vec<Prog> {
    let mut v = Vec::new();
    let templates = ctx_templates();
    for (fname, fl) in flags_small() {
        let nested = nested_catalogue(fl);
        for t in &templates {
            // one nested lookup at each sequence index
            for nb in &nested {
                for k in 0..t.n as u16 {
                    let b = ctx_bundle(t, fl, &fname, &[(k, 2)], &nb.embed(2), &format!("{}@{}", nb.name, k));
                    v.push(prog_of("nest", &b, (4, 5), SEAM_CUSTOM, if thorough || fl == (0, 0) { 1 } else { 0 }));
                }
            }
            // two records: a length-changing lookup and a second lookup, all index pairs, both record orders
            if t.n >= 2 {
                let changers: Vec<&Bundle> = nested.iter().filter(|b| b.name.starts_with("multiple") || b.name.starts_with("ligature")).collect();
                let seconds: Vec<&Bundle> = nested.iter().filter(|b| ["swap", "ligature{a b>L}", "multiple[a]>[b,m1,a]"].contains(&b.name.as_str())).collect();
                for xb in &changers {
                    if !thorough && (xb.name.ends_with("/IgnoreMarks") || xb.name == "multiple[b]>[]") {
                        continue;
                    }
                    for yb in &seconds {
                        for i1 in 0..t.n as u16 {
                            for i2 in 0..t.n as u16 {
                                for order in 0..2 {
                                    if order == 1 && changers.iter().any(|c| c.name == yb.name) {
                                        continue; // the same records arise with the roles of the two lookups exchanged
                                    }
                                    let xs = xb.embed(2);
                                    let yoff = 2 + xs.len() as u16;
                                    let mut nl = xs;
                                    nl.extend(yb.embed(yoff));
                                    let recs: Vec<SeqLookup> = if order == 0 { vec![(i1, 2), (i2, yoff)] } else { vec![(i2, yoff), (i1, 2)] };
                                    let tagname = if order == 0 {
                                        format!("{}@{} then {}@{}", xb.name, i1, yb.name, i2)
                                    } else {
                                        format!("{}@{} then {}@{}", yb.name, i2, xb.name, i1)
                                    };
                                    let b = ctx_bundle(t, fl, &fname, &recs, &nl, &tagname);
                                    v.push(prog_of("nest", &b, (3, 4), SEAM_CUSTOM, 0));
                                }
                            }
                        }
                    }
                }
            }
        }
        // nesting depth: ctx3{[ab]} nested d times around a swap (allsorts allows two nested levels)
        for depth in 1..=5usize {
            for kind in 0..2 {
                let mut lookups: Vec<Lookup> = Vec::new();
                for d in 0..depth {
                    let rec = vec![(0u16, d as u16 + 1)];
                    let sub = if kind == 0 {
                        Sub::Context3 { covs: vec![vec![A, B]], records: rec }
                    } else {
                        Sub::Chain3 { back: vec![], input: vec![vec![A, B]], ahead: vec![vec![A, B, M1]], records: rec }
                    };
                    lookups.push(lk(fl, vec![sub]));
                }
                lookups.push(n_swap());
                let b = Bundle { name: format!("depth{} {} flag={}", depth, if kind == 0 { "ctx3" } else { "chain3" }, fname), lookups, alt: None };
                v.push(prog_of("nest", &b, (4, 5), SEAM_CUSTOM | SEAM_MASK | SEAM_SHAPE, 1));
            }
        }
        // mutual recursion through sequence index 1: ctx1{a a}>@1 -> ctx1{a a}>@1 -> ... ; terminates at the end of the run
        {
            let l0 = lk(fl, vec![Sub::Context1 { cov: vec![A], sets: vec![Some(vec![rule(vec![A], &[(0, 2), (1, 1)])])] }]);
            let l1 = lk(fl, vec![Sub::Context1 { cov: vec![A], sets: vec![Some(vec![rule(vec![A], &[(0, 2), (1, 0)])])] }]);
            let l2 = lk((0, 0), vec![Sub::Single2 { cov: vec![A], subst: vec![B] }]);
            let b = Bundle { name: format!("mutual-recursion flag={}", fname), lookups: vec![l0, l1, l2], alt: None };
            v.push(prog_of("nest", &b, (5, 6), SEAM_CUSTOM, 0));
        }
    }
    v
}

/// reduced catalogue for the pair class
fn pair_bundles(thorough: bool) -> Vec<Bundle> {
    let z: Fl = (0, 0);
    let im: Fl = (IGNORE_MARKS, 0);
    let mut v = vec![
        Bundle::simple("single1[a]+1".into(), lk(z, vec![Sub::Single1 { cov: vec![A], delta: 1 }])),
        Bundle::simple("single2[a,b]>[b,a]".into(), lk(z, vec![Sub::Single2 { cov: vec![A, B], subst: vec![B, A] }])),
        Bundle::simple("single2[b,L,m1]>[L,a,m2]".into(), lk(z, vec![Sub::Single2 { cov: vec![B, L, M1], subst: vec![L, A, M2] }])),
        Bundle::simple("multiple[a]>[]".into(), lk(z, vec![Sub::Multiple { cov: vec![A], seqs: vec![vec![]] }])),
        Bundle::simple("multiple[a]>[a,m1,b]".into(), lk(z, vec![Sub::Multiple { cov: vec![A], seqs: vec![vec![A, M1, B]] }])),
        Bundle::simple("multiple[L]>[a,b]".into(), lk(z, vec![Sub::Multiple { cov: vec![L], seqs: vec![vec![A, B]] }])),
        Bundle::simple("alternate[a,b]>[b,L],[a]".into(), lk(z, vec![Sub::Alternate { cov: vec![A, B], alts: vec![vec![B, L], vec![A]] }])),
        Bundle::simple("ligature{a b>L}/IgnoreMarks".into(), lk(im, vec![lig(vec![A], vec![vec![(L, vec![B])]])])),
        Bundle::simple("ligature{a b>L}".into(), lk(z, vec![lig(vec![A], vec![vec![(L, vec![B])]])])),
        Bundle::simple("ligature{L a>L; L b>x}/IgnoreMarks".into(), lk(im, vec![lig(vec![L], vec![vec![(L, vec![A]), (X, vec![B])]])])),
        Bundle::simple("ligature{m1 m2>m1}/IgnoreBase".into(), lk((IGNORE_BASE, 0), vec![lig(vec![M1], vec![vec![(M1, vec![M2])]])])),
        Bundle::simple("reverse[a]>[b]/ahead[b]".into(), lk(z, vec![Sub::Reverse { cov: vec![A], back: vec![], ahead: vec![vec![B]], subst: vec![B] }])),
        Bundle::simple("reverse[b]>[a]/back[a]/Set0".into(), lk((MFS, 0), vec![Sub::Reverse { cov: vec![B], back: vec![vec![A]], ahead: vec![], subst: vec![A] }])),
        Bundle { name: "ctx1{a b}>swap@1".into(), lookups: vec![lk(z, vec![Sub::Context1 { cov: vec![A], sets: vec![Some(vec![rule(vec![B], &[(1, 1)])])] }]), n_swap()], alt: None },
        Bundle {
            name: "chain3{[b]|[a]|[a b]}>multiple[a]>[b,b]/IgnoreMarks".into(),
            lookups: vec![
                lk(im, vec![Sub::Chain3 { back: vec![vec![B]], input: vec![vec![A]], ahead: vec![vec![A, B]], records: vec![(0, 1)] }]),
                lk(z, vec![Sub::Multiple { cov: vec![A], seqs: vec![vec![B, B]] }]),
            ],
            alt: None,
        },
        Bundle {
            name: "ctx2{class0(L) a}>ligature{L a>x}".into(),
            lookups: vec![
                lk(z, vec![Sub::Context2 { cov: vec![L], classes: vec![(A, 1)], sets: vec![Some(vec![rule(vec![1], &[(0, 1)])]), None] }]),
                lk(z, vec![lig(vec![L], vec![vec![(X, vec![A])]])]),
            ],
            alt: None,
        },
    ];
    if thorough {
        v.extend(vec![
            Bundle::simple("single1[a,b,m1]+1/Attach1".into(), lk((0x0100, 0), vec![Sub::Single1 { cov: vec![A, B, M1], delta: 1 }])),
            Bundle::simple("multiple[m1]>[]".into(), lk(z, vec![Sub::Multiple { cov: vec![M1], seqs: vec![vec![]] }])),
            Bundle::simple("ligature{a b a>L; a b>x}".into(), lk(z, vec![lig(vec![A], vec![vec![(L, vec![B, A]), (X, vec![B])]])])),
            Bundle::simple("ligature{a m1>x}".into(), lk(z, vec![lig(vec![A], vec![vec![(X, vec![M1])]])])),
            Bundle::simple("reverse[a,b]>[b,a]".into(), lk(z, vec![Sub::Reverse { cov: vec![A, B], back: vec![], ahead: vec![], subst: vec![B, A] }])),
            Bundle::simple("single2[a,b]>[b,a]/Set1".into(), lk((MFS, 1), vec![Sub::Single2 { cov: vec![A, B], subst: vec![B, A] }])),
            Bundle {
                name: "ctx3{[a][b]}>ligature{a b>L}".into(),
                lookups: vec![lk(z, vec![Sub::Context3 { covs: vec![vec![A], vec![B]], records: vec![(0, 1)] }]), lk(z, vec![lig(vec![A], vec![vec![(L, vec![B])]])])],
                alt: None,
            },
            Bundle::simple("multiple[a,m1]>[b,b],[m2,m1]".into(), lk(z, vec![Sub::Multiple { cov: vec![A, M1], seqs: vec![vec![B, B], vec![M2, M1]] }])),
        ]);
    }
    v
}

/// feature configurations for a pair of lookups 0 and 1: (name, FeatureList, language system, caller's list)
fn pair_configs() -> Vec<(&'static str, Vec<Feature>, Vec<u16>, Vec<u32>)> {
    let f = |tag: u32, l: &[u16]| Feature { tag, lookups: l.to_vec() };
    let mut v = vec![
        ("one-feature[0,1]", vec![f(T_LIGA, &[0, 1])], vec![0], vec![T_LIGA]),
        ("one-feature[1,0]", vec![f(T_LIGA, &[1, 0])], vec![0], vec![T_LIGA]),
    ];
    for (an, calt, liga) in [("0>calt,1>liga", [0u16], [1u16]), ("0>liga,1>calt", [1], [0])] {
        for (ln, ls) in [("langsys[0,1]", vec![0u16, 1]), ("langsys[1,0]", vec![1, 0])] {
            for (cn, cl) in [("caller[calt,liga]", vec![T_CALT, T_LIGA]), ("caller[liga,calt]", vec![T_LIGA, T_CALT])] {
                let name: &'static str = Box::leak(format!("{} {} {}", an, ln, cn).into_boxed_str());
                v.push((name, vec![f(T_CALT, &calt), f(T_LIGA, &liga)], ls.clone(), cl));
            }
        }
    }
    // 'rvrn' is processed before every other feature
    v.push(("0>liga,1>rvrn", vec![f(T_LIGA, &[0]), f(T_RVRN, &[1])], vec![0, 1], vec![T_LIGA, T_RVRN]));
    v.push(("0>rvrn,1>liga", vec![f(T_LIGA, &[1]), f(T_RVRN, &[0])], vec![0, 1], vec![T_RVRN, T_LIGA]));
    v.push(("rvrn[1,0]", vec![f(T_RVRN, &[1, 0])], vec![0], vec![T_RVRN]));
    v
}

fn cat_pairs(thorough: bool) -> Vec<Prog> {
    let bundles = pair_bundles(thorough);
    let configs = pair_configs();
    let mut v = Vec::new();
    for a in &bundles {
        for b in &bundles {
            let la = a.lookups.len() as u16;
            let mut lookups = vec![remap_lookup(&a.lookups[0], &|j| j + 1), remap_lookup(&b.lookups[0], &|j| la + j)];
            for l in &a.lookups[1..] {
                lookups.push(remap_lookup(l, &|j| j + 1));
            }
            for l in &b.lookups[1..] {
                lookups.push(remap_lookup(l, &|j| la + j));
            }
            for (cn, features, langsys, caller) in &configs {
                let has_rvrn = caller.contains(&T_RVRN);
                v.push(Prog {
                    name: format!("pair: [{}] [{}] {}", a.name, b.name, cn),
                    class: "pair",
                    gsub: Gsub { script: T_DFLT, langsys: langsys.clone(), features: features.clone(), lookups: lookups.clone(), variations: None },
                    gdef: Some(Gdef::universe()),
                    feats: caller.iter().map(|t| (*t, None)).collect(),
                    // the Mask path applies 'rvrn' only when a tuple is supplied
                    tuples: if has_rvrn { vec![Some(vec![0])] } else { vec![None] },
                    maxlen: (3, 4),
                    seams: SEAM_CUSTOM | SEAM_MASK,
                    encodings: 0,
                });
            }
        }
    }
    v
}

fn edge_values(vals: &[i16]) -> Vec<i16> {
    let mut v: Vec<i16> = vec![0, 16384, -16384];
    for &x in vals {
        for d in [-1i32, 0, 1] {
            let y = x as i32 + d;
            if (-16384..=16384).contains(&y) {
                v.push(y as i16);
            }
        }
    }
    v.sort();
    v.dedup();
    v
}

fn cat_variations() -> Vec<Prog> {
    let z: Fl = (0, 0);
    // lookups: 0 a>b, 1 b>L, 2 a>x, 3 b>x (and a>L)
    let lookups = vec![
        lk(z, vec![Sub::Single2 { cov: vec![A], subst: vec![B] }]),
        lk(z, vec![Sub::Single2 { cov: vec![B], subst: vec![L] }]),
        lk(z, vec![Sub::Single2 { cov: vec![A], subst: vec![X] }]),
        lk(z, vec![Sub::Single2 { cov: vec![A, B], subst: vec![L, X] }]),
    ];
    let c = |axis: u16, min: i16, max: i16| Cond { axis, min, max };
    let r = |conds: Option<Vec<Cond>>, subst: Option<Vec<(u16, Vec<u16>)>>| FvRecord { conds, subst };
    let progs: Vec<(&str, Vec<FvRecord>, usize)> = vec![
        ("range[4096,8192]:calt>[2]", vec![r(Some(vec![c(0, 4096, 8192)]), Some(vec![(0, vec![2])]))], 1),
        ("range[-8192,-1]:calt>[2]", vec![r(Some(vec![c(0, -8192, -1)]), Some(vec![(0, vec![2])]))], 1),
        (
            "first-wins:[0,8192]>[2];[4096,16384]>[3]",
            vec![r(Some(vec![c(0, 0, 8192)]), Some(vec![(0, vec![2])])), r(Some(vec![c(0, 4096, 16384)]), Some(vec![(0, vec![3])]))],
            1,
        ),
        ("range[8192,16384]>[2];universal>[3]", vec![r(Some(vec![c(0, 8192, 16384)]), Some(vec![(0, vec![2])])), r(None, Some(vec![(0, vec![3])]))], 1),
        ("empty-condition-set>[2]", vec![r(Some(vec![]), Some(vec![(0, vec![2])]))], 1),
        ("range[1,100]>no-substitution;universal>[2]", vec![r(Some(vec![c(0, 1, 100)]), None), r(None, Some(vec![(0, vec![2])]))], 1),
        ("and:axis0[1000,2000]&axis1[-3000,3000]>[2]", vec![r(Some(vec![c(0, 1000, 2000), c(1, -3000, 3000)]), Some(vec![(0, vec![2])]))], 2),
        ("axis1[5000,5000]>[3]", vec![r(Some(vec![c(1, 5000, 5000)]), Some(vec![(0, vec![3])]))], 2),
        ("liga-only:[100,200]:liga>[3]", vec![r(Some(vec![c(0, 100, 200)]), Some(vec![(1, vec![3])]))], 1),
        ("both:[100,200]:calt>[2],liga>[3]", vec![r(Some(vec![c(0, 100, 200)]), Some(vec![(0, vec![2]), (1, vec![3])]))], 1),
        ("two-lookups:[100,16384]:calt>[3,2]", vec![r(Some(vec![c(0, 100, 16384)]), Some(vec![(0, vec![3, 2])]))], 1),
        ("full-range>[2]", vec![r(Some(vec![c(0, -16384, 16384)]), Some(vec![(0, vec![2])]))], 1),
        ("empty-range[200,100]>[2];[300,400]>[3]", vec![r(Some(vec![c(0, 200, 100)]), Some(vec![(0, vec![2])])), r(Some(vec![c(0, 300, 400)]), Some(vec![(0, vec![3])]))], 1),
        ("calt>[]:[1,16384]", vec![r(Some(vec![c(0, 1, 16384)]), Some(vec![(0, vec![])]))], 1),
    ];
    let mut v = Vec::new();
    for (name, recs, axes) in progs {
        let mut vals: Vec<i16> = Vec::new();
        for rec in &recs {
            for cnd in rec.conds.iter().flatten() {
                vals.push(cnd.min);
                vals.push(cnd.max);
            }
        }
        let e = edge_values(&vals);
        let mut tuples: Vec<Option<Vec<i16>>> = vec![None];
        if axes == 1 {
            tuples.extend(e.iter().map(|x| Some(vec![*x])));
        } else {
            for x in &e {
                for y in &e {
                    tuples.push(Some(vec![*x, *y]));
                }
            }
        }
        for (fi, feats) in [vec![(T_CALT, None), (T_LIGA, None)], vec![(T_LIGA, None), (T_CALT, None)], vec![(T_CALT, None)]].into_iter().enumerate() {
            v.push(Prog {
                name: format!("variations: {} caller#{}", name, fi),
                class: "variations",
                gsub: Gsub {
                    script: T_DFLT,
                    langsys: vec![0, 1],
                    features: vec![Feature { tag: T_CALT, lookups: vec![0] }, Feature { tag: T_LIGA, lookups: vec![1] }],
                    lookups: lookups.clone(),
                    variations: Some(recs.clone()),
                },
                gdef: Some(Gdef::universe()),
                feats,
                tuples: tuples.clone(),
                maxlen: (2, 3),
                seams: SEAM_CUSTOM | SEAM_MASK | SEAM_SHAPE,
                encodings: 1,
            });
        }
    }
    // the usual shape of 'rvrn': empty by default, lookups only through FeatureVariations; calt has a lower lookup index
    for (name, dflt, sub) in [("rvrn>[2]", vec![], vec![2u16]), ("rvrn[1]>[3,2]", vec![1u16], vec![3, 2])] {
        let recs = vec![r(Some(vec![c(0, 8192, 16384)]), Some(vec![(1, sub)]))];
        v.push(Prog {
            name: format!("variations: rvrn {} range[8192,16384]", name),
            class: "variations",
            gsub: Gsub {
                script: T_DFLT,
                langsys: vec![0, 1],
                features: vec![Feature { tag: T_CALT, lookups: vec![0] }, Feature { tag: T_RVRN, lookups: dflt }],
                lookups: lookups.clone(),
                variations: Some(recs),
            },
            gdef: Some(Gdef::universe()),
            feats: vec![(T_CALT, None), (T_RVRN, None)],
            tuples: edge_values(&[8192]).into_iter().map(|x| Some(vec![x])).collect(),
            maxlen: (2, 3),
            seams: SEAM_CUSTOM | SEAM_MASK | SEAM_SHAPE,
            encodings: 1,
        });
    }
    v
}

fn cat_misc() -> Vec<Prog> {
    let z: Fl = (0, 0);
    let mut v = Vec::new();
    // deltaGlyphID is added modulo 65536 in both directions (glyph 65535 exists only between the two lookups)
    {
        let lookups = vec![lk(z, vec![Sub::Single1 { cov: vec![A], delta: -2 }]), lk(z, vec![Sub::Single1 { cov: vec![B, 0xFFFF], delta: 3 }])];
        v.push(Prog {
            name: "misc: single1 wraps modulo 65536 (a-2=65535, 65535+3=b)".into(),
            class: "misc",
            gsub: Gsub { script: T_DFLT, langsys: vec![0], features: vec![Feature { tag: T_LIGA, lookups: vec![0, 1] }], lookups, variations: None },
            gdef: Some(Gdef::universe()),
            feats: vec![(T_LIGA, None)],
            tuples: vec![None],
            maxlen: (3, 4),
            seams: SEAM_CUSTOM | SEAM_MASK | SEAM_SHAPE,
            encodings: 2,
        });
    }
    // no GDEF table: every glyph is class 0, no lookup flag skips anything
    for (fname, fl) in flags8() {
        for (name, subs, alt) in simple_templates() {
            let b = Bundle { name: format!("{} flag={} (no GDEF)", name, fname), lookups: vec![lk(fl, subs)], alt };
            let mut p = prog_of("misc", &b, (3, 4), SEAM_CUSTOM | SEAM_SHAPE, 0);
            p.gdef = None;
            v.push(p);
        }
    }
    // script selection: a 'latn' script record is found directly; an unrelated script without DFLT selects nothing
    for (sname, script) in [("latn", T_LATN), ("grek(no DFLT)", tag(b"grek"))] {
        let b = Bundle::simple(format!("ligature{{a b>L}}/IgnoreMarks script={}", sname), lk((IGNORE_MARKS, 0), vec![lig(vec![A], vec![vec![(L, vec![B])]])]));
        let mut p = prog_of("misc", &b, (4, 5), SEAM_CUSTOM | SEAM_MASK | SEAM_SHAPE, 1);
        p.gsub.script = script;
        v.push(p);
    }
    // a feature that is not in the language system, and a caller asking for an absent feature
    {
        let b = Bundle::simple("single1[a]+1 feature not listed in LangSys".into(), lk(z, vec![Sub::Single1 { cov: vec![A], delta: 1 }]));
        let mut p = prog_of("misc", &b, (2, 3), SEAM_CUSTOM | SEAM_MASK | SEAM_SHAPE, 0);
        p.gsub.features = vec![Feature { tag: T_CALT, lookups: vec![] }, Feature { tag: T_LIGA, lookups: vec![0] }];
        p.gsub.langsys = vec![0];
        v.push(p);
        let b = Bundle::simple("single1[a]+1 caller asks for calt only".into(), lk(z, vec![Sub::Single1 { cov: vec![A], delta: 1 }]));
        let mut p = prog_of("misc", &b, (2, 3), SEAM_CUSTOM | SEAM_MASK | SEAM_SHAPE, 0);
        p.feats = vec![(T_CALT, None)];
        v.push(p);
    }
    v
}


/// lookups whose effect changes when they are applied a second time
fn shared_bundles() -> Vec<Bundle> {
    let z: Fl = (0, 0);
    vec![
        Bundle::simple("single1[a,b]+1".into(), lk(z, vec![Sub::Single1 { cov: vec![A, B], delta: 1 }])),
        Bundle::simple("multiple[a]>[a,b]".into(), lk(z, vec![Sub::Multiple { cov: vec![A], seqs: vec![vec![A, B]] }])),
        Bundle::simple("ligature{a a>a; b m1>b}".into(), lk(z, vec![lig(vec![A, B], vec![vec![(A, vec![A])], vec![(B, vec![M1])]])])),
        Bundle::simple("single2[a,b,L]>[b,L,a]/IgnoreMarks".into(), lk((IGNORE_MARKS, 0), vec![Sub::Single2 { cov: vec![A, B, L], subst: vec![B, L, A] }])),
        Bundle {
            name: "ctx3{[ab][ab]}>single1[a,b]+1@0".into(),
            lookups: vec![lk(z, vec![Sub::Context3 { covs: vec![vec![A, B], vec![A, B]], records: vec![(0, 1)] }]), lk(z, vec![Sub::Single1 { cov: vec![A, B], delta: 1 }])],
            alt: None,
        },
    ]
}

/// main lookups first (bundle i at index i), their nested lookups after them
fn assemble(bundles: &[&Bundle]) -> Vec<Lookup> {
    let k = bundles.len() as u16;
    let mut bases = Vec::new();
    let mut base = k;
    for b in bundles {
        bases.push(base);
        base += b.lookups.len() as u16 - 1;
    }
    let mut lookups: Vec<Lookup> = Vec::new();
    for (i, b) in bundles.iter().enumerate() {
        let bs = bases[i];
        lookups.push(remap_lookup(&b.lookups[0], &|j| if j == 0 { i as u16 } else { bs + j - 1 }));
    }
    for (i, b) in bundles.iter().enumerate() {
        let bs = bases[i];
        for l in &b.lookups[1..] {
            lookups.push(remap_lookup(l, &|j| if j == 0 { i as u16 } else { bs + j - 1 }));
        }
    }
    lookups
}

/// one lookup index listed by several enabled features, listed twice by one feature, overlapping index sets:
/// every lookup of the union is applied once, in LookupList order ('rvrn' is a stage of its own)
fn cat_shared() -> Vec<Prog> {
    let f = |tag: u32, l: &[u16]| Feature { tag, lookups: l.to_vec() };
    // (name, number of main lookups, FeatureList (sorted by tag), caller lists, needs tuple)
    let configs: Vec<(&str, usize, Vec<Feature>, Vec<Vec<u32>>, bool)> = vec![
        ("clig[0] liga[0]", 1, vec![f(T_CLIG, &[0]), f(T_LIGA, &[0])], vec![vec![T_CLIG, T_LIGA], vec![T_LIGA, T_CLIG]], false),
        (
            "calt[0] clig[0] liga[0]",
            1,
            vec![f(T_CALT, &[0]), f(T_CLIG, &[0]), f(T_LIGA, &[0])],
            vec![vec![T_CALT, T_CLIG, T_LIGA], vec![T_LIGA, T_CLIG, T_CALT], vec![T_CLIG, T_LIGA, T_CALT]],
            false,
        ),
        ("liga[0,0]", 1, vec![f(T_LIGA, &[0, 0])], vec![vec![T_LIGA]], false),
        ("clig[0,0] liga[0]", 1, vec![f(T_CLIG, &[0, 0]), f(T_LIGA, &[0])], vec![vec![T_CLIG, T_LIGA], vec![T_LIGA, T_CLIG]], false),
        // 'rvrn' is processed as a stage of its own: a lookup it shares with another feature runs in both stages
        ("liga[0] rvrn[0]", 1, vec![f(T_LIGA, &[0]), f(T_RVRN, &[0])], vec![vec![T_LIGA, T_RVRN], vec![T_RVRN, T_LIGA]], true),
        ("clig[0] liga[0] rvrn[0,0]", 1, vec![f(T_CLIG, &[0]), f(T_LIGA, &[0]), f(T_RVRN, &[0, 0])], vec![vec![T_CLIG, T_LIGA, T_RVRN]], true),
        ("clig[0,1] liga[0]", 2, vec![f(T_CLIG, &[0, 1]), f(T_LIGA, &[0])], vec![vec![T_CLIG, T_LIGA], vec![T_LIGA, T_CLIG]], false),
        ("clig[0,1] liga[1,0]", 2, vec![f(T_CLIG, &[0, 1]), f(T_LIGA, &[1, 0])], vec![vec![T_CLIG, T_LIGA], vec![T_LIGA, T_CLIG]], false),
        ("clig[1] liga[0,1,1]", 2, vec![f(T_CLIG, &[1]), f(T_LIGA, &[0, 1, 1])], vec![vec![T_CLIG, T_LIGA], vec![T_LIGA, T_CLIG]], false),
        ("clig[0,1] liga[1,2]", 3, vec![f(T_CLIG, &[0, 1]), f(T_LIGA, &[1, 2])], vec![vec![T_CLIG, T_LIGA], vec![T_LIGA, T_CLIG]], false),
        (
            "calt[0,2] clig[1,2] liga[0,1,2]",
            3,
            vec![f(T_CALT, &[0, 2]), f(T_CLIG, &[1, 2]), f(T_LIGA, &[0, 1, 2])],
            vec![vec![T_CALT, T_CLIG, T_LIGA], vec![T_LIGA, T_CALT, T_CLIG]],
            false,
        ),
    ];
    let bundles = shared_bundles();
    let mut v = Vec::new();
    for (cname, k, features, callers, needs_tuple) in &configs {
        // every k-tuple of bundles
        let n = bundles.len();
        let total = n.pow(*k as u32);
        for code in 0..total {
            let mut c = code;
            let mut chosen: Vec<&Bundle> = Vec::new();
            for _ in 0..*k {
                chosen.push(&bundles[c % n]);
                c /= n;
            }
            let lookups = assemble(&chosen);
            let lname = chosen.iter().map(|b| format!("[{}]", b.name)).collect::<Vec<_>>().join(" ");
            for (ci, caller) in callers.iter().enumerate() {
                v.push(Prog {
                    name: format!("shared: {} {} caller#{}", lname, cname, ci),
                    class: "shared",
                    gsub: Gsub { script: T_DFLT, langsys: (0..features.len() as u16).collect(), features: features.clone(), lookups: lookups.clone(), variations: None },
                    gdef: Some(Gdef::universe()),
                    feats: caller.iter().map(|t| (*t, None)).collect(),
                    tuples: if *needs_tuple { vec![Some(vec![0])] } else { vec![None] },
                    maxlen: if *k == 1 { (4, 5) } else { (3, 4) },
                    // the Mask seam does not depend on the caller's order: once per program
                    seams: if ci == 0 { SEAM_CUSTOM | SEAM_MASK | if *k == 1 { SEAM_SHAPE } else { 0 } } else { SEAM_CUSTOM },
                    encodings: 0,
                });
            }
        }
    }
    v
}


/// "reach": a contextual rule matched at or next to the start of the run whose nested ligature (2-4 components)
/// consumes 1-3 glyphs beyond the matched input, on strings over {a,b,m1} long enough for the same lookup to
/// apply again later in the run (the bookkeeping of the end of the match must neither go negative nor skip the rest)
fn cat_reach() -> Vec<Prog> {
    let templates: Vec<CtxT> = vec![
        CtxT { name: "ctx1{a}", n: 1, build: |r, _| vec![Sub::Context1 { cov: vec![A], sets: vec![Some(vec![rule(vec![], r)])] }] },
        CtxT { name: "ctx1{a b}", n: 2, build: |r, _| vec![Sub::Context1 { cov: vec![A], sets: vec![Some(vec![rule(vec![B], r)])] }] },
        CtxT {
            name: "ctx2{class1(a)}",
            n: 1,
            build: |r, _| vec![Sub::Context2 { cov: vec![A], classes: vec![(A, 1), (B, 2)], sets: vec![None, Some(vec![rule(vec![], r)]), None] }],
        },
        CtxT {
            name: "ctx2{class1(a) class2(b)}",
            n: 2,
            build: |r, _| vec![Sub::Context2 { cov: vec![A], classes: vec![(A, 1), (B, 2)], sets: vec![None, Some(vec![rule(vec![2], r)]), None] }],
        },
        CtxT { name: "ctx3{[a]}", n: 1, build: |r, _| vec![Sub::Context3 { covs: vec![vec![A]], records: r.to_vec() }] },
        CtxT { name: "ctx3{[a][b]}", n: 2, build: |r, _| vec![Sub::Context3 { covs: vec![vec![A], vec![B]], records: r.to_vec() }] },
        CtxT { name: "chain1{|a|b}", n: 1, build: |r, _| vec![Sub::Chain1 { cov: vec![A], sets: vec![Some(vec![crule(vec![], vec![], vec![B], r)])] }] },
        CtxT { name: "chain1{b|a|}", n: 1, build: |r, _| vec![Sub::Chain1 { cov: vec![A], sets: vec![Some(vec![crule(vec![B], vec![], vec![], r)])] }] },
        CtxT {
            name: "chain2{|class1(a)|class2(b)}",
            n: 1,
            build: |r, _| {
                vec![Sub::Chain2 {
                    cov: vec![A],
                    back_classes: vec![(A, 1), (B, 2)],
                    in_classes: vec![(A, 1), (B, 2)],
                    ahead_classes: vec![(A, 1), (B, 2)],
                    sets: vec![None, Some(vec![crule(vec![], vec![], vec![2], r)]), None],
                }]
            },
        },
        CtxT { name: "chain3{|[a]|[b]}", n: 1, build: |r, _| vec![Sub::Chain3 { back: vec![], input: vec![vec![A]], ahead: vec![vec![B]], records: r.to_vec() }] },
        CtxT { name: "chain3{[b]|[a]|}", n: 1, build: |r, _| vec![Sub::Chain3 { back: vec![vec![B]], input: vec![vec![A]], ahead: vec![], records: r.to_vec() }] },
        CtxT {
            name: "chain3{|[a][b]|[a]}",
            n: 2,
            build: |r, _| vec![Sub::Chain3 { back: vec![], input: vec![vec![A], vec![B]], ahead: vec![vec![A]], records: r.to_vec() }],
        },
    ];
    let mut v = Vec::new();
    for (fname, fl) in [("0", (0u16, 0u16)), ("IgnoreMarks", (IGNORE_MARKS, 0))] {
        for t in &templates {
            for k in 0..t.n as u16 {
                // ligatures that start with the glyph at sequence index k (a at 0, b at 1): 2, 3 and 4 components
                let comps: Vec<Vec<G>> = if k == 0 { vec![vec![B], vec![B, A], vec![B, A, B]] } else { vec![vec![A], vec![A, B], vec![A, B, A]] };
                let first = if k == 0 { A } else { B };
                for rest in comps {
                    let ligl = lk(fl, vec![lig(vec![first], vec![vec![(L, rest.clone())]])]);
                    let lname = format!("ligature{{{} {}>L}}@{}", glyph_name(first), rest.iter().map(|g| glyph_name(*g)).collect::<Vec<_>>().join(" "), k);
                    let b = ctx_bundle(t, fl, fname, &[(k, 2)], &[ligl], &lname);
                    let mut p = prog_of("reach", &b, (7, 8), SEAM_CUSTOM, 0);
                    if fl == (0, 0) && k == 0 {
                        p.seams = SEAM_CUSTOM | SEAM_MASK | SEAM_SHAPE;
                    }
                    v.push(p);
                }
            }
        }
    }
    v
}

fn catalogue(thorough: bool) -> Vec<Prog> {
    let mut v = cat_single(thorough);
    v.extend(cat_ctxflags(thorough));
    v.extend(cat_nest(thorough));
    v.extend(cat_pairs(thorough));
    v.extend(cat_shared());
    v.extend(cat_reach());
    v.extend(cat_variations());
    v.extend(cat_misc());
    v
}

// ---------------------------------------------------------------------------------------------------
// strings, glyph naming, wrapped font
// ---------------------------------------------------------------------------------------------------

fn strings(maxlen: usize) -> Vec<Vec<G>> {
    strings_over(&ALPHABET, maxlen)
}

/// the reduced alphabet of the "reach" class (longer strings)
const REACH_ALPHABET: [G; 3] = [A, B, M1];

fn strings_over(alphabet: &[G], maxlen: usize) -> Vec<Vec<G>> {
    let mut out: Vec<Vec<G>> = vec![vec![]];
    let mut level: Vec<Vec<G>> = vec![vec![]];
    for _ in 0..maxlen {
        let mut next = Vec::new();
        for s in &level {
            for &g in alphabet {
                let mut t = s.clone();
                t.push(g);
                next.push(t);
            }
        }
        out.extend(next.iter().cloned());
        level = next;
    }
    out
}

fn glyph_char(g: G) -> char {
    match g {
        1 => 'a',
        2 => 'b',
        3 => 'c',
        4 => 'L',
        5 => '1',
        6 => '2',
        7 => 'x',
        _ => '?',
    }
}

fn glyph_name(g: G) -> String {
    match g {
        0 => ".notdef".into(),
        1 => "a".into(),
        2 => "b".into(),
        3 => "c".into(),
        4 => "L".into(),
        5 => "m1".into(),
        6 => "m2".into(),
        7 => "x".into(),
        n => format!("gid{}", n),
    }
}

fn text_of(s: &[G]) -> String {
    s.iter().map(|g| glyph_char(*g)).collect()
}

const CMAP: [(u32, u16); 7] = [('a' as u32, 1), ('b' as u32, 2), ('c' as u32, 3), ('L' as u32, 4), ('1' as u32, 5), ('2' as u32, 6), ('x' as u32, 7)];

type FontT<'b> = allsorts::Font<allsorts::font_data::DynamicFontTableProvider<'b>>;

#[derive(Clone, Copy, Debug, PartialEq, Eq)]
enum Seam {
    Custom,
    Mask,
    Shape,
}

impl Seam {
    fn name(&self) -> &'static str {
        match self {
            Seam::Custom => "gsub::apply(Features::Custom) on new_layout_cache(LayoutTable<GSUB>)",
            Seam::Mask => "gsub::apply(Features::Mask) on new_layout_cache(LayoutTable<GSUB>)",
            Seam::Shape => "Font::map_glyphs + Font::shape(Features::Custom) on a wrapped sfnt",
        }
    }
    fn id(&self) -> &'static str {
        match self {
            Seam::Custom => "custom",
            Seam::Mask => "mask",
            Seam::Shape => "shape",
        }
    }
    /// the character attached to input position `pos`: unique per position at the narrow seams
    fn input_char(&self, pos: usize, gid: G) -> char {
        match self {
            Seam::Shape => glyph_char(gid),
            _ => char::from_u32(0xE000 + 16 * pos as u32 + gid as u32).unwrap(),
        }
    }
}

fn char_label(c: u32) -> String {
    if (0xE000..0xF000).contains(&c) {
        format!("#{}", (c - 0xE000) / 16)
    } else {
        char::from_u32(c).map(|c| c.to_string()).unwrap_or_else(|| format!("U+{:04X}", c))
    }
}

fn run_json(r: &[Gl]) -> J {
    J::Array(
        r.iter()
            .map(|g| {
                let mut s = glyph_name(g.gid);
                s.push('<');
                s.push_str(&g.chars.iter().map(|c| char_label(*c)).collect::<Vec<_>>().join(","));
                s.push('>');
                if g.lig {
                    s.push_str(" LIGATURE");
                }
                if g.dup {
                    s.push_str(" MULTI_SUBST_DUP");
                }
                if let Some(c) = g.comp {
                    s.push_str(&format!(" comp={}", c));
                }
                json!(s)
            })
            .collect(),
    )
}

fn raw_glyph(g: G, ch: char) -> RawGlyph<()> {
    let mut r = RawGlyph {
        unicodes: Default::default(),
        glyph_index: g,
        liga_component_pos: 0,
        glyph_origin: GlyphOrigin::Char(ch),
        flags: RawGlyphFlags::empty(),
        variation: None,
        extra_data: (),
    };
    r.unicodes.push(ch);
    r
}

fn observe(glyphs: &[RawGlyph<()>]) -> Vec<Gl> {
    glyphs
        .iter()
        .map(|g| Gl {
            gid: g.glyph_index,
            chars: g.unicodes.iter().map(|c| *c as u32).collect(),
            lig: g.flags.contains(RawGlyphFlags::LIGATURE),
            dup: g.flags.contains(RawGlyphFlags::MULTI_SUBST_DUP),
            comp: Some(g.liga_component_pos),
        })
        .collect()
}

fn panic_key(p: &PanicInfo) -> String {
    let root = p.file.find("/src/").map(|i| p.file[..i].to_string()).unwrap_or_else(|| crate::util::REPO.to_string());
    format!("C04:panic:{}", p.site_key(&root))
}

#[derive(Clone, Copy, Debug, PartialEq, Eq)]
enum Diff {
    Same,
    Glyphs,
    Unicodes,
    Flags,
    Comp,
}

/// compare the reference run (characters = input position ids) with an observed run
fn diff(exp: &[Gl], obs: &[Gl], s: &[G], seam: Seam, gdef: &Gdef) -> Diff {
    if exp.len() != obs.len() || exp.iter().zip(obs).any(|(e, o)| e.gid != o.gid) {
        return Diff::Glyphs;
    }
    for (e, o) in exp.iter().zip(obs) {
        if e.chars.len() != o.chars.len() || e.chars.iter().zip(&o.chars).any(|(id, c)| seam.input_char(*id as usize, s[*id as usize]) as u32 != *c) {
            return Diff::Unicodes;
        }
    }
    if exp.iter().zip(obs).any(|(e, o)| e.lig != o.lig || e.dup != o.dup) {
        return Diff::Flags;
    }
    if exp.iter().zip(obs).any(|(e, o)| e.comp.is_some() && gdef.is_mark(e.gid) && e.comp != o.comp) {
        return Diff::Comp;
    }
    Diff::Same
}

/// the reference run with the characters of one seam
fn translate(exp: &[Gl], s: &[G], seam: Seam) -> Vec<Gl> {
    exp.iter()
        .map(|g| Gl { chars: g.chars.iter().map(|id| seam.input_char(*id as usize, s[*id as usize]) as u32).collect(), ..g.clone() })
        .collect()
}

// ---------------------------------------------------------------------------------------------------
// accumulation
// ---------------------------------------------------------------------------------------------------

#[derive(Default)]
struct Acc {
    viol: BTreeMap<String, (u64, J)>,
    accepted: BTreeMap<&'static str, u64>,
    sample: Option<(u64, J)>,
    evals: u64,
    states: u64,
    nontrivial: u64,
    class: &'static str,
}

impl Acc {
    fn report(&mut self, key: &str, mk: impl FnOnce() -> J) {
        let key: String = key.chars().map(|c| if c.is_whitespace() { '_' } else { c }).collect();
        match self.viol.get_mut(&key) {
            Some(e) => e.0 += 1,
            None => {
                self.viol.insert(key, (1, mk()));
            }
        }
    }
    fn accept(&mut self, what: &'static str) {
        *self.accepted.entry(what).or_insert(0) += 1;
    }
    fn merge_into(self, ctx: &Ctx) {
        for (k, (n, w)) in self.viol {
            ctx.violation(&k, || w);
            ctx.bump(&format!("cases[{}]", k), n);
        }
        for (k, n) in self.accepted {
            ctx.bump(&format!("accepted_alternative[{}]", k), n);
        }
        if let Some((h, s)) = self.sample {
            ctx.sample(h, || s);
        }
        ctx.evals(self.evals);
        ctx.add_states(self.states);
        ctx.add_transitions(self.states);
        if !self.class.is_empty() {
            ctx.bump(&format!("cases_compared[{}]", self.class), self.evals);
            ctx.bump(&format!("nontrivial_reference_cases[{}]", self.class), self.nontrivial);
        }
    }
}

// ---------------------------------------------------------------------------------------------------
// running the real code
// ---------------------------------------------------------------------------------------------------

struct Loaded {
    enc: Enc,
    gsub_bytes: Vec<u8>,
    gdef_bytes: Option<Vec<u8>>,
    cache: LayoutCache<GSUB>,
    gdef: Option<GDEFTable>,
}

fn enc_json(e: &Enc) -> J {
    json!({"coverage_format": e.cov_fmt, "classdef_format": e.class_fmt, "extension": e.ext})
}

fn load(p: &Prog, enc: Enc, acc: &mut Acc) -> Option<Loaded> {
    let gsub_bytes = p.gsub.encode(&enc);
    let gdef_bytes = p.gdef.as_ref().map(|g| g.encode(&enc));
    let parsed = guard(|| -> Result<(LayoutCache<GSUB>, Option<GDEFTable>), String> {
        let t = ReadScope::new(&gsub_bytes).read::<LayoutTable<GSUB>>().map_err(|e| format!("GSUB: {:?}", e))?;
        let g = match &gdef_bytes {
            Some(b) => Some(ReadScope::new(b).read::<GDEFTable>().map_err(|e| format!("GDEF: {:?}", e))?),
            None => None,
        };
        Ok((new_layout_cache(t), g))
    });
    let wit = |extra: J| json!({"program": p.name, "encoding": enc_json(&enc), "GSUB": hex(&gsub_bytes), "detail": extra});
    match parsed {
        Err(pi) => {
            acc.report(&panic_key(&pi), || wit(json!({"panic": pi.msg, "at": pi.loc(), "seam": "table parsing"})));
            None
        }
        Ok(Err(e)) => {
            acc.report("C04:mismatch:valid-table-rejected", || wit(json!({"error": e})));
            None
        }
        Ok(Ok((cache, gdef))) => Some(Loaded { enc, gsub_bytes, gdef_bytes, cache, gdef }),
    }
}

enum Observed {
    Panic(PanicInfo),
    Done { err: Option<String>, run: Vec<Gl> },
}

fn with_tuple<R>(coords: Option<&[i16]>, f: impl FnOnce(Option<Tuple<'_>>) -> R) -> R {
    let arr: Vec<F2Dot14> = coords.map(|c| c.iter().map(|v| F2Dot14::from_raw(*v)).collect()).unwrap_or_default();
    // SAFETY: `arr` outlives the call; values are within [-1, 1]
    let t = coords.map(|_| unsafe { Tuple::from_raw_parts(arr.as_ptr(), arr.len()) });
    f(t)
}

fn real_apply(ld: &Loaded, features: &Features, coords: Option<&[i16]>, s: &[G], seam: Seam) -> Observed {
    let r = guard(|| {
        let mut glyphs: Vec<RawGlyph<()>> = s.iter().enumerate().map(|(i, &g)| raw_glyph(g, seam.input_char(i, g))).collect();
        let res = with_tuple(coords, |t| gsub::apply(0, &ld.cache, ld.gdef.as_ref(), T_LATN, None, features, t, 8, &mut glyphs));
        (res.err().map(|e| format!("{:?}", e)), glyphs)
    });
    match r {
        Err(pi) => Observed::Panic(pi),
        Ok((err, glyphs)) => Observed::Done { err, run: observe(&glyphs) },
    }
}

fn real_shape(font: &mut FontT<'_>, features: &Features, coords: Option<&[i16]>, s: &[G]) -> Observed {
    let text = text_of(s);
    let r = guard(|| {
        let glyphs = font.map_glyphs(&text, T_LATN, MatchingPresentation::NotRequired);
        with_tuple(coords, |t| font.shape(glyphs, T_LATN, None, features, t, false))
    });
    match r {
        Err(pi) => Observed::Panic(pi),
        Ok(Ok(infos)) => Observed::Done { err: None, run: observe(&infos.iter().map(|i| i.glyph.clone()).collect::<Vec<_>>()) },
        Ok(Err((e, infos))) => Observed::Done { err: Some(format!("{:?}", e)), run: observe(&infos.iter().map(|i| i.glyph.clone()).collect::<Vec<_>>()) },
    }
}

fn custom_features(p: &Prog) -> Features {
    Features::Custom(p.feats.iter().map(|&(feature_tag, alternate)| FeatureInfo { feature_tag, alternate }).collect())
}

/// the features the reference interpreter enables at a seam; None = the seam cannot express this case
fn model_feats(p: &Prog, seam: Seam, tuple: Option<&[i16]>) -> Option<Vec<(u32, usize)>> {
    let mut feats: Vec<(u32, usize)> = p.feats.iter().map(|&(t, a)| (t, a.unwrap_or(0))).collect();
    if seam == Seam::Mask {
        if feats.iter().any(|f| f.1 != 0) {
            return None;
        }
        let has_rvrn = feats.iter().any(|f| f.0 == T_RVRN);
        if tuple.is_none() && has_rvrn {
            return None;
        }
        // with a tuple the Mask path always processes 'rvrn' (the feature is mandatory)
        if tuple.is_some() && !has_rvrn && p.gsub.features.iter().any(|f| f.tag == T_RVRN) {
            feats.push((T_RVRN, 0));
        }
    }
    Some(feats)
}

fn mask_features(p: &Prog) -> Features {
    let mut m = FeatureMask::empty();
    for (t, _) in &p.feats {
        m |= FeatureMask::from_tag(*t);
    }
    Features::Mask(m)
}

/// deviation switches that can matter for a program at all, most specific precondition first (when several
/// switches explain an observation on their own, the first one is reported)
fn static_switches(p: &Prog) -> Vec<usize> {
    // All five deviations the switches describe were repaired in /repo (KNOWN_FINDINGS.txt `fixed:` lines for C04 and
    // the mark-filtering-set entry of C05). None is a candidate any more: a return of one of those behaviours is
    // reported as a plain mismatch. The computation below is kept for documentation and for re-enabling a switch
    // should a new deviation have to be recorded.
    const STALE_SWITCHES_ARE_CANDIDATES: bool = false;
    if !STALE_SWITCHES_ARE_CANDIDATES {
        return Vec::new();
    }
    let ls = &p.gsub.lookups;
    let mut v = Vec::new();
    let unsorted = |l: &Vec<u16>| l.windows(2).any(|w| w[0] >= w[1]);
    let rvrn_index = p.gsub.features.iter().position(|f| f.tag == T_RVRN);
    if let Some(ri) = rvrn_index {
        let substituted = p.gsub.variations.iter().flatten().flat_map(|r| r.subst.iter().flatten()).any(|s| s.0 as usize == ri && unsorted(&s.1));
        if unsorted(&p.gsub.features[ri].lookups) || substituted {
            v.push(4);
        }
    }
    if ls.iter().any(|l| l.flag & MFS != 0 && l.flag & IGNORE_MARKS == 0 && l.flag >> 8 != 0) {
        v.push(1);
    }
    if ls.iter().any(|l| l.is_contextual()) {
        v.push(2);
        v.push(3);
    }
    if ls.iter().any(|l| l.flag & MFS != 0 && l.flag & IGNORE_MARKS == 0 && l.flag >> 8 == 0) {
        v.push(0);
    }
    v
}

fn subsets(cands: &[usize], max: usize) -> Vec<Vec<usize>> {
    let n = cands.len();
    let mut out = Vec::new();
    for size in 1..=max.min(n) {
        for mask in 0u32..(1 << n) {
            if mask.count_ones() as usize == size {
                out.push((0..n).filter(|i| mask >> i & 1 == 1).map(|i| cands[i]).collect());
            }
        }
    }
    out
}

/// legitimate alternatives worth trying given what a reference run touched (the default is not included)
fn variants(touched: u32) -> Vec<(Variant, &'static str)> {
    let seqs: &[SeqMode] = if touched & (T_LEN_CHANGE_IN_CONTEXT | T_CONTEXT_MATCHED) != 0 { &[SeqMode::Hb, SeqMode::Spec] } else { &[SeqMode::Hb] };
    let empties: &[bool] = if touched & T_EMPTY_SEQ != 0 { &[true, false] } else { &[true] };
    let nones: &[bool] = if touched & T_NONE_TUPLE_WITH_VARIATIONS != 0 { &[false, true] } else { &[false] };
    let resumes: &[bool] = if touched & T_END_CLAMPED != 0 { &[false, true] } else { &[false] };
    let mut v = Vec::new();
    for &seq in seqs {
        for &empty_seq_deletes in empties {
            for &none_is_default_instance in nones {
                for &resume_after_applied in resumes {
                    let var = Variant { seq, empty_seq_deletes, none_is_default_instance, resume_after_applied };
                    if var == Variant::default() {
                        continue;
                    }
                    let name = match (seq, empty_seq_deletes, none_is_default_instance, resume_after_applied) {
                        (SeqMode::Spec, true, false, false) => "sequence-index-literal-reading",
                        (SeqMode::Hb, false, false, false) => "empty-sequence-leaves-glyph",
                        (SeqMode::Hb, true, true, false) => "no-tuple-is-default-instance",
                        (SeqMode::Hb, true, false, true) => "resume-after-nested-lookup-position",
                        _ => "combination-of-alternatives",
                    };
                    v.push((var, name));
                }
            }
        }
    }
    v
}

struct Case<'a> {
    p: &'a Prog,
    thorough: bool,
    ld: &'a Loaded,
    s: &'a [G],
    tuple: Option<&'a [i16]>,
    gdefm: &'a Gdef,
    static_sw: &'a [usize],
}

impl<'a> Case<'a> {
    fn input(&self) -> Vec<Gl> {
        self.s.iter().enumerate().map(|(i, &g)| Gl::input(g, i as u32)).collect()
    }
    fn reference(&self, feats: &[(u32, usize)], var: Variant, sw: u32) -> Res {
        apply_gsub(&self.p.gsub, self.gdefm, T_LATN, feats, self.tuple, &self.input(), var, sw)
    }
    fn witness(&self, seam: Seam, feats: &[(u32, usize)]) -> J {
        json!({
            "program": self.p.name, "class": self.p.class, "seam": seam.name(),
            "lookups": self.p.gsub.lookups.iter().map(|l| format!("{:?}", l)).collect::<Vec<_>>(),
            "features": self.p.gsub.features.iter().map(|f| format!("{}{:?}", otmodel::tag_str(f.tag), f.lookups)).collect::<Vec<_>>(),
            "langsys_feature_indices": self.p.gsub.langsys, "script": otmodel::tag_str(self.p.gsub.script),
            "feature_variations": self.p.gsub.variations.as_ref().map(|v| format!("{:?}", v)),
            "enabled_features": feats.iter().map(|f| format!("{} alt={}", otmodel::tag_str(f.0), f.1)).collect::<Vec<_>>(),
            "encoding": enc_json(&self.ld.enc),
            "GSUB": hex(&self.ld.gsub_bytes), "GDEF": self.ld.gdef_bytes.as_ref().map(|b| hex(b)),
            "input": self.s.iter().map(|g| glyph_name(*g)).collect::<Vec<_>>().join(" "), "glyphs": self.s, "tuple_f2dot14": self.tuple,
            "replay": {"program": self.p.name, "thorough": self.thorough,
                       "enc": [self.ld.enc.cov_fmt, self.ld.enc.class_fmt, self.ld.enc.ext as u8],
                       "glyphs": self.s, "tuple": self.tuple, "seam": seam.id()},
        })
    }

    /// decide one observation against the reference
    fn judge(&self, acc: &mut Acc, seam: Seam, feats: &[(u32, usize)], base: &Res, obs: Observed) -> Option<Vec<Gl>> {
        acc.evals += 1;
        let (err, run) = match obs {
            Observed::Panic(pi) => {
                acc.report(&panic_key(&pi), || {
                    let mut w = self.witness(seam, feats);
                    w["panic"] = json!(pi.msg);
                    w["at"] = json!(pi.loc());
                    w["expected"] = run_json(&translate(&base.run, self.s, seam));
                    w
                });
                return None;
            }
            Observed::Done { err, run } => (err, run),
        };
        if base.touched & T_DEPTH_CAP != 0 {
            acc.accept("reference-depth-cap-reached-not-compared");
            return Some(run);
        }
        if let Some(e) = err {
            // an implementation limit on nested contextual lookups is legitimate once the reference itself enters
            // a fourth level (a contextual lookup nested three deep)
            if e.contains("LimitExceeded") && base.max_nested_ctx >= 3 {
                acc.accept("limit-exceeded-at-fourth-contextual-level");
            } else {
                acc.report("C04:mismatch:error-returned", || {
                    let mut w = self.witness(seam, feats);
                    w["error"] = json!(e);
                    w["expected"] = run_json(&translate(&base.run, self.s, seam));
                    w["reference_nesting_depth"] = json!(base.max_nested_ctx);
                    w
                });
            }
            return Some(run);
        }
        let d0 = diff(&base.run, &run, self.s, seam, self.gdefm);
        if d0 == Diff::Same {
            return Some(run);
        }
        for (var, name) in variants(base.touched) {
            if diff(&self.reference(feats, var, 0).run, &run, self.s, seam, self.gdefm) == Diff::Same {
                acc.accept(name);
                return Some(run);
            }
        }
        // attribution to documented deviations
        let mut hit: Option<Vec<usize>> = None;
        'outer: for set in subsets(self.static_sw, 3) {
            let sw = set.iter().fold(0u32, |a, &i| a | (1 << i));
            let r = self.reference(feats, Variant::default(), sw);
            if r.touched & T_DEPTH_CAP == 0 && diff(&r.run, &run, self.s, seam, self.gdefm) == Diff::Same {
                hit = Some(set);
                break;
            }
            for (var, _) in variants(r.touched | base.touched) {
                let r2 = self.reference(feats, var, sw);
                if r2.touched & T_DEPTH_CAP == 0 && diff(&r2.run, &run, self.s, seam, self.gdefm) == Diff::Same {
                    hit = Some(set);
                    break 'outer;
                }
            }
        }
        let detail = |keys: &[String]| {
            let mut w = self.witness(seam, feats);
            w["expected"] = run_json(&translate(&base.run, self.s, seam));
            w["observed"] = run_json(&run);
            w["explained_by"] = json!(keys);
            w
        };
        match hit {
            Some(set) => {
                let keys: Vec<String> = set.iter().map(|&i| format!("C04:{}", SW_NAMES[i])).collect();
                for k in &keys {
                    acc.report(k, || detail(&keys));
                }
            }
            None => {
                let key = match d0 {
                    Diff::Glyphs => format!("C04:mismatch:glyphs:{}", self.p.class),
                    Diff::Unicodes => "C04:mismatch:unicodes".to_string(),
                    Diff::Flags => "C04:mismatch:ligature-or-duplicate-flag".to_string(),
                    _ => "C04:mismatch:liga-component-pos".to_string(),
                };
                acc.report(&key, || detail(&[]));
            }
        }
        Some(run)
    }
}

fn hash_run(r: &[Gl]) -> u64 {
    let mut h = H::new();
    for g in r {
        h = h.u64(g.gid as u64).u8(g.lig as u8).u8(g.dup as u8).u64(g.comp.map(|c| c as u64 + 1).unwrap_or(0));
        for c in &g.chars {
            h = h.u64(*c as u64);
        }
        h = h.u8(0xfd);
    }
    h.get()
}

fn enc_list(level: u8) -> Vec<Enc> {
    match level {
        0 => vec![Enc::default()],
        1 => vec![Enc::default(), Enc { ext: true, ..Enc::default() }],
        _ => {
            let v = std::cell::RefCell::new(Vec::new());
            mcx::explore(2, |c| {
                let enc = Enc { cov_fmt: [1u8, 2][c.dev(2)], class_fmt: [2u8, 1][c.dev(2)], ext: c.dev(2) == 1 };
                v.borrow_mut().push(enc);
            });
            v.into_inner()
        }
    }
}

/// all cases of one program (or one selected case when `only` is given)
fn run_cases(
    ctx: Option<&Ctx>,
    acc: &mut Acc,
    p: &Prog,
    thorough: bool,
    loaded: &[Loaded],
    mut font: Option<&mut FontT<'_>>,
    strings: &[&[G]],
    only_seam: Option<Seam>,
) {
    let gdefm = p.gdef.clone().unwrap_or_default();
    let static_sw = static_switches(p);
    let custom = custom_features(p);
    let mask = mask_features(p);
    let pid = H::new().str(&p.name).get();
    let want = |s: Seam, bit: u8| p.seams & bit != 0 && only_seam.map_or(true, |o| o == s);
    for s in strings {
        for tuple in &p.tuples {
            let tuple = tuple.as_deref();
            let mk = |ld| Case { p, thorough, ld, s, tuple, gdefm: &gdefm, static_sw: &static_sw };
            let feats = model_feats(p, Seam::Custom, tuple).unwrap();
            let base = mk(&loaded[0]).reference(&feats, Variant::default(), 0);
            let nontrivial = base.touched & (T_FIRED | T_SPANNED_SKIPPED) != 0;
            if nontrivial {
                acc.nontrivial += 1;
            }
            let ch = H::new().u64(pid).bytes(&s.iter().map(|g| *g as u8).collect::<Vec<_>>()).bytes(&tuple.unwrap_or(&[]).iter().flat_map(|v| v.to_be_bytes()).collect::<Vec<_>>()).u8(tuple.is_some() as u8);
            if want(Seam::Custom, SEAM_CUSTOM) {
                for (k, ld) in loaded.iter().enumerate() {
                    let case = mk(ld);
                    let obs = real_apply(ld, &custom, tuple, s, Seam::Custom);
                    let run = case.judge(acc, Seam::Custom, &feats, &base, obs);
                    if k == 0 {
                        if let (Some(ctx), Some(run)) = (ctx, run) {
                            ctx.mark_outcome(hash_run(&run));
                            if nontrivial {
                                ctx.mark_nontrivial(ch.get());
                                if acc.sample.is_none() && base.touched & T_SPANNED_SKIPPED != 0 {
                                    let mut w = case.witness(Seam::Custom, &feats);
                                    let o = w.as_object_mut().unwrap();
                                    o.remove("replay");
                                    o.remove("GDEF");
                                    w["reference"] = run_json(&translate(&base.run, s, Seam::Custom));
                                    w["observed"] = run_json(&run);
                                    acc.sample = Some((ch.get(), w));
                                }
                            }
                        }
                    }
                }
            }
            if want(Seam::Mask, SEAM_MASK) {
                if let Some(mfeats) = model_feats(p, Seam::Mask, tuple) {
                    let case = mk(&loaded[0]);
                    let mbase = if mfeats == feats { None } else { Some(case.reference(&mfeats, Variant::default(), 0)) };
                    let obs = real_apply(&loaded[0], &mask, tuple, s, Seam::Mask);
                    case.judge(acc, Seam::Mask, &mfeats, mbase.as_ref().unwrap_or(&base), obs);
                }
            }
            if want(Seam::Shape, SEAM_SHAPE) {
                if let Some(f) = font.as_deref_mut() {
                    let case = mk(&loaded[0]);
                    let obs = real_shape(f, &custom, tuple, s);
                    case.judge(acc, Seam::Shape, &feats, &base, obs);
                }
            }
        }
    }
}

fn font_bytes(ld: &Loaded) -> Vec<u8> {
    let mut extra: Vec<(u32, Vec<u8>)> = vec![(tag(b"GSUB"), ld.gsub_bytes.clone())];
    if let Some(g) = &ld.gdef_bytes {
        extra.push((tag(b"GDEF"), g.clone()));
    }
    otmodel::tables::minimal_font(8, &CMAP, &extra)
}

fn run_prog(ctx: &Ctx, p: &Prog, thorough: bool, all_strings: &[Vec<G>], reach_strings: &[Vec<G>]) -> Acc {
    let all_strings = if p.class == "reach" { reach_strings } else { all_strings };
    let mut acc = Acc { class: p.class, ..Default::default() };
    let maxlen = if thorough { p.maxlen.1 } else { p.maxlen.0 };
    let loaded: Vec<Loaded> = enc_list(p.encodings).into_iter().filter_map(|e| load(p, e, &mut acc)).collect();
    if loaded.is_empty() || loaded[0].enc != Enc::default() {
        return acc;
    }
    let strings: Vec<&[G]> = all_strings.iter().filter(|s| s.len() <= maxlen).map(|s| &s[..]).collect();
    if p.seams & SEAM_SHAPE != 0 {
        let fb = font_bytes(&loaded[0]);
        let r = with_font(&fb, |f| run_cases(Some(ctx), &mut acc, p, thorough, &loaded, Some(f), &strings, None));
        if let Err(e) = r {
            acc.report("C04:mismatch:wrapped-font-rejected", || json!({"program": p.name, "error": e, "GSUB": hex(&loaded[0].gsub_bytes)}));
        }
    } else {
        run_cases(Some(ctx), &mut acc, p, thorough, &loaded, None, &strings, None);
    }
    acc.states = acc.evals + loaded.len() as u64 + 1;
    acc
}

// ---------------------------------------------------------------------------------------------------
// class "frac": FeatureMask::FRAC on the Features::Mask path of the default shaper
// ---------------------------------------------------------------------------------------------------
//
// allsorts does not apply the lookups of 'frac' to the whole run: the run is cut at ASCII fractions (a maximal run of
// ASCII digits, '/', a maximal run of ASCII digits, decided on the characters the glyphs came from); a fraction gets the
// lookups of the whole mask, the text between fractions the lookups of the mask without 'frac'. The reference below
// cuts the ORIGINAL text by that rule and runs the reference interpreter on every piece on its own, so no cursor /
// length arithmetic over the rewritten run is shared with the implementation. All lookups of the class are single,
// multiple or ligature substitutions whose ligatures stay within letters or within digits: no rule can look across
// a cut (checked by `frac_assert_local`), which makes the piece-wise reference exact.

const FG_SPACE: G = 1;
const FG_F: G = 2;
const FG_I: G = 3;
const FG_A: G = 4;
const FG_ONE: G = 5;
const FG_TWO: G = 6;
const FG_SLASH: G = 7;
const FG_FI: G = 8;
const FG_FFI: G = 9;
const FG_A1: G = 10;
const FG_A2: G = 11;
const FG_ONE_N: G = 12;
const FG_TWO_N: G = 13;
const FG_FRACTION: G = 14;
const FG_ONEONE: G = 15;
const FG_TWO_B: G = 16;
const FG_TWO_C: G = 17;
const FRAC_NGLYPHS: u16 = 18;

const FRAC_CMAP: [(u32, u16); 7] =
    [(' ' as u32, FG_SPACE), ('f' as u32, FG_F), ('i' as u32, FG_I), ('a' as u32, FG_A), ('1' as u32, FG_ONE), ('2' as u32, FG_TWO), ('/' as u32, FG_SLASH)];

const T_CCMP: u32 = tag(b"ccmp");
const T_FRAC: u32 = tag(b"frac");
const T_NUMR: u32 = tag(b"numr");
const T_LOCL: u32 = tag(b"locl");
const T_RLIG: u32 = tag(b"rlig");

fn frac_gid(c: char) -> G {
    FRAC_CMAP.iter().find(|e| e.0 == c as u32).map(|e| e.1).unwrap_or(0)
}

fn frac_glyph_name(g: G) -> String {
    const NAMES: [&str; FRAC_NGLYPHS as usize] = [
        ".notdef", "space", "f", "i", "a", "one", "two", "slash", "f_i", "f_f_i", "a.base", "a.top", "one.numr", "two.numr", "fraction", "one_one", "two.b", "two.c",
    ];
    NAMES.get(g as usize).map(|s| s.to_string()).unwrap_or_else(|| format!("gid{}", g))
}

/// 1 = made from letters, 2 = made from digits, 3 = made from the slash, 0 = space / .notdef
fn frac_glyph_class(g: G) -> u8 {
    match g {
        FG_F | FG_I | FG_A | FG_FI | FG_FFI | FG_A1 | FG_A2 => 1,
        FG_ONE | FG_TWO | FG_ONE_N | FG_TWO_N | FG_ONEONE | FG_TWO_B | FG_TWO_C => 2,
        FG_SLASH | FG_FRACTION => 3,
        _ => 0,
    }
}

/// the lookups of the class, by letter; the feature a lookup belongs to follows from the letter
fn frac_lookup(kind: char) -> (u32, Lookup) {
    let z: Fl = (0, 0);
    match kind {
        // ccmp: a -> a.base a.top (1 -> 2)
        'C' => (T_CCMP, lk(z, vec![Sub::Multiple { cov: vec![FG_A], seqs: vec![vec![FG_A1, FG_A2]] }])),
        // ccmp that also decomposes a digit: two -> two two.c (changes the length of a fraction as well)
        'D' => (T_CCMP, lk(z, vec![Sub::Multiple { cov: vec![FG_A, FG_TWO], seqs: vec![vec![FG_A1, FG_A2], vec![FG_TWO, FG_TWO_C]] }])),
        // liga: f f i -> f_f_i (3 -> 1), f i -> f_i (2 -> 1)
        'L' => (T_LIGA, lk(z, vec![lig(vec![FG_F], vec![vec![(FG_FFI, vec![FG_F, FG_I]), (FG_FI, vec![FG_I])]])])),
        // frac: digits and the slash change, so the output shows which glyphs the fraction lookups visited
        'S' => (T_FRAC, lk(z, vec![Sub::Single2 { cov: vec![FG_ONE, FG_TWO, FG_SLASH], subst: vec![FG_ONE_N, FG_TWO_N, FG_FRACTION] }])),
        // frac: one one -> one_one (the fraction shrinks)
        'G' => (T_FRAC, lk(z, vec![lig(vec![FG_ONE], vec![vec![(FG_ONEONE, vec![FG_ONE])]])])),
        // frac: two -> two two.b (the fraction grows)
        'M' => (T_FRAC, lk(z, vec![Sub::Multiple { cov: vec![FG_TWO], seqs: vec![vec![FG_TWO, FG_TWO_B]] }])),
        // numr: present in the font, never enabled by FeatureMask::FRAC
        'N' => (T_NUMR, lk(z, vec![Sub::Single2 { cov: vec![FG_ONE, FG_TWO], subst: vec![FG_TWO, FG_ONE] }])),
        _ => panic!("machinery: unknown frac lookup kind {:?}", kind),
    }
}

struct FracProg {
    name: String,
    gsub: Gsub,
    /// the whole-font seam is exercised in the quick tier too (thorough: every program)
    shape_quick: bool,
}

/// `order` = the LookupList, one letter per lookup; `shared_with_liga` lists the frac single substitution in 'liga' too;
/// `frac_in_langsys` = false keeps the 'frac' feature in the FeatureList but out of the language system
fn frac_prog(order: &str, script: u32, shared_with_liga: bool, frac_in_langsys: bool) -> FracProg {
    let mut lookups = Vec::new();
    let mut by_tag: BTreeMap<u32, Vec<u16>> = BTreeMap::new();
    for (i, kind) in order.chars().enumerate() {
        let (t, l) = frac_lookup(kind);
        lookups.push(l);
        by_tag.entry(t).or_default().push(i as u16);
        if shared_with_liga && kind == 'S' {
            by_tag.entry(T_LIGA).or_default().push(i as u16);
        }
    }
    // the FeatureList sorted by tag (BTreeMap order of the big-endian tag values)
    let features: Vec<Feature> = by_tag.into_iter().map(|(t, mut l)| { l.sort(); Feature { tag: t, lookups: l } }).collect();
    let langsys: Vec<u16> = (0..features.len() as u16).filter(|&i| frac_in_langsys || features[i as usize].tag != T_FRAC).collect();
    let mut name = format!("frac: lookups[{}] script={}", order, otmodel::tag_str(script));
    if shared_with_liga {
        name.push_str(" S-also-in-liga");
    }
    if !frac_in_langsys {
        name.push_str(" frac-not-in-langsys");
    }
    FracProg { name, gsub: Gsub { script, langsys, features, lookups, variations: None }, shape_quick: true }
}

/// thorough: every arrangement of {none, ccmp, liga, both (two orders), with / without a digit in ccmp} with the fraction
/// lookups {none, S, G S, M S} before, after, between the others, and around the others; quick: the orders without a
/// digit in ccmp except D L, the fraction lookups before or after the others
fn cat_frac(thorough: bool) -> Vec<FracProg> {
    let others: &[&str] = if thorough { &["", "C", "D", "L", "CL", "LC", "DL", "LD"] } else { &["", "C", "L", "CL", "DL"] };
    let fracs = ["", "S", "GS", "MS"];
    let mut orders: Vec<String> = Vec::new();
    for o in others {
        for f in fracs {
            if o.is_empty() && f.is_empty() {
                continue;
            }
            orders.push(format!("{}{}", f, o));
            if o.is_empty() || f.is_empty() {
                continue;
            }
            orders.push(format!("{}{}", o, f));
            if thorough && o.len() == 2 {
                orders.push(format!("{}{}{}", &o[..1], f, &o[1..]));
            }
            if thorough && f.len() == 2 {
                orders.push(format!("{}{}{}", &f[..1], o, &f[1..]));
            }
        }
    }
    let mut v: Vec<FracProg> = orders.iter().map(|o| frac_prog(o, T_DFLT, false, true)).collect();
    for p in v.iter_mut() {
        p.shape_quick = ["lookups[SCL]", "lookups[CLS]", "lookups[GSDL]", "lookups[DLMS]"].iter().any(|o| p.name.contains(o));
    }
    // the frac lookup is also a lookup of an ordinary feature: it then belongs to both lookup sets
    v.push(frac_prog("CLS", T_DFLT, true, true));
    v.push(frac_prog("SDL", T_DFLT, true, true));
    // 'numr' in the font: FeatureMask::FRAC stands for the tag 'frac' alone
    v.push(frac_prog("CLSN", T_DFLT, false, true));
    v.push(frac_prog("NSLC", T_DFLT, false, true));
    // 'frac' in the FeatureList but not in the language system: nothing of it may be applied
    v.push(frac_prog("CLS", T_DFLT, false, false));
    // a 'latn' script record instead of DFLT
    v.push(frac_prog("CLS", T_LATN, false, true));
    v.push(frac_prog("GSLD", T_LATN, false, true));
    v
}

/// machinery: no rule of the class can see across a cut. Substitutions keep the class of a glyph (letter / digit /
/// slash), ligatures combine glyphs of one class (letters or digits); a cut always separates a digit from a non-digit
/// (the digit runs of a fraction are maximal), so neither kind of ligature can have components on both sides.
fn frac_assert_local(p: &FracProg) {
    for l in &p.gsub.lookups {
        assert_eq!(l.flag, 0, "machinery: frac lookups carry no flags");
        for s in &l.subs {
            match s {
                Sub::Single2 { cov, subst } => {
                    assert!(cov.iter().zip(subst).all(|(a, b)| frac_glyph_class(*a) == frac_glyph_class(*b) && frac_glyph_class(*a) != 0), "machinery: {}", p.name)
                }
                Sub::Multiple { cov, seqs } => assert!(
                    cov.iter().zip(seqs).all(|(a, q)| !q.is_empty() && frac_glyph_class(*a) != 0 && q.iter().all(|b| frac_glyph_class(*b) == frac_glyph_class(*a))),
                    "machinery: {}",
                    p.name
                ),
                Sub::Ligature { cov, sets } => {
                    for (a, set) in cov.iter().zip(sets) {
                        let c = frac_glyph_class(*a);
                        assert!(c == 1 || c == 2, "machinery: {}", p.name);
                        assert!(set.iter().all(|(l, comps)| frac_glyph_class(*l) == c && comps.iter().all(|b| frac_glyph_class(*b) == c)), "machinery: {}", p.name);
                    }
                }
                _ => panic!("machinery: lookup type not admitted in the frac class: {}", p.name),
            }
        }
    }
}

/// Pieces of the text as [start, end, is a fraction): the first '/' of the remaining text with the maximal runs of
/// ASCII digits on both sides is a fraction when both runs are non-empty; the text before it is an ordinary piece and
/// the search goes on behind the fraction. When the first '/' is not part of a fraction the rest is one ordinary piece.
fn frac_segments(text: &[char]) -> Vec<(usize, usize, bool)> {
    let n = text.len();
    let mut out = Vec::new();
    let mut i = 0;
    while i < n {
        let slash = match (i..n).find(|&k| text[k] == '/') {
            Some(k) => k,
            None => {
                out.push((i, n, false));
                break;
            }
        };
        let mut s = slash;
        while s > i && text[s - 1].is_ascii_digit() {
            s -= 1;
        }
        let mut e = slash + 1;
        while e < n && text[e].is_ascii_digit() {
            e += 1;
        }
        if s < slash && slash + 1 < e {
            if s > i {
                out.push((i, s, false));
            }
            out.push((s, e, true));
            i = e;
        } else {
            out.push((i, n, false));
            break;
        }
    }
    out
}

#[derive(Clone, Copy, PartialEq, Eq, Debug)]
enum FracMode {
    /// Features::Mask(FeatureMask::default())
    Default,
    /// Features::Mask(FeatureMask::default() | FeatureMask::FRAC)
    DefaultFrac,
    /// Features::Mask(FeatureMask::FRAC)
    FracOnly,
}

impl FracMode {
    fn id(&self) -> &'static str {
        match self {
            FracMode::Default => "default",
            FracMode::DefaultFrac => "default|FRAC",
            FracMode::FracOnly => "FRAC",
        }
    }
    fn from_id(s: &str) -> Option<FracMode> {
        [FracMode::Default, FracMode::DefaultFrac, FracMode::FracOnly].into_iter().find(|m| m.id() == s)
    }
    fn mask(&self) -> FeatureMask {
        match self {
            FracMode::Default => FeatureMask::default(),
            FracMode::DefaultFrac => FeatureMask::default() | FeatureMask::FRAC,
            FracMode::FracOnly => FeatureMask::FRAC,
        }
    }
    fn frac(&self) -> bool {
        *self != FracMode::Default
    }
    /// the feature tags of the mask apart from 'frac'
    fn ordinary_tags(&self) -> &'static [u32] {
        match self {
            FracMode::FracOnly => &[],
            _ => &[T_CALT, T_CCMP, T_CLIG, T_LIGA, T_LOCL, T_RLIG],
        }
    }
}

struct FracRef {
    run: Vec<Gl>,
    fired: bool,
    fractions: usize,
    /// an ordinary piece in front of a fraction changed its length
    shifted: bool,
    /// a fraction changed its length and text follows
    resized: bool,
}

/// memo of the reference interpreter's results for the pieces of one program: (piece, fraction?, mask) -> (run with
/// piece-relative position ids, something fired). A pure function of its key; never iterated.
type FracMemo = std::collections::HashMap<(Vec<char>, bool, u8), (Vec<Gl>, bool)>;

/// the reference: every piece on its own through the reference interpreter, with 'frac' enabled inside fractions only
fn frac_reference(p: &FracProg, text: &[char], mode: FracMode, memo: &mut FracMemo) -> FracRef {
    let segs = if mode.frac() { frac_segments(text) } else { vec![(0, text.len(), false)] };
    let mut r = FracRef { run: Vec::new(), fired: false, fractions: 0, shifted: false, resized: false };
    for (k, &(s, e, is_fraction)) in segs.iter().enumerate() {
        let piece = || -> (Vec<Gl>, bool) {
            let mut feats: Vec<(u32, usize)> = mode.ordinary_tags().iter().map(|t| (*t, 0)).collect();
            if is_fraction {
                feats.push((T_FRAC, 0));
            }
            let input: Vec<Gl> = (s..e).map(|i| Gl::input(frac_gid(text[i]), (i - s) as u32)).collect();
            let res = apply_gsub(&p.gsub, &Gdef::default(), T_LATN, &feats, None, &input, Variant::default(), 0);
            let fired = res.touched & T_FIRED != 0;
            (res.run, fired)
        };
        // whole texts do not repeat: only the pieces of the FRAC masks are worth remembering
        let computed;
        let (run, fired): (&Vec<Gl>, bool) = if mode.frac() {
            let e = memo.entry((text[s..e].to_vec(), is_fraction, mode as u8)).or_insert_with(piece);
            (&e.0, e.1)
        } else {
            computed = piece();
            (&computed.0, computed.1)
        };
        r.fired |= fired;
        if is_fraction {
            r.fractions += 1;
            r.resized |= run.len() != e - s && e < text.len();
        } else {
            r.shifted |= run.len() != e - s && k + 1 < segs.len();
        }
        r.run.extend(run.iter().map(|g| Gl { chars: g.chars.iter().map(|id| id + s as u32).collect(), ..g.clone() }));
    }
    r
}

/// the reference run with the characters of the text in place of position ids
fn frac_translate(run: &[Gl], text: &[char]) -> Vec<Gl> {
    run.iter().map(|g| Gl { chars: g.chars.iter().map(|id| text[*id as usize] as u32).collect(), comp: None, ..g.clone() }).collect()
}

fn frac_run_json(r: &[Gl]) -> J {
    J::Array(
        r.iter()
            .map(|g| {
                let mut s = frac_glyph_name(g.gid);
                s.push('<');
                s.push_str(&g.chars.iter().map(|c| char::from_u32(*c).map(|c| c.to_string()).unwrap_or_else(|| format!("U+{:04X}", c))).collect::<String>());
                s.push('>');
                if g.lig {
                    s.push_str(" LIGATURE");
                }
                if g.dup {
                    s.push_str(" MULTI_SUBST_DUP");
                }
                json!(s)
            })
            .collect(),
    )
}

struct FracLoaded {
    gsub_bytes: Vec<u8>,
    cache: LayoutCache<GSUB>,
}

fn frac_load(p: &FracProg, acc: &mut Acc) -> Option<FracLoaded> {
    let gsub_bytes = p.gsub.encode(&Enc::default());
    let parsed = guard(|| ReadScope::new(&gsub_bytes).read::<LayoutTable<GSUB>>().map(new_layout_cache).map_err(|e| format!("GSUB: {:?}", e)));
    match parsed {
        Err(pi) => {
            acc.report(&panic_key(&pi), || json!({"program": p.name, "GSUB": hex(&gsub_bytes), "panic": pi.msg, "at": pi.loc(), "seam": "table parsing"}));
            None
        }
        Ok(Err(e)) => {
            acc.report("C04:mismatch:valid-table-rejected", || json!({"program": p.name, "GSUB": hex(&gsub_bytes), "error": e}));
            None
        }
        Ok(Ok(cache)) => Some(FracLoaded { gsub_bytes, cache }),
    }
}

fn frac_real_apply(ld: &FracLoaded, mode: FracMode, text: &[char]) -> Observed {
    let r = guard(|| {
        let mut glyphs: Vec<RawGlyph<()>> = text.iter().map(|&c| raw_glyph(frac_gid(c), c)).collect();
        let res = gsub::apply(0, &ld.cache, None, T_LATN, None, &Features::Mask(mode.mask()), None, FRAC_NGLYPHS, &mut glyphs);
        (res.err().map(|e| format!("{:?}", e)), glyphs)
    });
    match r {
        Err(pi) => Observed::Panic(pi),
        Ok((err, glyphs)) => Observed::Done { err, run: observe(&glyphs) },
    }
}

fn frac_real_shape(font: &mut FontT<'_>, mode: FracMode, text: &[char]) -> Observed {
    let text: String = text.iter().collect();
    let features = Features::Mask(mode.mask());
    let r = guard(|| {
        let glyphs = font.map_glyphs(&text, T_LATN, MatchingPresentation::NotRequired);
        font.shape(glyphs, T_LATN, None, &features, None, false)
    });
    match r {
        Err(pi) => Observed::Panic(pi),
        Ok(Ok(infos)) => Observed::Done { err: None, run: observe(&infos.iter().map(|i| i.glyph.clone()).collect::<Vec<_>>()) },
        Ok(Err((e, infos))) => Observed::Done { err: Some(format!("{:?}", e)), run: observe(&infos.iter().map(|i| i.glyph.clone()).collect::<Vec<_>>()) },
    }
}

fn frac_witness(p: &FracProg, ld: &FracLoaded, text: &[char], mode: FracMode, seam: Seam, thorough: bool, expected: &[Gl]) -> J {
    let s: String = text.iter().collect();
    json!({
        "program": p.name, "class": "frac",
        "seam": match seam { Seam::Shape => "Font::map_glyphs + Font::shape(Features::Mask) on a wrapped sfnt", _ => "gsub::apply(Features::Mask) on new_layout_cache(LayoutTable<GSUB>), glyph_origin = Char(c)" },
        "feature_mask": mode.id(), "script_requested": "latn",
        "lookups": p.gsub.lookups.iter().map(|l| format!("{:?}", l)).collect::<Vec<_>>(),
        "glyph_names": (0..FRAC_NGLYPHS).map(frac_glyph_name).collect::<Vec<_>>(),
        "features": p.gsub.features.iter().map(|f| format!("{}{:?}", otmodel::tag_str(f.tag), f.lookups)).collect::<Vec<_>>(),
        "langsys_feature_indices": p.gsub.langsys, "script": otmodel::tag_str(p.gsub.script),
        "GSUB": hex(&ld.gsub_bytes), "cmap": FRAC_CMAP.iter().map(|e| format!("{:?}>{}", char::from_u32(e.0).unwrap(), e.1)).collect::<Vec<_>>(),
        "text": s,
        "pieces": (if mode.frac() { frac_segments(text) } else { vec![(0, text.len(), false)] }).iter()
            .map(|&(a, b, f)| format!("{:?} {}", text[a..b].iter().collect::<String>(), if f { "fraction: lookups of the mask" } else { "lookups of the mask without frac" })).collect::<Vec<_>>(),
        "expected": frac_run_json(&frac_translate(expected, text)),
        "replay": {"class": "frac", "program": p.name, "text": s, "mask": mode.id(), "seam": seam.id(), "thorough": thorough},
    })
}

/// decide one observation of the frac class
fn frac_judge(acc: &mut Acc, p: &FracProg, ld: &FracLoaded, text: &[char], mode: FracMode, seam: Seam, thorough: bool, reference: &FracRef, obs: Observed) -> Option<Vec<Gl>> {
    acc.evals += 1;
    let wit = || frac_witness(p, ld, text, mode, seam, thorough, &reference.run);
    let (err, run) = match obs {
        Observed::Panic(pi) => {
            acc.report(&panic_key(&pi), || {
                let mut w = wit();
                w["panic"] = json!(pi.msg);
                w["at"] = json!(pi.loc());
                w
            });
            return None;
        }
        Observed::Done { err, run } => (err, run),
    };
    let part = if mode.frac() { "frac" } else { "frac:mask-without-FRAC" };
    if let Some(e) = err {
        acc.report(&format!("C04:mismatch:{}:error-returned", part), || {
            let mut w = wit();
            w["error"] = json!(e);
            w["observed"] = frac_run_json(&run);
            w
        });
        return Some(run);
    }
    let exp = &reference.run;
    let kind = if exp.len() != run.len() || exp.iter().zip(&run).any(|(e, o)| e.gid != o.gid) {
        Some("glyphs")
    } else if exp.iter().zip(&run).any(|(e, o)| e.chars.len() != o.chars.len() || e.chars.iter().zip(&o.chars).any(|(id, c)| text[*id as usize] as u32 != *c)) {
        Some("unicodes")
    } else if exp.iter().zip(&run).any(|(e, o)| e.lig != o.lig || e.dup != o.dup) {
        Some("ligature-or-duplicate-flag")
    } else {
        None
    };
    if let Some(kind) = kind {
        acc.report(&format!("C04:mismatch:{}:{}", part, kind), || {
            let mut w = wit();
            w["observed"] = frac_run_json(&run);
            w
        });
    }
    Some(run)
}

const FRAC_MODES: [FracMode; 3] = [FracMode::Default, FracMode::DefaultFrac, FracMode::FracOnly];

fn frac_cases(ctx: Option<&Ctx>, acc: &mut Acc, p: &FracProg, thorough: bool, ld: &FracLoaded, mut font: Option<&mut FontT<'_>>, texts: &[Vec<char>], only: Option<(FracMode, Seam)>, tallies: &mut [u64; 3]) {
    let pid = H::new().str(&p.name).get();
    let mut memo = FracMemo::new();
    for text in texts {
        for mode in FRAC_MODES {
            let want = |seam: Seam| only.map_or(true, |o| o == (mode, seam));
            let reference = frac_reference(p, text, mode, &mut memo);
            if reference.fired {
                acc.nontrivial += 1;
            }
            if mode.frac() {
                tallies[0] += (reference.fractions > 0) as u64;
                tallies[1] += reference.shifted as u64;
                tallies[2] += reference.resized as u64;
            }
            let ch = H::new().u64(pid).str(&text.iter().collect::<String>()).str(mode.id());
            if want(Seam::Mask) {
                let obs = frac_real_apply(ld, mode, text);
                let run = frac_judge(acc, p, ld, text, mode, Seam::Mask, thorough, &reference, obs);
                if let (Some(ctx), Some(run)) = (ctx, run) {
                    ctx.mark_outcome(H::new().u64(hash_run(&run)).str("frac").get());
                    if reference.fired {
                        ctx.mark_nontrivial(ch.get());
                        if acc.sample.is_none() && reference.shifted && reference.resized && reference.fractions > 1 {
                            let mut w = frac_witness(p, ld, text, mode, Seam::Mask, thorough, &reference.run);
                            let o = w.as_object_mut().unwrap();
                            o.remove("replay");
                            o.remove("glyph_names");
                            w["observed"] = frac_run_json(&run);
                            acc.sample = Some((ch.get(), w));
                        }
                    }
                }
            }
            // the whole-font seam for the mask under test
            if mode == FracMode::DefaultFrac && want(Seam::Shape) && (thorough || p.shape_quick || only.is_some()) {
                if let Some(f) = font.as_deref_mut() {
                    let obs = frac_real_shape(f, mode, text);
                    frac_judge(acc, p, ld, text, mode, Seam::Shape, thorough, &reference, obs);
                }
            }
        }
    }
}

fn frac_font_bytes(ld: &FracLoaded) -> Vec<u8> {
    otmodel::tables::minimal_font(FRAC_NGLYPHS, &FRAC_CMAP, &[(tag(b"GSUB"), ld.gsub_bytes.clone())])
}

fn run_frac_prog(ctx: Option<&Ctx>, p: &FracProg, thorough: bool, texts: &[Vec<char>], only: Option<(FracMode, Seam)>) -> (Acc, [u64; 3]) {
    let mut acc = Acc { class: "frac", ..Default::default() };
    let mut tallies = [0u64; 3];
    frac_assert_local(p);
    let ld = match frac_load(p, &mut acc) {
        Some(ld) => ld,
        None => return (acc, tallies),
    };
    let fb = frac_font_bytes(&ld);
    let r = with_font(&fb, |f| frac_cases(ctx, &mut acc, p, thorough, &ld, Some(f), texts, only, &mut tallies));
    if let Err(e) = r {
        acc.report("C04:mismatch:wrapped-font-rejected", || json!({"program": p.name, "error": e, "GSUB": hex(&ld.gsub_bytes)}));
    }
    acc.states = acc.evals + 2;
    (acc, tallies)
}

struct FracBounds {
    prefix_alphabet: &'static [char],
    prefix_max: usize,
    fractions: &'static [&'static str],
    between_alphabet: &'static [char],
    between_max: usize,
    second_fractions: &'static [&'static str],
    tails: &'static [&'static str],
}

fn frac_bounds(thorough: bool) -> FracBounds {
    FracBounds {
        prefix_alphabet: &['f', 'i', 'a', ' ', '1'],
        prefix_max: if thorough { 4 } else { 3 },
        fractions: &["", "1/2", "11/2", "1/21", "1/", "/1", "1/2/1"],
        between_alphabet: &['f', 'i', ' '],
        between_max: 1,
        second_fractions: if thorough { &["", "1/2", "21/11"] } else { &["", "1/2", "1/2fi"] },
        tails: if thorough { &["", "fi"] } else { &[""] },
    }
}

fn chars_over(alphabet: &[char], maxlen: usize) -> Vec<String> {
    let mut out = vec![String::new()];
    let mut level = vec![String::new()];
    for _ in 0..maxlen {
        let mut next = Vec::new();
        for s in &level {
            for &c in alphabet {
                let mut t = s.clone();
                t.push(c);
                next.push(t);
            }
        }
        out.extend(next.iter().cloned());
        level = next;
    }
    out
}

/// every text prefix + fraction + between + second fraction + tail of the bounds (distinct texts, sorted); also the size of the product
fn frac_texts(b: &FracBounds) -> (Vec<Vec<char>>, usize) {
    let prefixes = chars_over(b.prefix_alphabet, b.prefix_max);
    let betweens = chars_over(b.between_alphabet, b.between_max);
    let mut set: std::collections::BTreeSet<String> = std::collections::BTreeSet::new();
    let mut product = 0usize;
    for p in &prefixes {
        for f in b.fractions {
            for m in &betweens {
                for g in b.second_fractions {
                    for t in b.tails {
                        product += 1;
                        set.insert(format!("{}{}{}{}{}", p, f, m, g, t));
                    }
                }
            }
        }
    }
    (set.into_iter().map(|s| s.chars().collect()).collect(), product)
}

/// the class "frac"; returns its entry for the bounds record
fn run_frac(ctx: &Ctx, thorough: bool) -> (usize, J) {
    let progs = cat_frac(thorough);
    {
        let mut names: Vec<&str> = progs.iter().map(|p| p.name.as_str()).collect();
        names.sort();
        let n = names.len();
        names.dedup();
        assert_eq!(n, names.len(), "machinery: frac program names are not unique");
    }
    let b = frac_bounds(thorough);
    let (texts, product) = frac_texts(&b);
    let results: Vec<(Acc, [u64; 3])> = progs.par_iter().map(|p| run_frac_prog(Some(ctx), p, thorough, &texts, None)).collect();
    let mut tallies = [0u64; 3];
    for (a, t) in results {
        a.merge_into(ctx);
        for k in 0..3 {
            tallies[k] += t[k];
        }
    }
    ctx.bump("frac_cases_with_a_fraction", tallies[0]);
    ctx.bump("frac_cases_where_text_before_a_fraction_changed_length", tallies[1]);
    ctx.bump("frac_cases_where_a_fraction_changed_length_before_more_text", tallies[2]);
    let fractions_in_texts = texts.iter().filter(|t| frac_segments(t).iter().any(|s| s.2)).count();
    // texts in which digits '/' digits occurs behind a '/' that is not part of a fraction: by the rule taken as given
    // that later fraction is ordinary text
    let masked_fractions = texts
        .iter()
        .filter(|t| {
            let segs = frac_segments(t);
            let last = segs.last().map_or(0, |s| if s.2 { t.len() } else { s.0 });
            (last..t.len()).any(|k| t[k] == '/' && k > last && t[k - 1].is_ascii_digit() && k + 1 < t.len() && t[k + 1].is_ascii_digit())
        })
        .count();
    let s = |v: &[char]| v.iter().map(|c| c.to_string()).collect::<Vec<_>>();
    (
        progs.len(),
        json!({
            "programs": progs.len(),
            "lookup_lists": progs.iter().map(|p| p.name.clone()).collect::<Vec<_>>(),
            "lookup_letters": {"C": "ccmp multiple a>a.base a.top", "D": "ccmp multiple a>a.base a.top, two>two two.c", "L": "liga ligature f f i>f_f_i, f i>f_i",
                "S": "frac single one>one.numr two>two.numr slash>fraction", "G": "frac ligature one one>one_one", "M": "frac multiple two>two two.b", "N": "numr single one<>two"},
            "text": "prefix + fraction + between + second fraction + tail",
            "prefix": {"alphabet": s(b.prefix_alphabet), "max_length": b.prefix_max}, "fraction": b.fractions,
            "between": {"alphabet": s(b.between_alphabet), "max_length": b.between_max}, "second_fraction": b.second_fractions, "tail": b.tails,
            "texts_in_product": product, "distinct_texts": texts.len(), "distinct_texts_with_a_fraction": fractions_in_texts,
            "distinct_texts_with_digits_slash_digits_behind_a_slash_that_is_not_in_a_fraction": masked_fractions,
            "feature_masks": FRAC_MODES.iter().map(|m| m.id()).collect::<Vec<_>>(),
            "seams": ["gsub::apply Mask (all three masks)", "Font::map_glyphs + Font::shape Mask (default|FRAC)"],
            "programs_at_the_font_seam": progs.iter().filter(|p| thorough || p.shape_quick).count(),
        }),
    )
}

fn replay_frac(r: &J) -> Result<(), String> {
    let name = r["program"].as_str().ok_or("no program")?;
    let text: Vec<char> = r["text"].as_str().ok_or("no text")?.chars().collect();
    let mode = r["mask"].as_str().and_then(FracMode::from_id).ok_or("unknown mask")?;
    let seam = match r["seam"].as_str() {
        Some("mask") => Seam::Mask,
        Some("shape") => Seam::Shape,
        _ => return Err("unknown seam".into()),
    };
    let thorough = r["thorough"].as_bool().unwrap_or(false);
    let p = cat_frac(thorough).into_iter().find(|p| p.name == name).ok_or_else(|| format!("program {:?} is not in the frac catalogue", name))?;
    let (acc, _) = run_frac_prog(None, &p, thorough, &[text], Some((mode, seam)));
    if acc.viol.is_empty() {
        Ok(())
    } else {
        Err(acc.viol.iter().map(|(k, (n, _))| format!("{} (x{})", k, n)).collect::<Vec<_>>().join(", "))
    }
}

// ---------------------------------------------------------------------------------------------------
// entry points
// ---------------------------------------------------------------------------------------------------

pub fn run(ctx: &Ctx) {
    let thorough = ctx.tier.thorough();
    ctx.set_rule(
        "leaf = (GSUB program of the catalogue, encoding with <= 2 non-default choices among Coverage 1/2, ClassDef 1/2, Extension, \
         seam, variation tuple, glyph string over {a,b,L,m1,m2} up to the length bound); every leaf runs the real allsorts code and is \
         compared with the reference interpreter on glyph ids, unicodes, LIGATURE / MULTI_SUBST_DUP flags and liga_component_pos of marks. \
         A (program, tuple, string) is non-trivial when the reference interpreter changed the run or a ligature / context match spanned a \
         skipped glyph; outcomes are distinct observed output runs. Class \"frac\": leaf = (lookup list over ccmp / liga / frac / numr lookups, \
         feature mask default / default|FRAC / FRAC, seam, text = prefix + fraction + between + second fraction + tail over {f,i,a,space,1,2,/}); the reference \
         cuts the text at ASCII fractions and interprets every piece on its own; non-trivial when the reference changed the run.",
    );
    ctx.assume("requiredFeatureIndex = 0xFFFF in all generated LangSys tables; one script record (DFLT unless stated); feature tags calt, liga, rvrn, and ccmp / frac / numr in the class \"frac\" ('fina', 'vert', 'vrt2', which gsub_apply_custom / the Mask path treat specially, are excluded; 'frac' is excluded from Features::Custom only, where allsorts gives it no special treatment)");
    ctx.assume("class \"frac\": with FeatureMask::FRAC in a Features::Mask the default shaper deliberately restricts the lookups of 'frac' to ASCII fractions; that segmentation rule is taken as given (scanning the characters the glyphs came from: the first '/' of the remaining text with the maximal ASCII digit runs on both sides, both non-empty, is a fraction, the search continues behind it; when the first '/' is not inside a fraction the rest of the run holds no fraction). Demanded: every piece gets exactly what the specification prescribes for its feature set (fraction: all features of the mask the language system lists, FRAC standing for the tag 'frac' alone; other text: the same without 'frac'), whatever the substitutions did to the length of the pieces before it; without FRAC in the mask, or without 'frac' in the language system, the whole run gets the plain semantics. The lookups of the class are single / multiple / ligature substitutions that cannot see across a cut, so the piece-wise reference is exact");
    ctx.assume("'rvrn' lookups are applied before the lookups of all other features (feature registry: 'should be processed early'; HarfBuzz applies it as a separate first stage), otherwise enabled lookups run in LookupList order whatever the order of features in the FeatureList, the LangSys or the caller's list and whatever the order of indices in a feature table");
    ctx.assume("backtrack sequences / coverages are stored closest glyph first (all implementations); a nested lookup is applied once at its sequence position without testing that glyph against the nested lookup's flags (HarfBuzz), its flags govern the following glyphs; ReverseChainSingleSubst and alternates other than the first are not nested");
    ctx.assume("after a nested lookup changed the length of the run (or turned a matched glyph into one the parent lookup skips) both the literal reading (sequenceIndex counts the non-skipped glyphs of the current matched input) and HarfBuzz's match-position bookkeeping are accepted; the walk resumes after the matched input corrected by the net length change; when a nested lookup consumed glyphs beyond the matched input both resuming at the glyph it was applied to (HarfBuzz) and after that glyph (literal: it belongs to the matched input) are accepted");
    ctx.assume("an empty Sequence table (forbidden by the specification) may delete the glyph (HarfBuzz, allsorts) or leave it unchanged");
    ctx.assume("FeatureInfo.alternate = Some(k) selects alternate k (0-based), None the first; an index beyond the set leaves the glyph unchanged");
    ctx.assume("no variation tuple: FeatureVariations are either not evaluated or evaluated at the default instance (all coordinates 0); Features::Mask with 'rvrn' and no tuple is not enumerated (allsorts applies 'rvrn' there only when a tuple is supplied); condition axis indices stay within the supplied tuple");
    ctx.assume("an implementation limit on recursion is legitimate: Err(LimitExceeded) is accepted exactly when the reference interpreter itself enters a contextual lookup nested three levels below a top-level contextual lookup; otherwise the full result is demanded");
    ctx.assume("liga_component_pos is compared for GDEF marks only: a glyph skipped between ligature components belongs to the component it follows (0-based), marks directly after the ligature to its last component; marks created by a multiple substitution are not compared; a one-component ligature does not set LIGATURE (HarfBuzz treats it as a single substitution)");
    ctx.assume("ligature matching is the literal one (HarfBuzz's extra rule that refuses to ligate marks belonging to different ligature components is not demanded)");

    let all_strings = strings(if thorough { 6 } else { 5 });
    let progs = catalogue(thorough);
    {
        let mut names: Vec<&str> = progs.iter().map(|p| p.name.as_str()).collect();
        names.sort();
        let n = names.len();
        names.dedup();
        assert_eq!(n, names.len(), "machinery: program names are not unique");
    }
    let reach_strings = strings_over(&REACH_ALPHABET, if thorough { 8 } else { 7 });
    let accs: Vec<Acc> = progs.par_iter().map(|p| run_prog(ctx, p, thorough, &all_strings, &reach_strings)).collect();
    let mut by_class: BTreeMap<&'static str, u64> = BTreeMap::new();
    for p in &progs {
        *by_class.entry(p.class).or_insert(0) += 1;
    }
    for a in accs {
        a.merge_into(ctx);
    }
    let (frac_programs, frac_bounds) = run_frac(ctx, thorough);
    by_class.insert("frac", frac_programs as u64);
    ctx.set(
        "bounds",
        json!({
            "programs": progs.len() + frac_programs, "programs_by_class": by_class, "frac": frac_bounds, "alphabet": ["a", "b", "L", "m1", "m2"],
            "lookup_flag_settings": flags27().iter().map(|f| f.0.clone()).collect::<Vec<_>>(),
            "max_string_length": {"single": if thorough { 5 } else { 4 }, "ctxflags": if thorough { 5 } else { 4 },
                "nest (one nested lookup / depth)": if thorough { 5 } else { 4 }, "nest (two records)": if thorough { 4 } else { 3 },
                "pair": if thorough { 4 } else { 3 }, "reach (alphabet a,b,m1)": if thorough { 8 } else { 7 }, "shared (one lookup)": if thorough { 5 } else { 4 }, "shared (two / three lookups)": if thorough { 4 } else { 3 }, "variations": if thorough { 3 } else { 2 }, "misc": if thorough { 4 } else { 3 }},
            "encodings": if thorough { "single/ctxflags(all indices)/misc(wrap): 7 (<= 2 non-default of Coverage 2, ClassDef 1, Extension); nest(one record)/variations: default + Extension; others: default" } else { "single/ctxflags(all indices) with one of the 8 single flag settings, misc(wrap): 7 (<= 2 non-default of Coverage 2, ClassDef 1, Extension); nest(one record, flag 0)/variations: default + Extension; others: default" },
            "nesting_depth": 5, "pair_bundles": pair_bundles(thorough).len(), "pair_configurations": pair_configs().len(),
            "seams": ["gsub::apply Custom", "gsub::apply Mask", "Font::shape"], "classes": ["single", "ctxflags", "nest", "pair", "shared", "reach", "variations", "misc", "frac"],
        }),
    );
}

pub fn replay(w: &J) -> Result<(), String> {
    let r = &w["replay"];
    if r["class"].as_str() == Some("frac") {
        return replay_frac(r);
    }
    let name = r["program"].as_str().ok_or("witness carries no replay record")?;
    let thorough = r["thorough"].as_bool().unwrap_or(false);
    let glyphs: Vec<G> = r["glyphs"].as_array().ok_or("no glyphs")?.iter().map(|v| v.as_u64().unwrap_or(0) as G).collect();
    let tuple: Option<Vec<i16>> = r["tuple"].as_array().map(|a| a.iter().map(|v| v.as_i64().unwrap_or(0) as i16).collect());
    let e = r["enc"].as_array().ok_or("no enc")?;
    let enc = Enc { cov_fmt: e[0].as_u64().unwrap_or(1) as u8, class_fmt: e[1].as_u64().unwrap_or(2) as u8, ext: e[2].as_u64().unwrap_or(0) == 1 };
    let seam = match r["seam"].as_str() {
        Some("custom") => Seam::Custom,
        Some("mask") => Seam::Mask,
        Some("shape") => Seam::Shape,
        _ => return Err("unknown seam".into()),
    };
    let progs = catalogue(thorough);
    let mut p = progs.into_iter().find(|p| p.name == name).ok_or_else(|| format!("program {:?} is not in the catalogue", name))?;
    p.tuples = vec![tuple];
    let mut acc = Acc::default();
    // loaded[0] is the table every seam of the case uses
    let ld = load(&p, enc, &mut acc).ok_or_else(|| format!("{:?}", acc.viol.keys().collect::<Vec<_>>()))?;
    if let Some(h) = w["GSUB"].as_str() {
        if h != hex(&ld.gsub_bytes) {
            return Err("machinery: the catalogue program no longer encodes to the recorded GSUB bytes".into());
        }
    }
    let loaded = vec![ld];
    let strings: Vec<&[G]> = vec![&glyphs[..]];
    if seam == Seam::Shape {
        let fb = font_bytes(&loaded[0]);
        with_font(&fb, |f| run_cases(None, &mut acc, &p, thorough, &loaded, Some(f), &strings, Some(seam)))?;
    } else {
        run_cases(None, &mut acc, &p, thorough, &loaded, None, &strings, Some(seam));
    }
    if acc.viol.is_empty() {
        Ok(())
    } else {
        Err(acc.viol.iter().map(|(k, (n, _))| format!("{} (x{})", k, n)).collect::<Vec<_>>().join(", "))
    }
}
