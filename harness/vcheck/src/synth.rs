//! Synthetic seed fonts for the fault sweeps: table kinds that no small fixture contains.

use otmodel::be::W;
use otmodel::cmapenc::{self, Seg4, Sub2, Term4};
use otmodel::tables::{self, cmap_table, minimal_font};
use otmodel::tag;

fn fvar(axes: &[(i32, i32, i32)]) -> Vec<u8> {
    let mut w = W::new();
    let n = axes.len() as u16;
    w.u16(1).u16(0).u16(16).u16(2).u16(n).u16(20).u16(0).u16(4 * n + 4);
    for (i, (min, def, max)) in axes.iter().enumerate() {
        w.u32(tag(b"wght") + i as u32).i32(*min << 16).i32(*def << 16).i32(*max << 16).u16(0).u16(256 + i as u16);
    }
    w.done()
}

fn avar(knots: &[(i16, i16)]) -> Vec<u8> {
    let mut w = W::new();
    w.u16(1).u16(0).u16(0).u16(1).u16(knots.len() as u16);
    for (f, t) in knots {
        w.i16(*f).i16(*t);
    }
    w.done()
}

fn kern0(pairs: &[(u16, u16, i16)], coverage: u16) -> Vec<u8> {
    let mut w = W::new();
    w.u16(0).u16(1); // version 0, 1 subtable
    let n = pairs.len() as u16;
    let (sr, es, rs) = otmodel::sfnt::search_fields(n, 6);
    w.u16(0).u16(14 + 6 * n).u16(coverage); // subtable version, length, coverage (format in high byte)
    w.u16(n).u16(sr).u16(es).u16(rs);
    for (l, r, v) in pairs {
        w.u16(*l).u16(*r).i16(*v);
    }
    w.done()
}

fn kern2() -> Vec<u8> {
    // one format 2 subtable: 2 left classes x 2 right classes over glyphs 1..=2
    let mut w = W::new();
    w.u16(0).u16(1);
    let start = w.len();
    w.u16(0).u16(0).u16(0x0201); // version, length (patched), coverage: horizontal, format 2
    let sub = w.len();
    w.u16(4).u16(0).u16(0).u16(0); // rowWidth, leftClassTable, rightClassTable, array offsets (patched)
    let left = w.len() - sub + 6; // offsets are from the start of the subtable (incl. 6-byte header)
    let array_off = 8 + 6 + 2 * (4 + 4); // header(6)+4 u16 + two class tables of 8 bytes each
    w.u16(1).u16(2).u16(array_off as u16).u16(array_off as u16 + 4); // firstGlyph 1, nGlyphs 2, class values = row offsets
    let right = w.len() - sub + 6;
    w.u16(1).u16(2).u16(0).u16(2); // right class values = column byte offsets
    w.i16(-10).i16(20).i16(30).i16(-40);
    let len = w.len() - start;
    w.set_u16(start + 2, len as u16);
    w.set_u16(sub + 2, left as u16);
    w.set_u16(sub + 4, right as u16);
    w.set_u16(sub + 6, array_off as u16);
    w.done()
}

fn vhea_vmtx(n: u16) -> (Vec<u8>, Vec<u8>) {
    let mut vhea = tables::hhea(n);
    vhea[0] = 0;
    vhea[1] = 1;
    vhea[2] = 0x10;
    vhea[3] = 0;
    let m: Vec<(u16, i16)> = (0..n).map(|g| (1000 + g, 10)).collect();
    (vhea, tables::hmtx(&m, &[]))
}

fn post2(names: &[&str]) -> Vec<u8> {
    let mut w = W::new();
    w.u32(0x0002_0000).u32(0).i16(-100).i16(50).u32(0).u32(0).u32(0).u32(0).u32(0);
    w.u16(names.len() as u16);
    for i in 0..names.len() {
        w.u16(258 + i as u16);
    }
    for n in names {
        w.u8(n.len() as u8).bytes(n.as_bytes());
    }
    w.done()
}

pub fn seeds() -> Vec<(String, Vec<u8>)> {
    let mut v: Vec<(String, Vec<u8>)> = Vec::new();
    let cm = [(0x41u32, 1u16), (0x42, 2), (0x1F600, 3), (0x25CC, 2)];
    v.push(("minimal-cmap4+12".into(), minimal_font(4, &cm, &[])));
    // symbol font whose usFirstCharIndex is 0 (legacy_symbol_char_code subtracts 0x20)
    let (s4, _) = cmapenc::fmt4(&[Seg4::Delta { start: 0xF020, end: 0xF07F, delta: (1i32 - 0xF020) as i16 }], Term4::Standard);
    v.push(("symbol-firstchar0".into(), minimal_font(100, &[], &[(tag(b"cmap"), cmap_table(&[(3, 0, s4.clone())])), (tag(b"OS/2"), tables::os2_v4(0, 0xFF))])));
    v.push(("symbol-firstcharF020".into(), minimal_font(100, &[], &[(tag(b"cmap"), cmap_table(&[(3, 0, s4)])), (tag(b"OS/2"), tables::os2_v4(0xF020, 0xF0FF))])));
    // legacy cmap formats as the selected subtable
    let mut a0 = [0u8; 256];
    a0[0x41] = 1;
    a0[0xD0] = 2;
    v.push(("cmap0-macroman".into(), minimal_font(4, &[], &[(tag(b"cmap"), cmap_table(&[(1, 0, cmapenc::fmt0(&a0).0)]))])));
    v.push(("cmap6-unicode".into(), minimal_font(4, &[], &[(tag(b"cmap"), cmap_table(&[(3, 1, cmapenc::fmt6(0x41, &[1, 2, 3]).0)]))])));
    v.push(("cmap10-unicode".into(), minimal_font(4, &[], &[(tag(b"cmap"), cmap_table(&[(3, 10, cmapenc::fmt10(0x1F600, &[1, 2, 3]).0)]))])));
    let single = Sub2 { first: 0x20, delta: 0, entries: vec![1, 2, 3] };
    let leads = vec![(0xA1u8, Sub2 { first: 0x40, delta: 1, entries: vec![1, 0, 2] })];
    v.push(("cmap2-big5".into(), minimal_font(4, &[], &[(tag(b"cmap"), cmap_table(&[(3, 4, cmapenc::fmt2(&single, &leads).0)]))])));
    // variable-font tables
    v.push(("fvar-avar".into(), minimal_font(4, &cm, &[(tag(b"fvar"), fvar(&[(100, 400, 900)])), (tag(b"avar"), avar(&[(-16384, -16384), (0, 0), (8192, 4096), (16384, 16384)]))])));
    v.push(("fvar-min-gt-max".into(), minimal_font(4, &cm, &[(tag(b"fvar"), fvar(&[(900, 400, 100)]))])));
    // kern, vertical metrics, post 2
    v.push(("kern0".into(), minimal_font(4, &cm, &[(tag(b"kern"), kern0(&[(1, 2, -50), (2, 1, 30)], 0x0001))])));
    v.push(("kern0-minimum-crossstream".into(), minimal_font(4, &cm, &[(tag(b"kern"), kern0(&[(1, 2, -50)], 0x0007))])));
    v.push(("kern2".into(), minimal_font(4, &cm, &[(tag(b"kern"), kern2())])));
    let (vhea, vmtx) = vhea_vmtx(4);
    v.push(("vhea-vmtx".into(), minimal_font(4, &cm, &[(tag(b"vhea"), vhea), (tag(b"vmtx"), vmtx)])));
    v.push(("post2".into(), minimal_font(4, &cm, &[(tag(b"post"), post2(&[".notdef", "A", "B", "smile"]))])));
    // sbix strikes whose 'dupe' records form a chain or a cycle (the fixture has glyph 2 -> 1 and glyph 3 -> itself):
    // reference graphs that no single fault from the value menus produces
    if let Ok(base) = std::fs::read("/repo/tests/fonts/sbix/sbix-dupe.ttf") {
        let dupes: Vec<usize> = base.windows(4).enumerate().filter(|(_, w)| *w == b"dupe").map(|(i, _)| i + 4).collect();
        if dupes.len() == 2 && dupes[1] + 2 <= base.len() {
            let patch = |a: u16, b: u16| {
                let mut d = base.clone();
                d[dupes[0]..dupes[0] + 2].copy_from_slice(&a.to_be_bytes());
                d[dupes[1]..dupes[1] + 2].copy_from_slice(&b.to_be_bytes());
                d
            };
            v.push(("sbix-dupe-cycle-2-3".into(), patch(3, 2)));
            v.push(("sbix-dupe-chain-3-2-1".into(), patch(1, 2)));
            v.push(("sbix-dupe-both-self".into(), patch(2, 3)));
            v.push(("sbix-dupe-out-of-range".into(), patch(4, 0xFFFF)));
        }
    }
    // synthetic variable fonts from the C12 generator (HVAR/MVAR kinds incl. LONG_WORDS delta sets, DeltaSetIndexMap,
    // intermediate regions, shared point numbers, a composite glyph with varying offsets)
    v.extend(crate::c12::seeds_for_c01());
    // CFF / CFF2 fonts from the C18 generator: seac composites (well-formed, self-referencing, cyclic, chained), recursive
    // and deeply nested subroutines, CID-keyed fonts, CFF2 with blend, hint masks, operand-stack limits
    v.extend(crate::c18::seeds_for_c01());
    // embedded bitmap tables (CBLC/CBDT, EBLC/EBDT: every index and image format), morx (every subtable type and AAT
    // lookup format), SVG, STAT, name format 1, post 2.0, kern format 0/2, vmtx from the spec-based otmodel::bitmapenc
    v.extend(extra_seeds());
    // WOFF2 files from the C11 model whose brotli stream consists of stored (uncompressed) meta-blocks: a fault lands in the
    // transformed glyf / hmtx streams, the directory or the collection header themselves instead of in compressed data
    {
        let mut kinds: std::collections::BTreeSet<String> = std::collections::BTreeSet::new();
        for (name, bytes, _) in crate::c11::corpus_for_c09(false) {
            let kind: String = name.split(|c: char| c == '[' || c == ',' || c == '(').next().unwrap_or("").trim().to_string();
            if bytes.len() <= 1500 && kinds.len() < 8 && kinds.insert(kind) {
                v.push((format!("c11-woff2-stored-brotli {}", name), bytes));
            }
        }
    }
    // GSUB 1.1 FeatureVariations (condition sets, feature table substitution) behind a one-axis fvar: the battery shapes
    // variable fonts with a tuple, which is the only way into the condition / substitution readers
    v.push(("gsub-feature-variations+fvar".into(), crate::c03::synthetic_variable_gsub_font()));
    // variable fonts whose name table carries long / non-ASCII strings in the ids that instancing reads to build the
    // names of the instance (1, 2, 4, 6, 16, 17, 25 = Variations PostScript Name Prefix, and the fvar axis / instance ids)
    if let Ok(base) = std::fs::read("/repo/tests/fonts/variable/UnderlineTest-VF.ttf") {
        if let Some(f) = otmodel::sfnt::parse(&base) {
            let variants: [(&str, String); 6] = [
                ("name-long-ascii", "A".repeat(90)),
                ("name-long-2-byte-chars", "\u{e9}".repeat(45)),
                ("name-long-2-byte-chars-offset-1", format!("x{}", "\u{e9}".repeat(45))),
                ("name-long-3-byte-chars-offset-2", format!("ab{}", "\u{4e02}".repeat(30))),
                ("name-long-4-byte-chars-offset-1", format!("a{}", "\u{1F600}".repeat(24))),
                ("name-empty-strings", String::new()),
            ];
            for (nm, text) in variants {
                let ids: Vec<u16> = [1u16, 2, 3, 4, 5, 6, 16, 17, 25].into_iter().chain(256..=275).collect();
                let utf16: Vec<u8> = text.encode_utf16().flat_map(|u| u.to_be_bytes()).collect();
                let mut w = W::new();
                w.u16(0).u16(ids.len() as u16).u16(6 + 12 * ids.len() as u16);
                for id in &ids {
                    w.u16(3).u16(if text.chars().any(|c| c as u32 > 0xFFFF) { 10 } else { 1 }).u16(0x409).u16(*id).u16(utf16.len() as u16).u16(0);
                }
                w.bytes(&utf16);
                let name = w.done();
                let tables: Vec<(u32, Vec<u8>)> = f.dir.iter().filter_map(|e| f.table(e.tag).map(|d| (e.tag, if e.tag == tag(b"name") { name.clone() } else { d.to_vec() }))).collect();
                v.push((format!("variable-{}", nm), otmodel::sfnt::build(f.flavor, &tables)));
            }
        }
    }
    // a TrueType collection of two small fonts sharing tables
    {
        let t = otmodel::tables::minimal_tables(4, &cm, &[]);
        let members = vec![(0..t.len()).collect::<Vec<_>>(), (0..t.len()).collect::<Vec<_>>()];
        v.push(("ttc-shared".into(), otmodel::sfnt::build_ttc(0x0002_0000, &[otmodel::sfnt::TTF], &t, &members)));
    }
    v
}

/// Seeds for the readers that no fixture and none of the seeds above reach: embedded bitmaps (`CBLC`/`CBDT`,
/// `EBLC`/`EBDT`: every index subtable format x every glyph image format allsorts knows), `morx` (every subtable type,
/// every lookup table format), `SVG `, `STAT`, `name` format 1, `post` 2.0 with custom and standard names, `kern`
/// with three subtables, `vhea`/`vmtx` (and `hmtx`) with fewer long metrics than glyphs. All are well-formed
/// fonts below 4 KB (builders: `otmodel::bitmapenc`, written from the specifications).
pub fn extra_seeds() -> Vec<(String, Vec<u8>)> {
    use otmodel::bitmapenc as be;
    use otmodel::bitmapenc::{AxisValue, BigMetrics, IndexSub, KernSub, Lookup, MorxChain, MorxSubtable, PostName, StateTable, Strike};
    let mut v: Vec<(String, Vec<u8>)> = Vec::new();
    let cm = [(0x41u32, 1u16), (0x42, 2), (0x1F600, 3), (0x25CC, 4), (0x20, 5)];
    let n = 8u16;

    // ---- embedded bitmaps
    let sub = |index_format: u16, image_format: u16, first: u16, last: u16, big: BigMetrics, images: Vec<(u16, Vec<u8>)>| IndexSub { index_format, image_format, first_glyph: first, last_glyph: last, images, big_metrics: big };
    let bitmap_font = |loc: &[u8; 4], dat: &[u8; 4], major: u16, strikes: &[Strike]| {
        let (l, d) = be::build_bitmaps(major, strikes);
        minimal_font(n, &cm, &[(tag(loc), l), (tag(dat), d)])
    };
    let png = |k: u16| be::fake_png(k as u8);
    let sm = be::small_of(20, 18);
    let bm = BigMetrics::of(20, 18);
    // colour bitmaps: one font per index subtable format, covering image formats 17, 18, 19
    let cblc: Vec<(&str, Vec<Strike>)> = vec![
        ("cblc-index1-image17", vec![Strike::new(20, 32, vec![sub(1, 17, 1, 4, bm, [1u16, 2, 4].iter().map(|g| (*g, be::image17(&sm, &png(*g)))).collect())])]),
        ("cblc-index2-image19", vec![Strike::new(20, 32, vec![sub(2, 19, 1, 3, bm, (1u16..=3).map(|g| (g, be::image19(&png(g)))).collect())])]),
        ("cblc-index3-image18", vec![Strike::new(20, 32, vec![sub(3, 18, 2, 5, bm, [2u16, 3, 5].iter().map(|g| (*g, be::image18(&bm, &png(*g)))).collect())])]),
        ("cblc-index4-image17", vec![Strike::new(20, 32, vec![sub(4, 17, 1, 6, bm, [1u16, 3, 6].iter().map(|g| (*g, be::image17(&sm, &png(*g)))).collect())])]),
        ("cblc-index5-image19", vec![Strike::new(20, 32, vec![sub(5, 19, 1, 7, bm, [1u16, 4, 7].iter().map(|g| (*g, be::image19(&png(*g)))).collect())])]),
        (
            "cblc-two-strikes",
            vec![
                Strike::new(16, 32, vec![sub(1, 17, 1, 2, bm, (1u16..=2).map(|g| (g, be::image17(&sm, &png(g)))).collect()), sub(3, 18, 3, 5, bm, [3u16, 5].iter().map(|g| (*g, be::image18(&bm, &png(*g)))).collect())]),
                Strike::new(32, 32, vec![sub(4, 18, 1, 3, bm, [1u16, 3].iter().map(|g| (*g, be::image18(&bm, &png(*g)))).collect()), sub(5, 19, 4, 7, bm, [4u16, 5, 7].iter().map(|g| (*g, be::image19(&png(*g)))).collect())]),
            ],
        ),
    ];
    for (name, strikes) in &cblc {
        v.push((name.to_string(), bitmap_font(b"CBLC", b"CBDT", 3, strikes)));
    }
    // uncompressed images (formats 1, 2, 5, 6, 7) at every bit depth and component images (formats 8, 9); CBLC is a
    // superset of EBLC, so these are valid under either pair of tags. The default image filter of `Font` consults CBLC.
    let s3 = be::small_of(5, 7);
    let b3 = BigMetrics::of(5, 7);
    let b2 = BigMetrics::of(2, 2);
    let legacy: Vec<(&str, Vec<Strike>)> = vec![
        ("cblc-index1-image6+index3-image7-depth32", vec![Strike::new(12, 32, vec![sub(1, 6, 1, 3, b2, [1u16, 3].iter().map(|g| (*g, be::image6(&b2, 32))).collect()), sub(3, 7, 4, 5, b2, (4u16..=5).map(|g| (g, be::image7(&b2, 32))).collect())])]),
        ("cblc-index1-image1-depth1", vec![Strike::new(12, 1, vec![sub(1, 1, 1, 4, b3, [1u16, 2, 4].iter().map(|g| (*g, be::image1(&s3, 1))).collect())])]),
        ("cblc-index3-image2-depth2", vec![Strike::new(12, 2, vec![sub(3, 2, 1, 4, b3, [1u16, 2, 4].iter().map(|g| (*g, be::image2(&s3, 2))).collect())])]),
        ("cblc-index2-image5-depth4", vec![Strike::new(12, 4, vec![sub(2, 5, 1, 3, b3, (1u16..=3).map(|g| (g, be::image5(&b3, 4))).collect())])]),
        ("cblc-index4-image6-depth8", vec![Strike::new(12, 8, vec![sub(4, 6, 1, 6, b3, [1u16, 3, 6].iter().map(|g| (*g, be::image6(&b3, 8))).collect())])]),
        ("cblc-index5-image5-depth1", vec![Strike::new(12, 1, vec![sub(5, 5, 1, 7, b3, [1u16, 4, 7].iter().map(|g| (*g, be::image5(&b3, 1))).collect())])]),
        ("cblc-index1-image7-depth4", vec![Strike::new(12, 4, vec![sub(1, 7, 1, 2, b3, (1u16..=2).map(|g| (g, be::image7(&b3, 4))).collect())])]),
        (
            "cblc-components-image8-image9-depth1",
            vec![Strike::new(12, 1, vec![sub(1, 1, 1, 2, b3, (1u16..=2).map(|g| (g, be::image1(&s3, 1))).collect()), sub(1, 8, 3, 3, b3, vec![(3, be::image8(&s3, &[(1, 0, 0), (2, 5, 0)]))]), sub(3, 9, 4, 5, b3, vec![(4, be::image9(&b3, &[(1, 0, 0), (3, 0, -7)])), (5, be::image9(&b3, &[(2, 1, 1)]))])])],
        ),
    ];
    for (name, strikes) in &legacy {
        v.push((name.to_string(), bitmap_font(b"CBLC", b"CBDT", 3, strikes)));
    }
    // the same structures as version 2 EBLC/EBDT (reached through GlyphTableFlags::EBDT)
    v.push(("eblc-index2-image5+index3-image2-depth1".into(), bitmap_font(b"EBLC", b"EBDT", 2, &[Strike::new(12, 1, vec![sub(2, 5, 1, 3, b3, (1u16..=3).map(|g| (g, be::image5(&b3, 1))).collect()), sub(3, 2, 4, 6, b3, [4u16, 6].iter().map(|g| (*g, be::image2(&s3, 1))).collect())])])));
    v.push((
        "eblc-two-strikes-depth1-depth8".into(),
        bitmap_font(
            b"EBLC",
            b"EBDT",
            2,
            &[
                Strike::new(12, 1, vec![sub(1, 1, 1, 3, b3, [1u16, 3].iter().map(|g| (*g, be::image1(&s3, 1))).collect()), sub(4, 6, 4, 7, b3, [4u16, 7].iter().map(|g| (*g, be::image6(&b3, 1))).collect())]),
                Strike::new(24, 8, vec![sub(5, 5, 1, 5, b3, [1u16, 2, 5].iter().map(|g| (*g, be::image5(&b3, 8))).collect()), sub(3, 9, 6, 7, b3, vec![(6, be::image9(&b3, &[(1, 0, 0), (2, 5, 0)]))])]),
            ],
        ),
    ));

    // ---- morx. Glyphs: 1 A, 2 V, 3 f, 4 i, 5 fi, 6 B, 7 A.alt, 8 space, 9 dotted circle, 10 acute, 11 V.alt
    let mcm = [(0x41u32, 1u16), (0x56, 2), (0x66, 3), (0x69, 4), (0x42, 6), (0x20, 8), (0x25CC, 9), (0x301, 10)];
    let mn = 12u16;
    let st = |n_classes: u32, class_table: Lookup, states: Vec<Vec<u16>>| StateTable { n_classes, class_table, states };
    let msub = |kind: u32, flags: u32, body: Vec<u8>, cov: Option<Vec<u16>>| MorxSubtable { coverage: kind, sub_feature_flags: flags, body, glyph_coverage: cov };
    // a two-glyph machine: class 4 then class 5 (state 2 = "seen the first"); entries 0 = nothing, 1 = remember, 2 = act
    let rows6 = vec![vec![0u16, 0, 0, 0, 1, 0], vec![0, 0, 0, 0, 1, 0], vec![0, 0, 0, 0, 1, 2]];
    let rows7 = vec![vec![0u16, 0, 0, 0, 1, 0, 0], vec![0, 0, 0, 0, 1, 0, 0], vec![0, 0, 0, 0, 1, 2, 3]];
    let ligature = |class_table: Lookup| {
        // f (glyph 3) + i (glyph 4) -> fi (glyph 5): the stack is popped i first; component indices 0 (i) and 1 (f)
        be::morx_ligature(
            &st(6, class_table, rows6.clone()),
            &[(0, 0, 0), (2, be::LIG_SET_COMPONENT, 0), (0, be::LIG_SET_COMPONENT | be::LIG_PERFORM_ACTION, 0)],
            &[be::lig_action(0, 0 - 4), be::lig_action(be::LIG_ACTION_LAST, 1 - 3)],
            &[0, 0],
            &[5],
        )
    };
    let contextual = |class_table: Lookup, subst: &[Lookup]| {
        // A (class 4) is marked; a following V (class 5) replaces both; a following f (class 6) is re-examined in state 0
        be::morx_contextual(&st(7, class_table, rows7.clone()), &[(0, 0, 0xFFFF, 0xFFFF), (2, 0x8000, 0xFFFF, 0xFFFF), (0, 0, 0, 1), (0, 0x4000, 0xFFFF, 0xFFFF)], subst)
    };
    let identity = |changes: &[(u16, u16)]| Lookup::Simple((0..mn).map(|g| changes.iter().find(|c| c.0 == g).map_or(g, |c| c.1)).collect());
    let ligature_features = vec![(1u16, 2u16, 0x4u32, 0xFFFF_FFFFu32), (1, 3, 0, !0x4u32), (0, 1, 0, 0)];
    {
        let chain = MorxChain {
            default_flags: 0x1F,
            features: ligature_features.clone(),
            subtables: vec![
                msub(0, 0x01, be::morx_rearrangement(&st(6, Lookup::SegmentSingle(vec![(1, 1, 4), (2, 2, 5)]), rows6.clone()), &[(0, 0), (2, 0x8000), (0, 0x2003)]), None),
                msub(1, 0x02, contextual(Lookup::Single(vec![(1, 4), (2, 5), (3, 6)]), &[Lookup::Trimmed(1, vec![7]), Lookup::Single(vec![(2, 11)])]), None),
                msub(2, 0x04, ligature(Lookup::Trimmed(3, vec![4, 5])), None),
                msub(4, 0x08, be::morx_noncontextual(&identity(&[(6, 7)])), None),
                msub(5, 0x10, be::morx_insertion(&st(6, Lookup::SegmentArray(vec![(1, 2, vec![4, 5])]), rows6.clone()), &[(0, 0, 0xFFFF, 0xFFFF), (2, 0x8000, 0xFFFF, 0xFFFF), (0, 0x0800 | (1 << 5), 0, 0xFFFF)], &[10]), None),
            ],
        };
        v.push(("morx2-all-subtable-types".into(), minimal_font(mn, &mcm, &[(tag(b"morx"), be::morx_table(2, mn, &[chain]))])));
    }
    {
        // version 3 (glyph coverage bitfields), two chains, every lookup table format as a substitution and as a class table
        let c1 = MorxChain {
            default_flags: 0x7,
            features: vec![(0, 1, 0, 0)],
            subtables: vec![
                msub(4, 0x1, be::morx_noncontextual(&Lookup::SegmentSingle(vec![(6, 6, 7)])), Some(vec![6])),
                msub(4, 0x2, be::morx_noncontextual(&Lookup::SegmentArray(vec![(6, 7, vec![6, 1]), (11, 11, vec![2])])), None),
                msub(4, 0x4, be::morx_noncontextual(&Lookup::Single(vec![(0, 0), (7, 1)])), Some(vec![0, 7])),
            ],
        };
        let c2 = MorxChain {
            default_flags: 0x3F,
            features: ligature_features.clone(),
            subtables: vec![
                msub(4, 0x01, be::morx_noncontextual(&Lookup::Trimmed(6, vec![7, 6])), None),
                msub(4, 0x02, be::morx_noncontextual(&Lookup::TrimmedSized(2, 6, vec![7, 6])), Some(vec![6, 7])),
                msub(4, 0x08, be::morx_noncontextual(&Lookup::TrimmedSized(1, 9, vec![9, 10])), None),
                msub(0x2000_0001, 0x10, contextual(Lookup::TrimmedSized(2, 1, vec![4, 5, 6]), &[identity(&[(1, 7)]), Lookup::SegmentSingle(vec![(2, 2, 11)])]), Some(vec![1, 2, 3])),
                msub(0x2000_0002, 0x04, ligature(Lookup::SegmentSingle(vec![(3, 3, 4), (4, 4, 5)])), Some(vec![3, 4, 5])),
                msub(0x8000_0002, 0x20, ligature(Lookup::Simple((0..mn).map(|g| if g == 3 { 4 } else if g == 4 { 5 } else { 1 }).collect())), None),
            ],
        };
        v.push(("morx3-two-chains-every-lookup-format".into(), minimal_font(mn, &mcm, &[(tag(b"morx"), be::morx_table(3, mn, &[c1, c2]))])));
    }
    {
        // lookup format 10 with 4-byte and 8-byte units (legal unit sizes of the format)
        let chain = MorxChain {
            default_flags: 0x3,
            features: vec![(0, 1, 0, 0)],
            subtables: vec![msub(4, 0x1, be::morx_noncontextual(&Lookup::TrimmedSized(4, 1, vec![7, 11])), None), msub(4, 0x2, be::morx_noncontextual(&Lookup::TrimmedSized(8, 6, vec![7])), None)],
        };
        v.push(("morx2-lookup10-unit4-unit8".into(), minimal_font(mn, &mcm, &[(tag(b"morx"), be::morx_table(2, mn, &[chain]))])));
    }

    // ---- SVG: one plain and one gzip-compressed document
    {
        let plain = br#"<svg xmlns="http://www.w3.org/2000/svg"><g id="glyph1"><rect width="9" height="9"/></g></svg>"#.to_vec();
        let zipped = be::gzip(br#"<svg xmlns="http://www.w3.org/2000/svg"><g id="glyph2"><circle r="5"/></g><g id="glyph3"><circle r="7"/></g></svg>"#);
        v.push(("svg-plain+gzip".into(), minimal_font(n, &cm, &[(tag(b"SVG "), be::svg_table(&[(1, 1, plain), (2, 3, zipped)]))])));
    }

    // ---- name format 1 with language-tag records; STAT with every axis value format
    let win = |id: u16, s: &str| (3u16, 1u16, 0x0409u16, id, be::utf16be(s));
    let name1 = {
        let mut recs = vec![(0u16, 4u16, 0u16, 1u16, be::utf16be("Seed")), (0, 4, 0x8000, 1, be::utf16be("Saat")), (0, 4, 0x8001, 2, be::utf16be("Normal")), (1, 0, 0, 1, b"Seed".to_vec()), (1, 0, 0, 6, b"Seed-Regular".to_vec())];
        for (id, s) in [(1u16, "Seed"), (2, "Regular"), (4, "Seed Regular"), (6, "Seed-Regular"), (256, "Weight"), (257, "Width"), (258, "Regular"), (259, "Bold"), (260, "Condensed"), (261, "Bold Condensed")] {
            recs.push(win(id, s));
        }
        recs.push((3, 1, 0x8000, 1, be::utf16be("Saat")));
        be::name_v1(&recs, &["de-AT", "sr-Latn"])
    };
    v.push(("name1-langtags".into(), minimal_font(n, &cm, &[(tag(b"name"), name1.clone())])));
    {
        let fx = |x: i32| x << 16;
        let stat = be::stat_table(
            &[(tag(b"wght"), 256, 0), (tag(b"wght") + 1, 257, 1)],
            &[
                AxisValue::F1(0, 0x2, 258, fx(400)),
                AxisValue::F2(0, 0, 259, fx(700), fx(600), fx(900)),
                AxisValue::F3(0, 0x2, 258, fx(400), fx(700)),
                AxisValue::F1(1, 0x2, 258, fx(100)),
                AxisValue::F2(1, 0, 260, fx(75), fx(50), fx(87)),
                AxisValue::F4(0, 261, vec![(0, fx(700)), (1, fx(75))]),
            ],
            2,
        );
        v.push(("stat-formats1-4+fvar+gvar+name1".into(), minimal_font(n, &cm, &[(tag(b"STAT"), stat), (tag(b"fvar"), fvar(&[(100, 400, 900), (50, 100, 125)])), (tag(b"gvar"), be::gvar_empty(2, n)), (tag(b"name"), name1)])));
    }

    // ---- post 2.0: standard names, custom names in a different order than the glyphs, a shared name
    {
        let pn = 40u16;
        let names: Vec<PostName> = (0..pn)
            .map(|g| match g {
                0 => PostName::Standard(0),
                g if g % 4 == 1 => PostName::Standard(35 + g),
                g if g % 4 == 2 => PostName::Custom(format!("glyph{:03}.alt", 60 - g)),
                g if g % 4 == 3 => PostName::Custom("shared".into()),
                g => PostName::Custom(format!("uni{:04X}", 0x2500 + g)),
            })
            .collect();
        v.push(("post2-40-glyphs-mixed".into(), minimal_font(pn, &cm, &[(tag(b"post"), be::post_v2(&names))])));
    }

    // ---- kern version 0 with three subtables (pairs, minimum + cross-stream pairs, class based)
    {
        let kern = be::kern_v0(&[
            KernSub::Pairs(0x01, vec![(1, 2, -50), (2, 1, 30), (2, 5, -10)]),
            KernSub::Pairs(0x01 | 0x02 | 0x04 | 0x08, vec![(1, 2, -20), (1, 5, 0x8000u16 as i16)]),
            KernSub::Classes(0x01, 1, vec![0, 1], 1, vec![0, 1, 0, 0, 1], vec![vec![-10, 20], vec![30, -40]]),
        ]);
        v.push(("kern0-three-subtables".into(), minimal_font(n, &cm, &[(tag(b"kern"), kern)])));
    }

    // ---- vertical and horizontal metrics with fewer long records than glyphs
    {
        let long: Vec<(u16, i16)> = (0..3).map(|g| (1000 + g, 10 + g as i16)).collect();
        let rest: Vec<i16> = (3..n as i16).map(|g| -g).collect();
        let mut hhea = tables::hhea(3);
        hhea[10..12].copy_from_slice(&1002u16.to_be_bytes());
        v.push(("vmtx-hmtx-3-long-of-8".into(), minimal_font(n, &cm, &[(tag(b"vhea"), be::vhea(3, 1002)), (tag(b"vmtx"), be::long_metrics(&long, &rest)), (tag(b"hhea"), hhea), (tag(b"hmtx"), be::long_metrics(&long, &rest))])));
    }
    // ---- morx ligature subtables whose action lists store more than once (a STORE before the final LAST: several
    // ligatures formed from one component stack), at the end and in the middle of the battery's Latin run
    // "AV fi \u{25CC}\u{301}" = glyphs [1, 2, 8, 3, 4, 8, 9, 10]; DONT_ADVANCE together with PERFORM_ACTION; a contextual
    // subtable in a second chain that substitutes a marked ligature made by the first chain
    {
        let set = be::LIG_SET_COMPONENT;
        let act = be::LIG_PERFORM_ACTION;
        // end of the run: i (seen, not a component), then space + dotted circle + acute (glyphs 8, 9, 10 at positions 5..=7)
        let end_machine = |actions: &[u32], components: &[u16]| {
            be::morx_ligature(
                &st(8, Lookup::Single(vec![(4, 4), (8, 5), (9, 6), (10, 7)]), vec![vec![0, 0, 0, 0, 1, 0, 0, 0], vec![0, 0, 0, 0, 1, 0, 0, 0], vec![0, 0, 0, 0, 1, 2, 0, 0], vec![0, 0, 0, 0, 1, 0, 3, 0], vec![0, 0, 0, 0, 1, 0, 0, 4]]),
                &[(0, 0, 0), (2, 0, 0), (3, set, 0), (4, set, 0), (0, set | act, 0)],
                actions,
                components,
                &[5, 7],
            )
        };
        // middle of the run: V + space + f (glyphs 2, 8, 3 at positions 1..=3)
        let middle_machine = |actions: &[u32], components: &[u16]| {
            be::morx_ligature(
                &st(7, Lookup::Single(vec![(2, 4), (3, 6), (8, 5)]), vec![vec![0, 0, 0, 0, 1, 0, 0], vec![0, 0, 0, 0, 1, 0, 0], vec![0, 0, 0, 0, 1, 2, 0], vec![0, 0, 0, 0, 1, 0, 3]]),
                &[(0, 0, 0), (2, set, 0), (3, set, 0), (0, set | act, 0)],
                actions,
                components,
                &[5, 7],
            )
        };
        // component table: [third, second, first]; the action offsets select these entries from the popped glyph ids.
        // [plain, STORE, LAST]: third + second -> ligature list[0] (stored), + first -> ligature list[1]
        let psl = |third: i32, second: i32, first: i32| vec![be::lig_action(0, 0 - third), be::lig_action(be::LIG_ACTION_STORE, 1 - second), be::lig_action(be::LIG_ACTION_LAST, 2 - first)];
        // [STORE, STORE|LAST]: third -> list[0], + second -> list[1]; the first component stays on the stack
        let ssl = |third: i32, second: i32| vec![be::lig_action(be::LIG_ACTION_STORE, 0 - third), be::lig_action(be::LIG_ACTION_STORE | be::LIG_ACTION_LAST, 1 - second)];
        let one_chain = |subtables: Vec<MorxSubtable>| MorxChain { default_flags: 0xFF, features: ligature_features.clone(), subtables };
        v.push((
            "morx2-ligature3-actions-plain-store-last".into(),
            minimal_font(mn, &mcm, &[(tag(b"morx"), be::morx_table(2, mn, &[one_chain(vec![msub(2, 0x04, end_machine(&psl(10, 9, 8), &[0, 0, 1]), None), msub(2, 0x04, middle_machine(&psl(3, 8, 2), &[0, 0, 1]), None)])]))]),
        ));
        v.push((
            "morx2-ligature3-actions-store-store+last".into(),
            minimal_font(mn, &mcm, &[(tag(b"morx"), be::morx_table(2, mn, &[one_chain(vec![msub(2, 0x04, end_machine(&ssl(10, 9), &[0, 1, 0]), None), msub(2, 0x04, middle_machine(&ssl(3, 8), &[0, 1, 0]), None)])]))]),
        ));
        // f + i -> fi where the acting entry also says DONT_ADVANCE: the same glyph is looked at again in state 3, which
        // either does nothing (first subtable) or makes it a component again (second subtable, A + V -> glyph 7)
        let two = |first: u16, second: u16, state3_entry: u16, lig: u16| {
            be::morx_ligature(
                &st(6, Lookup::Single(if first < second { vec![(first, 4), (second, 5)] } else { vec![(second, 5), (first, 4)] }), vec![vec![0, 0, 0, 0, 1, 0], vec![0, 0, 0, 0, 1, 0], vec![0, 0, 0, 0, 1, 2], vec![0, 0, 0, 0, 1, state3_entry]]),
                &[(0, 0, 0), (2, set, 0), (3, set | act | be::LIG_DONT_ADVANCE, 0), (0, set, 0)],
                &[be::lig_action(0, 0 - second as i32), be::lig_action(be::LIG_ACTION_LAST, 1 - first as i32)],
                &[0, 0],
                &[lig],
            )
        };
        v.push(("morx2-ligature-perform+dont-advance".into(), minimal_font(mn, &mcm, &[(tag(b"morx"), be::morx_table(2, mn, &[one_chain(vec![msub(2, 0x04, two(3, 4, 0, 5), None), msub(2, 0x04, two(1, 2, 3, 7), None)])]))])));
        // chain 1 shortens the run (f + i -> fi); chain 2 marks fi and, after space + dotted circle, replaces the marked fi
        // (-> glyph 7) and the current dotted circle (-> glyph 11)
        let shorten = one_chain(vec![msub(2, 0x04, ligature(Lookup::Trimmed(3, vec![4, 5])), None)]);
        let marked = be::morx_contextual(
            &st(7, Lookup::Single(vec![(5, 4), (8, 5), (9, 6)]), vec![vec![0, 0, 0, 0, 1, 0, 0], vec![0, 0, 0, 0, 1, 0, 0], vec![0, 0, 0, 0, 1, 2, 0], vec![0, 0, 0, 0, 1, 0, 3]]),
            &[(0, 0, 0xFFFF, 0xFFFF), (2, 0x8000, 0xFFFF, 0xFFFF), (3, 0, 0xFFFF, 0xFFFF), (0, 0, 0, 1)],
            &[Lookup::Single(vec![(5, 7)]), Lookup::Single(vec![(9, 11)])],
        );
        let second = MorxChain { default_flags: 0x1, features: vec![(0, 1, 0, 0)], subtables: vec![msub(1, 0x1, marked, None)] };
        v.push(("morx2-ligature-chain-then-contextual-mark".into(), minimal_font(mn, &mcm, &[(tag(b"morx"), be::morx_table(2, mn, &[shorten, second]))])));
    }
    v
}
