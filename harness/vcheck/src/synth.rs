//! Synthetic seed fonts for the fault sweeps: table kinds that no small fixture contains.

use otmodel::be::W;
use otmodel::cmapenc::{self, Seg4, Sub2, Term4};
use otmodel::tables::{self, cmap_table, minimal_font};
use otmodel::tag;

fn fvar(axes: &[(i32, i32, i32)]) -> Vec<u8> {
    let mut w = W::new();
    let n = axes.len() as u16;
    w.u16(1).u16(0).u16(16).u16(2).u16(n).u16(20).u16(0).u16(4 * n + 4);
    for (i, (min, def, max)) in axes.iter().enumerate() {
        w.u32(tag(b"wght") + i as u32).i32(*min << 16).i32(*def << 16).i32(*max << 16).u16(0).u16(256 + i as u16);
    }
    w.done()
}

fn avar(knots: &[(i16, i16)]) -> Vec<u8> {
    let mut w = W::new();
    w.u16(1).u16(0).u16(0).u16(1).u16(knots.len() as u16);
    for (f, t) in knots {
        w.i16(*f).i16(*t);
    }
    w.done()
}

fn kern0(pairs: &[(u16, u16, i16)], coverage: u16) -> Vec<u8> {
    let mut w = W::new();
    w.u16(0).u16(1); // version 0, 1 subtable
    let n = pairs.len() as u16;
    let (sr, es, rs) = otmodel::sfnt::search_fields(n, 6);
    w.u16(0).u16(14 + 6 * n).u16(coverage); // subtable version, length, coverage (format in high byte)
    w.u16(n).u16(sr).u16(es).u16(rs);
    for (l, r, v) in pairs {
        w.u16(*l).u16(*r).i16(*v);
    }
    w.done()
}

fn kern2() -> Vec<u8> {
    // one format 2 subtable: 2 left classes x 2 right classes over glyphs 1..=2
    let mut w = W::new();
    w.u16(0).u16(1);
    let start = w.len();
    w.u16(0).u16(0).u16(0x0201); // version, length (patched), coverage: horizontal, format 2
    let sub = w.len();
    w.u16(4).u16(0).u16(0).u16(0); // rowWidth, leftClassTable, rightClassTable, array offsets (patched)
    let left = w.len() - sub + 6; // offsets are from the start of the subtable (incl. 6-byte header)
    let array_off = 8 + 6 + 2 * (4 + 4); // header(6)+4 u16 + two class tables of 8 bytes each
    w.u16(1).u16(2).u16(array_off as u16).u16(array_off as u16 + 4); // firstGlyph 1, nGlyphs 2, class values = row offsets
    let right = w.len() - sub + 6;
    w.u16(1).u16(2).u16(0).u16(2); // right class values = column byte offsets
    w.i16(-10).i16(20).i16(30).i16(-40);
    let len = w.len() - start;
    w.set_u16(start + 2, len as u16);
    w.set_u16(sub + 2, left as u16);
    w.set_u16(sub + 4, right as u16);
    w.set_u16(sub + 6, array_off as u16);
    w.done()
}

fn vhea_vmtx(n: u16) -> (Vec<u8>, Vec<u8>) {
    let mut vhea = tables::hhea(n);
    vhea[0] = 0;
    vhea[1] = 1;
    vhea[2] = 0x10;
    vhea[3] = 0;
    let m: Vec<(u16, i16)> = (0..n).map(|g| (1000 + g, 10)).collect();
    (vhea, tables::hmtx(&m, &[]))
}

fn post2(names: &[&str]) -> Vec<u8> {
    let mut w = W::new();
    w.u32(0x0002_0000).u32(0).i16(-100).i16(50).u32(0).u32(0).u32(0).u32(0).u32(0);
    w.u16(names.len() as u16);
    for i in 0..names.len() {
        w.u16(258 + i as u16);
    }
    for n in names {
        w.u8(n.len() as u8).bytes(n.as_bytes());
    }
    w.done()
}

pub fn seeds() -> Vec<(String, Vec<u8>)> {
    let mut v: Vec<(String, Vec<u8>)> = Vec::new();
    let cm = [(0x41u32, 1u16), (0x42, 2), (0x1F600, 3), (0x25CC, 2)];
    v.push(("minimal-cmap4+12".into(), minimal_font(4, &cm, &[])));
    // symbol font whose usFirstCharIndex is 0 (legacy_symbol_char_code subtracts 0x20)
    let (s4, _) = cmapenc::fmt4(&[Seg4::Delta { start: 0xF020, end: 0xF07F, delta: (1i32 - 0xF020) as i16 }], Term4::Standard);
    v.push(("symbol-firstchar0".into(), minimal_font(100, &[], &[(tag(b"cmap"), cmap_table(&[(3, 0, s4.clone())])), (tag(b"OS/2"), tables::os2_v4(0, 0xFF))])));
    v.push(("symbol-firstcharF020".into(), minimal_font(100, &[], &[(tag(b"cmap"), cmap_table(&[(3, 0, s4)])), (tag(b"OS/2"), tables::os2_v4(0xF020, 0xF0FF))])));
    // legacy cmap formats as the selected subtable
    let mut a0 = [0u8; 256];
    a0[0x41] = 1;
    a0[0xD0] = 2;
    v.push(("cmap0-macroman".into(), minimal_font(4, &[], &[(tag(b"cmap"), cmap_table(&[(1, 0, cmapenc::fmt0(&a0).0)]))])));
    v.push(("cmap6-unicode".into(), minimal_font(4, &[], &[(tag(b"cmap"), cmap_table(&[(3, 1, cmapenc::fmt6(0x41, &[1, 2, 3]).0)]))])));
    v.push(("cmap10-unicode".into(), minimal_font(4, &[], &[(tag(b"cmap"), cmap_table(&[(3, 10, cmapenc::fmt10(0x1F600, &[1, 2, 3]).0)]))])));
    let single = Sub2 { first: 0x20, delta: 0, entries: vec![1, 2, 3] };
    let leads = vec![(0xA1u8, Sub2 { first: 0x40, delta: 1, entries: vec![1, 0, 2] })];
    v.push(("cmap2-big5".into(), minimal_font(4, &[], &[(tag(b"cmap"), cmap_table(&[(3, 4, cmapenc::fmt2(&single, &leads).0)]))])));
    // variable-font tables
    v.push(("fvar-avar".into(), minimal_font(4, &cm, &[(tag(b"fvar"), fvar(&[(100, 400, 900)])), (tag(b"avar"), avar(&[(-16384, -16384), (0, 0), (8192, 4096), (16384, 16384)]))])));
    v.push(("fvar-min-gt-max".into(), minimal_font(4, &cm, &[(tag(b"fvar"), fvar(&[(900, 400, 100)]))])));
    // kern, vertical metrics, post 2
    v.push(("kern0".into(), minimal_font(4, &cm, &[(tag(b"kern"), kern0(&[(1, 2, -50), (2, 1, 30)], 0x0001))])));
    v.push(("kern0-minimum-crossstream".into(), minimal_font(4, &cm, &[(tag(b"kern"), kern0(&[(1, 2, -50)], 0x0007))])));
    v.push(("kern2".into(), minimal_font(4, &cm, &[(tag(b"kern"), kern2())])));
    let (vhea, vmtx) = vhea_vmtx(4);
    v.push(("vhea-vmtx".into(), minimal_font(4, &cm, &[(tag(b"vhea"), vhea), (tag(b"vmtx"), vmtx)])));
    v.push(("post2".into(), minimal_font(4, &cm, &[(tag(b"post"), post2(&[".notdef", "A", "B", "smile"]))])));
    // sbix strikes whose 'dupe' records form a chain or a cycle (the fixture has glyph 2 -> 1 and glyph 3 -> itself):
    // reference graphs that no single fault from the value menus produces
    if let Ok(base) = std::fs::read("/repo/tests/fonts/sbix/sbix-dupe.ttf") {
        let dupes: Vec<usize> = base.windows(4).enumerate().filter(|(_, w)| *w == b"dupe").map(|(i, _)| i + 4).collect();
        if dupes.len() == 2 && dupes[1] + 2 <= base.len() {
            let patch = |a: u16, b: u16| {
                let mut d = base.clone();
                d[dupes[0]..dupes[0] + 2].copy_from_slice(&a.to_be_bytes());
                d[dupes[1]..dupes[1] + 2].copy_from_slice(&b.to_be_bytes());
                d
            };
            v.push(("sbix-dupe-cycle-2-3".into(), patch(3, 2)));
            v.push(("sbix-dupe-chain-3-2-1".into(), patch(1, 2)));
            v.push(("sbix-dupe-both-self".into(), patch(2, 3)));
            v.push(("sbix-dupe-out-of-range".into(), patch(4, 0xFFFF)));
        }
    }
    // synthetic variable fonts from the C12 generator (HVAR/MVAR kinds incl. LONG_WORDS delta sets, DeltaSetIndexMap,
    // intermediate regions, shared point numbers, a composite glyph with varying offsets)
    v.extend(crate::c12::seeds_for_c01());
    // CFF / CFF2 fonts from the C18 generator: seac composites (well-formed, self-referencing, cyclic, chained), recursive
    // and deeply nested subroutines, CID-keyed fonts, CFF2 with blend, hint masks, operand-stack limits
    v.extend(crate::c18::seeds_for_c01());
    // a TrueType collection of two small fonts sharing tables
    {
        let t = otmodel::tables::minimal_tables(4, &cm, &[]);
        let members = vec![(0..t.len()).collect::<Vec<_>>(), (0..t.len()).collect::<Vec<_>>()];
        v.push(("ttc-shared".into(), otmodel::sfnt::build_ttc(0x0002_0000, &[otmodel::sfnt::TTF], &t, &members)));
    }
    v
}
