//! Fault plans for C01/C02: deterministic, exhaustive enumeration of corruptions of a seed font within a
//! bound on the number of simultaneous faults. Mutant `i` of a plan is a pure function of (seed, plan, i),
//! so a worker process can regenerate it from three numbers.

use otmodel::sfnt;

#[derive(Clone, Debug, PartialEq)]
pub enum Fault {
    Byte { off: usize, val: u8 },
    U16 { off: usize, val: u16 },
    U32 { off: usize, val: u32 },
    Truncate { len: usize },
    RemoveTable { idx: usize },
    EmptyTable { idx: usize },
    SwapRecords { i: usize, j: usize },
    Retag { idx: usize, tag: u32 },
    Pair(Box<Fault>, Box<Fault>),
}

#[derive(Clone)]
pub struct Seed {
    pub name: String,
    pub bytes: Vec<u8>,
    /// how the bytes are presented to allsorts
    pub wrap: Wrap,
}

#[derive(Clone, Debug, PartialEq)]
pub enum Wrap {
    /// the (mutated) bytes are the font file
    Raw,
    /// the bytes are an sfnt; the mutated sfnt's tables are re-wrapped as WOFF (tables deflated when smaller)
    /// so that corruption reaches the parsers behind the decompressor
    Woff,
}

#[derive(Clone, Copy, Debug, PartialEq)]
pub struct PlanOpts {
    /// only positions inside the directory and the first `head_bytes` of every table (0 = every position)
    pub head_bytes: usize,
    pub byte_faults: bool,
    pub u16_faults: bool,
    pub u32_faults: bool,
    pub truncations: bool,
    pub structure: bool,
    /// bound-2 coupled pairs: 0 none, 1 local (|p-q| <= 8, directory record x table head), 2 wide (all pairs when the seed
    /// is < 600 bytes, else |p-q| <= 32 and directory record x first 32 bytes of the table)
    pub pairs: u8,
    /// only positions inside GSUB, GPOS, GDEF, kern and morx (C02's corrupt-layout sweep)
    pub layout_only: bool,
    /// with a head window: tables that are not part of the boilerplate every synthetic seed shares (head, hhea, maxp,
    /// OS/2, name, post, hmtx, cmap, loca, glyf) get this many bytes instead of `head_bytes` (0 = no special treatment)
    pub subject_bytes: usize,
}

impl PlanOpts {
    pub fn full() -> Self {
        PlanOpts { head_bytes: 0, byte_faults: true, u16_faults: true, u32_faults: true, truncations: true, structure: true, pairs: 0, layout_only: false, subject_bytes: 0 }
    }
    pub fn heads(n: usize) -> Self {
        PlanOpts { head_bytes: n, ..Self::full() }
    }
}

const RETAGS: [u32; 6] = [otmodel::tag(b"GSUB"), otmodel::tag(b"GPOS"), otmodel::tag(b"cmap"), otmodel::tag(b"glyf"), otmodel::tag(b"CFF "), otmodel::tag(b"kern")];

fn u16_at(b: &[u8], o: usize) -> u16 {
    u16::from_be_bytes([b[o], b[o + 1]])
}
fn u32_at(b: &[u8], o: usize) -> u32 {
    u32::from_be_bytes([b[o], b[o + 1], b[o + 2], b[o + 3]])
}

/// positions eligible for value faults
fn positions(seed: &[u8], opts: &PlanOpts) -> Vec<usize> {
    if opts.layout_only {
        let mut v = Vec::new();
        if let Some(f) = sfnt::parse(seed) {
            for e in &f.dir {
                if [b"GSUB", b"GPOS", b"GDEF", b"kern", b"morx"].iter().any(|t| otmodel::tag(t) == e.tag) {
                    let s = e.offset as usize;
                    let end = s.saturating_add(e.length as usize).min(seed.len());
                    let end = if opts.head_bytes > 0 { end.min(s + opts.head_bytes) } else { end };
                    v.extend(s..end);
                }
            }
        }
        return v;
    }
    if opts.head_bytes == 0 {
        return (0..seed.len()).collect();
    }
    let mut keep = vec![false; seed.len()];
    let dir_end = match sfnt::parse(seed) {
        Some(f) => {
            for e in &f.dir {
                let s = e.offset as usize;
                let boiler = [b"head", b"hhea", b"maxp", b"OS/2", b"name", b"post", b"hmtx", b"cmap", b"loca", b"glyf"].iter().any(|t| otmodel::tag(t) == e.tag);
                let window = if opts.subject_bytes > 0 && !boiler { opts.subject_bytes.min(e.length as usize) } else { opts.head_bytes };
                for p in s..s.saturating_add(window).min(seed.len()) {
                    keep[p] = true;
                }
            }
            12 + 16 * f.dir.len()
        }
        // WOFF / WOFF2: the header, the (variable length) table directory and, for collections, the collection
        // directory all sit in the first few hundred bytes
        None if seed.len() >= 4 && (&seed[..4] == b"wOF2" || &seed[..4] == b"wOFF") => 320.min(seed.len()),
        None => 64.min(seed.len()),
    };
    for p in 0..dir_end.min(seed.len()).max(64.min(seed.len())) {
        keep[p] = true;
    }
    (0..seed.len()).filter(|p| keep[*p]).collect()
}

pub fn plan(seed: &[u8], opts: &PlanOpts) -> Vec<Fault> {
    let mut v: Vec<Fault> = Vec::new();
    let n = seed.len();
    let pos = positions(seed, opts);
    if opts.byte_faults {
        for &p in &pos {
            let b = seed[p];
            let mut vals = vec![0x00, 0x01, 0x7F, 0x80, 0xFF, b.wrapping_add(1), b.wrapping_sub(1), b ^ 0x80];
            vals.sort();
            vals.dedup();
            for val in vals {
                if val != b {
                    v.push(Fault::Byte { off: p, val });
                }
            }
        }
    }
    if opts.u16_faults {
        for &p in pos.iter().filter(|p| *p % 2 == 0 && *p + 2 <= n) {
            let x = u16_at(seed, p);
            let mut vals = vec![0, 1, 0x7FFF, 0x8000, 0xFFFF, x.wrapping_add(1), x.wrapping_sub(1)];
            vals.sort();
            vals.dedup();
            for val in vals {
                if val != x {
                    v.push(Fault::U16 { off: p, val });
                }
            }
        }
    }
    if opts.u32_faults {
        for &p in pos.iter().filter(|p| *p % 4 == 0 && *p + 4 <= n) {
            let x = u32_at(seed, p);
            let l = n as u32;
            let mut vals = vec![0, 1, 0x7FFF_FFFF, 0x8000_0000, 0xFFFF_FFFF, x.wrapping_add(1), x.wrapping_sub(1), l, l.wrapping_sub(1), l.wrapping_add(1)];
            vals.sort();
            vals.dedup();
            for val in vals {
                if val != x {
                    v.push(Fault::U32 { off: p, val });
                }
            }
        }
    }
    if opts.truncations {
        if opts.head_bytes == 0 {
            for len in 0..n {
                v.push(Fault::Truncate { len });
            }
        } else {
            // table boundaries +-1 and every prefix of the first 64 bytes
            let mut lens: Vec<usize> = (0..64.min(n)).collect();
            if let Some(f) = sfnt::parse(seed) {
                for e in &f.dir {
                    for d in [-1i64, 0, 1, 2, 4, 8] {
                        for base in [e.offset as i64, e.offset as i64 + e.length as i64] {
                            let l = base + d;
                            if l >= 0 && (l as usize) < n {
                                lens.push(l as usize);
                            }
                        }
                    }
                }
            }
            lens.push(n.saturating_sub(1));
            lens.sort();
            lens.dedup();
            for len in lens {
                v.push(Fault::Truncate { len });
            }
        }
    }
    if opts.structure {
        if let Some(f) = sfnt::parse(seed) {
            let t = f.dir.len().min(64);
            for idx in 0..t {
                v.push(Fault::RemoveTable { idx });
                v.push(Fault::EmptyTable { idx });
                for tg in RETAGS {
                    if f.dir[idx].tag != tg {
                        v.push(Fault::Retag { idx, tag: tg });
                    }
                }
            }
            for i in 0..t {
                for j in i + 1..t {
                    v.push(Fault::SwapRecords { i, j });
                }
            }
        }
    }
    if opts.pairs > 0 {
        let wide = opts.pairs >= 2;
        let near = if wide { 32 } else { 8 };
        let head = if wide { 32 } else { 8 };
        // bound 2: coupled pairs of u16 positions, each taking {0, 0xFFFF, v+1}
        let vals = |x: u16| [0u16, 0xFFFF, x.wrapping_add(1)];
        let even: Vec<usize> = (0..n.saturating_sub(1)).step_by(2).collect();
        let mut pairs: Vec<(usize, usize)> = Vec::new();
        if n < 600 && wide {
            for (a, &p) in even.iter().enumerate() {
                for &q in &even[a + 1..] {
                    pairs.push((p, q));
                }
            }
        } else {
            for (a, &p) in even.iter().enumerate() {
                for &q in even[a + 1..].iter().take_while(|q| **q - p <= near) {
                    pairs.push((p, q));
                }
            }
            if let Some(f) = sfnt::parse(seed) {
                for (k, e) in f.dir.iter().enumerate() {
                    let rec = 12 + 16 * k;
                    for p in (rec..rec + 16).step_by(2) {
                        let s = e.offset as usize;
                        for q in (s..s.saturating_add(head).min(n.saturating_sub(1))).step_by(2) {
                            if q > p + near && q % 2 == 0 {
                                pairs.push((p, q));
                            }
                        }
                    }
                }
            }
        }
        for (p, q) in pairs {
            for a in vals(u16_at(seed, p)) {
                for b in vals(u16_at(seed, q)) {
                    v.push(Fault::Pair(Box::new(Fault::U16 { off: p, val: a }), Box::new(Fault::U16 { off: q, val: b })));
                }
            }
        }
    }
    v
}

pub fn apply(seed: &[u8], f: &Fault) -> Vec<u8> {
    let mut b = seed.to_vec();
    apply_in_place(&mut b, seed, f);
    b
}

fn apply_in_place(b: &mut Vec<u8>, seed: &[u8], f: &Fault) {
    match f {
        Fault::Byte { off, val } => b[*off] = *val,
        Fault::U16 { off, val } => b[*off..*off + 2].copy_from_slice(&val.to_be_bytes()),
        Fault::U32 { off, val } => b[*off..*off + 4].copy_from_slice(&val.to_be_bytes()),
        Fault::Truncate { len } => b.truncate(*len),
        Fault::RemoveTable { idx } => {
            // drop the directory record (numTables - 1); data stays where it is
            let n = u16_at(seed, 4) as usize;
            let rec = 12 + 16 * idx;
            if rec + 16 <= b.len() && n > 0 {
                b.drain(rec..rec + 16);
                b[4..6].copy_from_slice(&((n - 1) as u16).to_be_bytes());
                // offsets of the remaining records shift by -16
                for k in 0..n - 1 {
                    let r = 12 + 16 * k;
                    if r + 16 <= b.len() {
                        let o = u32_at(b, r + 8).wrapping_sub(16);
                        b[r + 8..r + 12].copy_from_slice(&o.to_be_bytes());
                    }
                }
            }
        }
        Fault::EmptyTable { idx } => {
            let rec = 12 + 16 * idx;
            if rec + 16 <= b.len() {
                b[rec + 12..rec + 16].copy_from_slice(&0u32.to_be_bytes());
            }
        }
        Fault::SwapRecords { i, j } => {
            // exchange offset/length of two records (tags stay): each tag now names the other's data
            let (ri, rj) = (12 + 16 * i + 8, 12 + 16 * j + 8);
            if rj + 8 <= b.len() {
                for k in 0..8 {
                    b.swap(ri + k, rj + k);
                }
            }
        }
        Fault::Retag { idx, tag } => {
            let rec = 12 + 16 * idx;
            if rec + 4 <= b.len() {
                b[rec..rec + 4].copy_from_slice(&tag.to_be_bytes());
            }
        }
        Fault::Pair(x, y) => {
            apply_in_place(b, seed, x);
            apply_in_place(b, seed, y);
        }
    }
}

/// the bytes handed to allsorts for a mutant
pub fn present(seed: &Seed, mutant: Vec<u8>) -> Vec<u8> {
    match seed.wrap {
        Wrap::Raw => mutant,
        Wrap::Woff => match sfnt::parse(&mutant) {
            Some(f) => {
                let mut tables: Vec<(u32, Vec<u8>)> = Vec::new();
                for e in &f.dir {
                    if tables.iter().any(|t| t.0 == e.tag) {
                        continue;
                    }
                    let s = e.offset as usize;
                    let d = mutant.get(s..s.saturating_add(e.length as usize).min(mutant.len())).unwrap_or(&[]).to_vec();
                    tables.push((e.tag, d));
                }
                let compress = vec![true; tables.len()];
                sfnt::build_woff(f.flavor, &tables, &compress, None, None).0
            }
            None => mutant,
        },
    }
}

/// Which part of the file a fault touches (for known-finding keys): "directory", a table tag, "truncation",
/// "structure", or "gap".
pub fn region(seed: &[u8], f: &Fault) -> String {
    let at = |off: usize| -> String {
        if let Some(sf) = sfnt::parse(seed) {
            if off < 12 + 16 * sf.dir.len() {
                return "directory".into();
            }
            for e in &sf.dir {
                let s = e.offset as usize;
                if off >= s && off < s + e.length as usize {
                    return otmodel::tag_str(e.tag).trim().to_string();
                }
            }
            "gap".into()
        } else if off < 64 {
            "header".into()
        } else {
            "body".into()
        }
    };
    match f {
        Fault::Byte { off, .. } | Fault::U16 { off, .. } | Fault::U32 { off, .. } => at(*off),
        Fault::Truncate { .. } => "truncation".into(),
        Fault::RemoveTable { .. } | Fault::EmptyTable { .. } | Fault::SwapRecords { .. } | Fault::Retag { .. } => "structure".into(),
        Fault::Pair(x, y) => {
            let (a, b) = (region(seed, x), region(seed, y));
            if a == b {
                a
            } else {
                format!("{}+{}", a, b)
            }
        }
    }
}

pub fn describe(f: &Fault) -> String {
    match f {
        Fault::Byte { off, val } => format!("byte@{:#x}={:#04x}", off, val),
        Fault::U16 { off, val } => format!("u16@{:#x}={:#06x}", off, val),
        Fault::U32 { off, val } => format!("u32@{:#x}={:#010x}", off, val),
        Fault::Truncate { len } => format!("truncate-to-{}", len),
        Fault::RemoveTable { idx } => format!("remove-table#{}", idx),
        Fault::EmptyTable { idx } => format!("empty-table#{}", idx),
        Fault::SwapRecords { i, j } => format!("swap-records#{}#{}", i, j),
        Fault::Retag { idx, tag } => format!("retag#{}->{}", idx, otmodel::tag_str(*tag)),
        Fault::Pair(x, y) => format!("{} & {}", describe(x), describe(y)),
    }
}
