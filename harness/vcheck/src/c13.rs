//! C13 — user coordinates normalise per fvar and avar.
//!
//! Exhaustive enumeration of axis triples x avar segment maps x user values (boundary menu; thorough:
//! every F2Dot14 grid value with sub-unit offsets for unit axes), evaluated by `FvarTable::normalize` on
//! tables produced by an independent encoder, against exact rational arithmetic. Plus exhaustive sweeps
//! of the fixed-point conversions.

use allsorts::binary::read::ReadScope;
use allsorts::tables::variable_fonts::avar::AvarTable;
use allsorts::tables::variable_fonts::fvar::FvarTable;
use allsorts::tables::{F2Dot14, Fixed};
use mcx::{guard, Ctx, H};
use otmodel::be::W;
use rayon::prelude::*;
use serde_json::{json, Value};

fn fvar_bytes(axes: &[(i32, i32, i32)]) -> Vec<u8> {
    let mut w = W::new();
    let n = axes.len() as u16;
    w.u16(1).u16(0).u16(16).u16(2).u16(n).u16(20).u16(0).u16(4 * n + 4);
    for (i, (min, def, max)) in axes.iter().enumerate() {
        w.u32(otmodel::tag(b"ax00") + i as u32).i32(*min).i32(*def).i32(*max).u16(0).u16(256 + i as u16);
    }
    w.done()
}

type Knots = Vec<(i16, i16)>;

/// `axis_size`: the header's axisSize (20 = the fields defined today; a larger value is legitimate room for future fields,
/// filled with 0xA5 here, and readers must step through the axis records by it)
/// `axes_offset`: the header's axesArrayOffset (16 = directly behind the header; a larger value leaves a gap, filled with
/// 0x5A, that readers must skip).
fn fvar_bytes_flags(axes: &[(i32, i32, i32)], flags: &[u16], axis_size: u16, axes_offset: u16) -> Vec<u8> {
    let mut w = W::new();
    let n = axes.len() as u16;
    w.u16(1).u16(0).u16(axes_offset).u16(2).u16(n).u16(axis_size).u16(0).u16(4 * n + 4);
    for _ in 16..axes_offset {
        w.u8(0x5A);
    }
    for (i, (min, def, max)) in axes.iter().enumerate() {
        w.u32(otmodel::tag(b"ax00") + i as u32).i32(*min).i32(*def).i32(*max).u16(flags[i]).u16(256 + i as u16);
        for _ in 20..axis_size {
            w.u8(0xA5);
        }
    }
    w.done()
}

fn avar_bytes(maps: &[Knots]) -> Vec<u8> {
    let mut w = W::new();
    w.u16(1).u16(0).u16(0).u16(maps.len() as u16);
    for m in maps {
        w.u16(m.len() as u16);
        for (f, t) in m {
            w.i16(*f).i16(*t);
        }
    }
    w.done()
}

/// exact default normalisation: returns (num, den) with den > 0, value in [-1, 1]
fn default_norm(min: i64, def: i64, max: i64, u: i64) -> (i128, i128) {
    let u = u.clamp(min, max);
    if u < def {
        (-((def - u) as i128), (def - min) as i128)
    } else if u > def {
        ((u - def) as i128, (max - def) as i128)
    } else {
        (0, 1)
    }
}

/// exact avar map on x = num/den (in [-1,1]); returns value in 2.14 units as (num, den) and the largest slope
/// (as a rational sn/sd >= 0) of the segment(s) touching x.
fn avar_map(knots: &Knots, num: i128, den: i128) -> ((i128, i128), (i128, i128)) {
    // x in 2.14 units: X = num*16384/den
    let xn = num * 16384;
    if knots.len() < 2 {
        return ((xn, den), (1, 1));
    }
    let mut slope: (i128, i128) = (0, 1);
    let mut result: Option<(i128, i128)> = None;
    for w in knots.windows(2) {
        let (fs, ts) = (w[0].0 as i128, w[0].1 as i128);
        let (fe, te) = (w[1].0 as i128, w[1].1 as i128);
        // fs*den <= xn <= fe*den ?
        if fs * den <= xn && xn <= fe * den && fe > fs {
            let sl = ((te - ts).abs(), fe - fs);
            if sl.0 * slope.1 > slope.0 * sl.1 {
                slope = sl;
            }
            if result.is_none() {
                // y = ts + (X - fs) * (te - ts)/(fe - fs)  with X = xn/den
                let yn = ts * den * (fe - fs) + (xn - fs * den) * (te - ts);
                result = Some((yn, den * (fe - fs)));
            }
        }
    }
    (result.unwrap_or((xn, den)), slope)
}

struct Case<'a> {
    axis: (i32, i32, i32),
    knots: Option<&'a Knots>,
}

fn check_axis(ctx: &Ctx, case: &Case<'_>, users: &[i32]) -> u64 {
    let (min, def, max) = case.axis;
    let fv = fvar_bytes(&[case.axis]);
    let av = case.knots.map(|k| avar_bytes(&[k.clone()]));
    let fvar = match ReadScope::new(&fv).read::<FvarTable<'_>>() {
        Ok(f) => f,
        Err(e) => {
            ctx.violation("C13:wellformed-fvar-rejected", || json!({"axis": [min, def, max], "error": format!("{:?}", e)}));
            return 0;
        }
    };
    let avar = match &av {
        Some(b) => match ReadScope::new(b).read::<AvarTable<'_>>() {
            Ok(a) => Some(a),
            Err(e) => {
                ctx.violation("C13:wellformed-avar-rejected", || json!({"knots": case.knots, "error": format!("{:?}", e)}));
                return 0;
            }
        },
        None => None,
    };
    let desc = |u: i32| json!({"axis_min_def_max_16.16": [min, def, max], "avar_knots_2.14": case.knots, "user_16.16": u});
    let mut prev: Option<(i32, i16)> = None;
    let mut n = 0;
    let mut hout = H::new();
    for &u in users {
        n += 1;
        let r = guard(|| fvar.normalize([Fixed::from_raw(u)].iter().copied(), avar.as_ref()));
        let got = match r {
            Err(p) => {
                ctx.violation(&format!("C13:panic:{}", p.site_key("/repo")), || json!({"case": desc(u), "panic": p.msg}));
                continue;
            }
            Ok(Err(e)) => {
                ctx.violation("C13:valid-input-rejected", || json!({"case": desc(u), "error": format!("{:?}", e)}));
                continue;
            }
            Ok(Ok(t)) => {
                if t.len() != 1 {
                    ctx.violation("C13:tuple-length", || json!({"case": desc(u), "len": t.len()}));
                    continue;
                }
                t[0].raw_value()
            }
        };
        hout = hout.u64(got as u16 as u64);
        let (dn, dd) = default_norm(min as i64, def as i64, max as i64, u as i64);
        let ((en, ed), (sn, sd)) = match case.knots {
            Some(k) => avar_map(k, dn, dd),
            None => ((dn * 16384, dd), (1, 1)),
        };
        // clamp expected to [-16384, 16384]
        let (en, ed) = if en > 16384 * ed { (16384, 1) } else if en < -16384 * ed { (-16384, 1) } else { (en, ed) };
        // tolerance in 2.14 units: max(1, slope)
        let (tn, td) = if sn > sd { (sn, sd) } else { (1, 1) };
        // |got - en/ed| <= tn/td   <=>  |got*ed - en| * td <= tn * ed
        let diff = (got as i128 * ed - en).abs();
        if diff * td > tn * ed {
            let big = (max as i64 - min as i64) > i32::MAX as i64 || (max as i64 - def as i64) > i32::MAX as i64 || (def as i64 - min as i64) > i32::MAX as i64;
            let key = if big { "C13:axis-range-wider-than-32768-overflows-16.16" } else if case.knots.is_some() { "C13:avar:value-outside-tolerance" } else { "C13:default-normalisation:value-outside-tolerance" };
            ctx.violation(key, || json!({"case": desc(u), "expected_2.14": en as f64 / ed as f64, "got_2.14": got, "tolerance_units": tn as f64 / td as f64}));
        }
        // exact landmarks
        if min < def && u == min && case.knots.map_or(true, |k| k.first() == Some(&(-16384, -16384))) && got != -16384 {
            ctx.violation("C13:minimum-does-not-map-to-minus-one", || json!({"case": desc(u), "got_2.14": got}));
        }
        if u == def && got != 0 {
            ctx.violation("C13:default-does-not-map-to-zero", || json!({"case": desc(u), "got_2.14": got}));
        }
        if def < max && u == max && got != 16384 {
            ctx.violation("C13:maximum-does-not-map-to-plus-one", || json!({"case": desc(u), "got_2.14": got}));
        }
        if !(-16384..=16384).contains(&got) {
            ctx.violation("C13:result-outside-minus-one-plus-one", || json!({"case": desc(u), "got_2.14": got}));
        }
        // monotone (users are sorted ascending; all enumerated avar maps are monotone)
        if let Some((pu, pg)) = prev {
            if pg > got {
                let big = (max as i64 - min as i64) > i32::MAX as i64;
                let key = if big { "C13:axis-range-wider-than-32768-overflows-16.16" } else { "C13:not-monotone" };
                ctx.violation(key, || json!({"case": desc(u), "previous_user": pu, "previous_result": pg, "result": got}));
            }
        }
        prev = Some((u, got));
    }
    ctx.mark_outcome(hout.get());
    n
}

fn user_values(axis: (i32, i32, i32), knots: Option<&Knots>) -> Vec<i32> {
    let (min, def, max) = (axis.0 as i64, axis.1 as i64, axis.2 as i64);
    let mut v: Vec<i64> = vec![i32::MIN as i64, i32::MAX as i64, 0, 65536, -65536];
    let mut marks = vec![min, def, max, (min + def) / 2, (def + max) / 2, (3 * min + def) / 4, (def + 3 * max) / 4];
    if let Some(k) = knots {
        // pre-images of the knots under default normalisation
        for (f, _) in k {
            let f = *f as i64;
            if f < 0 {
                marks.push(def + (def - min) * f / 16384);
            } else {
                marks.push(def + (max - def) * f / 16384);
            }
        }
    }
    if let Some(k) = knots {
        // points strictly inside every avar segment (midpoint and quarter points of the knot pre-images): closely
        // spaced knots amplify any loss of precision in the segment interpolation
        let pre = |f: i64| if f < 0 { def + (def - min) * f / 16384 } else { def + (max - def) * f / 16384 };
        for w in k.windows(2) {
            let (a, b) = (pre(w[0].0 as i64), pre(w[1].0 as i64));
            marks.push((a + b) / 2);
            marks.push((3 * a + b) / 4);
            marks.push((a + 3 * b) / 4);
        }
    }
    for m in marks {
        for d in -2..=2 {
            v.push(m + d);
        }
    }
    let mut v: Vec<i32> = v.into_iter().filter(|x| *x >= i32::MIN as i64 && *x <= i32::MAX as i64).map(|x| x as i32).collect();
    v.sort();
    v.dedup();
    v
}

/// all valid avar maps with up to `max_interior` interior knots
fn avar_maps(max_interior: usize) -> Vec<Knots> {
    let q = |x: f64| (x * 16384.0) as i16;
    let froms = [-0.75, -0.5, -0.25, 0.25, 0.5, 0.75];
    let tos = [-0.75, -0.5, -0.25, 0.25, 0.5, 0.75];
    let mut out: Vec<Knots> = Vec::new();
    // choose subsets of interior froms, and for each a to-value of the same sign region, non-decreasing
    fn rec(i: usize, froms: &[f64], tos: &[f64], cur: &mut Vec<(f64, f64)>, max: usize, out: &mut Vec<Vec<(f64, f64)>>) {
        if i == froms.len() {
            out.push(cur.clone());
            return;
        }
        rec(i + 1, froms, tos, cur, max, out);
        if cur.len() < max {
            for &t in tos {
                // keep sign so that 0 -> 0 stays between, and non-decreasing
                if (froms[i] < 0.0) != (t < 0.0) {
                    continue;
                }
                if let Some(&(_, pt)) = cur.last() {
                    if t < pt {
                        continue;
                    }
                }
                cur.push((froms[i], t));
                rec(i + 1, froms, tos, cur, max, out);
                cur.pop();
            }
        }
    }
    let mut raw = Vec::new();
    rec(0, &froms, &tos, &mut Vec::new(), max_interior, &mut raw);
    for r in raw {
        let mut k: Knots = vec![(-16384, -16384)];
        let mut zero_done = false;
        for (f, t) in r {
            if f > 0.0 && !zero_done {
                k.push((0, 0));
                zero_done = true;
            }
            k.push((q(f), q(t)));
        }
        if !zero_done {
            k.push((0, 0));
        }
        k.push((16384, 16384));
        out.push(k);
    }
    // maps with closely spaced knots (a finely sampled curve): 4 knots `spacing` units of 2.14 apart starting at +-0.25 /
    // -0.5, slope 1/2, 1 or 2 between them
    for &base in &[4096i32, -8192] {
        for &spacing in &[1i32, 2, 16, 256] {
            for &(sn, sd) in &[(1i32, 1i32), (2, 1), (1, 2)] {
                if (spacing * sn) % sd != 0 {
                    continue;
                }
                let mut k: Knots = vec![(-16384, -16384)];
                let interior: Vec<(i16, i16)> = (0..4).map(|i| ((base + i * spacing) as i16, (base + i * spacing * sn / sd) as i16)).collect();
                if base > 0 {
                    k.push((0, 0));
                }
                k.extend(interior);
                if base < 0 {
                    k.push((0, 0));
                }
                k.push((16384, 16384));
                debug_assert!(k.windows(2).all(|w| w[0].0 < w[1].0 && w[0].1 <= w[1].1));
                out.push(k);
            }
        }
    }
    // maps whose to-coordinates leave [-1, 1] (2.14 can hold [-2, 2)): at an interior knot, at the final knot, on the negative
    // side - the result must still be clamped to [-1, 1] whether the value hits a knot exactly or falls inside a segment
    for k in [
        vec![(-16384i16, -16384i16), (0, 0), (8192, 20480), (16384, 24576)],
        vec![(-16384, -16384), (0, 0), (8192, 16384), (16384, 20480)],
        vec![(-16384, -16384), (0, 0), (8192, 4096), (16384, 24576)],
        vec![(-16384, -24576), (-8192, -20480), (0, 0), (16384, 16384)],
        vec![(-16384, -20480), (0, 0), (16384, 20480)],
    ] {
        debug_assert!(k.windows(2).all(|w| w[0].0 < w[1].0 && w[0].1 <= w[1].1));
        out.push(k);
    }
    out
}

fn run_normalize(ctx: &Ctx) {
    let thorough = ctx.tier.thorough();
    // axis landmark values in 16.16 raw units
    let vals: Vec<i32> = [-32768.0f64, -1000.0, -1.0, -0.5, 0.0, 1.0, 100.0, 400.0, 900.0, 1000.0, 32767.0].iter().map(|v| (*v * 65536.0) as i64).map(|v| v.clamp(i32::MIN as i64, i32::MAX as i64) as i32).collect();
    let mut axes = Vec::new();
    for &a in &vals {
        for &b in &vals {
            for &c in &vals {
                if a <= b && b <= c {
                    axes.push((a, b, c));
                }
            }
        }
    }
    let maps = avar_maps(if thorough { 3 } else { 2 });
    ctx.set("axis_triples", json!(axes.len()));
    ctx.set("avar_maps", json!(maps.len()));
    // every axis x {no avar} and every axis x every map
    let mut cases: Vec<(usize, Option<usize>)> = Vec::new();
    for a in 0..axes.len() {
        cases.push((a, None));
        for m in 0..maps.len() {
            cases.push((a, Some(m)));
        }
    }
    ctx.add_states(cases.len() as u64 + axes.len() as u64 + 1);
    let total: u64 = cases
        .par_iter()
        .map(|&(a, m)| {
            let knots = m.map(|m| &maps[m]);
            let users = user_values(axes[a], knots);
            let n = check_axis(ctx, &Case { axis: axes[a], knots }, &users);
            let h = H::new().u64(a as u64).u64(m.map_or(u64::MAX, |m| m as u64)).get();
            if knots.map_or(false, |k| k.len() > 3) || axes[a].0 != axes[a].2 {
                ctx.mark_nontrivial(h);
            }
            ctx.sample(h, || json!({"axis_16.16": axes[a], "avar_knots_2.14": knots, "user_values": users.len()}));
            n
        })
        .sum();
    ctx.evals(total);
    ctx.add_transitions(total);
    ctx.add_states(total);

    if thorough {
        // unit axes: every F2Dot14 grid value x 4 sub-unit offsets, per map
        let unit_axes = [(-65536, 0, 65536), (0, 0, 65536), (-65536, 0, 0)];
        let users: Vec<i32> = (-16385i32 * 4..=16385 * 4).collect();
        let mut cases2: Vec<((i32, i32, i32), Option<usize>)> = Vec::new();
        for ax in unit_axes {
            cases2.push((ax, None));
            for m in 0..maps.len() {
                cases2.push((ax, Some(m)));
            }
        }
        let total: u64 = cases2
            .par_iter()
            .map(|&(ax, m)| check_axis(ctx, &Case { axis: ax, knots: m.map(|m| &maps[m]) }, &users))
            .sum();
        ctx.evals(total);
        ctx.add_transitions(total);
        ctx.add_states(total);
        ctx.set("full_grid_sweeps", json!(cases2.len()));
    }

    // wrong tuple length is rejected
    for n_axes in 1..=3usize {
        let fv = fvar_bytes(&vec![(0, 0, 65536); n_axes]);
        let fvar = ReadScope::new(&fv).read::<FvarTable<'_>>().unwrap();
        for len in 0..=4usize {
            let t: Vec<Fixed> = vec![Fixed::from_raw(0); len];
            let r = guard(|| fvar.normalize(t.iter().copied(), None).map(|t| t.len()));
            ctx.evals(1);
            match r {
                Ok(Ok(l)) if len == n_axes && l == n_axes => {}
                Ok(Err(_)) if len != n_axes => {}
                o => ctx.violation("C13:tuple-length-check", || json!({"axes": n_axes, "tuple_len": len, "result": format!("{:?}", o)})),
            }
        }
    }
    // Several axes: each axis is normalised independently, with its own avar segment map - which may be EMPTY (count 0:
    // the axis keeps its default normalisation) - and whatever its fvar flags say (HIDDEN_AXIS only concerns user
    // interfaces). All combinations of 4 map kinds x hidden flag x 4 user positions on 3 axes.
    let three = [(0, 0, 65536 * 100), (-65536 * 10, 0, 65536 * 10), (65536 * 8, 65536 * 12, 65536 * 144)];
    let kinds: [Knots; 4] = [
        vec![],
        vec![(-16384, -16384), (0, 0), (16384, 16384)],
        vec![(-16384, -16384), (0, 0), (8192, 4096), (16384, 16384)],
        vec![(-16384, -16384), (-8192, -12288), (0, 0), (16384, 16384)],
    ];
    let user_of = |ax: (i32, i32, i32), k: usize| -> i32 {
        match k {
            0 => ax.1,
            1 => ax.0,
            2 => ax.2,
            _ => ((ax.1 as i64 + ax.2 as i64) / 2) as i32,
        }
    };
    // (axisSize, axesArrayOffset) forms of the same table
    let combos: Vec<(usize, usize, usize, (u16, u16))> = [(20u16, 16u16), (24, 16), (22, 16), (20, 20), (24, 28)].iter().flat_map(|&sz| (0..64).flat_map(move |m| (0..8).flat_map(move |f| (0..64).map(move |u| (m, f, u, sz))))).collect();
    let n_multi: u64 = combos
        .par_iter()
        .map(|&(m, f, u, (axis_size, axes_offset))| {
            let mi = [m % 4, (m / 4) % 4, m / 16];
            let fl = [(f & 1) as u16, ((f >> 1) & 1) as u16, ((f >> 2) & 1) as u16];
            let ui = [u % 4, (u / 4) % 4, u / 16];
            let fv = fvar_bytes_flags(&three, &fl, axis_size, axes_offset);
            let av = avar_bytes(&[kinds[mi[0]].clone(), kinds[mi[1]].clone(), kinds[mi[2]].clone()]);
            let users: Vec<i32> = (0..3).map(|i| user_of(three[i], ui[i])).collect();
            let desc = || json!({"axes_16.16": three, "axis_flags": fl, "fvar_axisSize": axis_size, "fvar_axesArrayOffset": axes_offset, "avar_maps": [&kinds[mi[0]], &kinds[mi[1]], &kinds[mi[2]]], "users_16.16": users});
            let r = guard(|| {
                let fvar = ReadScope::new(&fv).read::<FvarTable<'_>>().map_err(|e| format!("fvar {:?}", e))?;
                let avar = ReadScope::new(&av).read::<AvarTable<'_>>().map_err(|e| format!("avar {:?}", e))?;
                fvar.normalize(users.iter().map(|u| Fixed::from_raw(*u)), Some(&avar)).map(|t| t.iter().map(|v| v.raw_value()).collect::<Vec<i16>>()).map_err(|e| format!("normalize {:?}", e))
            });
            let expect: Vec<f64> = (0..3)
                .map(|i| {
                    let (n, d) = default_norm(three[i].0 as i64, three[i].1 as i64, three[i].2 as i64, users[i] as i64);
                    if kinds[mi[i]].is_empty() {
                        (n * 16384) as f64 / d as f64
                    } else {
                        let ((en, ed), _) = avar_map(&kinds[mi[i]], n, d);
                        en as f64 / ed as f64
                    }
                })
                .collect();
            match r {
                Ok(Ok(got)) if got.len() == 3 && (0..3).all(|i| (got[i] as f64 - expect[i]).abs() <= 1.5) => {}
                Ok(Ok(got)) => ctx.violation("C13:several-axes:value", || json!({"case": desc(), "expected_2.14": expect, "got_2.14": got})),
                Ok(Err(e)) => ctx.violation("C13:several-axes:wellformed-tables-rejected", || json!({"case": desc(), "error": e})),
                Err(p) => ctx.violation(&format!("C13:panic:{}", p.site_key("/repo")), || json!({"case": desc(), "panic": p.msg})),
            }
            1u64
        })
        .sum();
    ctx.evals(n_multi);
    ctx.add_states(n_multi);
    ctx.add_transitions(n_multi);
    ctx.set("several_axes_cases", json!(n_multi));
}

fn run_conversions(ctx: &Ctx) {
    // all 65536 F2Dot14 values: F2Dot14 -> Fixed -> F2Dot14 is the identity, Fixed value = raw << 2
    for raw in i16::MIN..=i16::MAX {
        let f = F2Dot14::from_raw(raw);
        let fx = Fixed::from(f);
        if fx.raw_value() != (raw as i32) << 2 {
            ctx.violation("C13:conv:f2dot14-to-fixed", || json!({"raw": raw, "got": fx.raw_value()}));
        }
        if F2Dot14::from(fx).raw_value() != raw {
            ctx.violation("C13:conv:f2dot14-fixed-roundtrip", || json!({"raw": raw, "got": F2Dot14::from(fx).raw_value()}));
        }
        let fl = f32::from(f);
        if fl != raw as f32 / 16384.0 {
            ctx.violation("C13:conv:f2dot14-to-f32", || json!({"raw": raw, "got": fl}));
        }
        // f32 -> F2Dot14 of an exactly representable value
        let g = guard(|| F2Dot14::from(fl).raw_value());
        if g != Ok(raw) {
            ctx.violation("C13:conv:f32-to-f2dot14-exact-value", || json!({"raw": raw, "got": format!("{:?}", g)}));
        }
    }
    // 16.16 -> 2.14: add 2 and shift right by 2 (sign extending) for every 16.16 value in [-2, 2)
    for x in -131072i32..131070 {
        let got = F2Dot14::from(Fixed::from_raw(x)).raw_value();
        let want = ((x + 2) >> 2) as i16;
        if got != want {
            ctx.violation("C13:conv:fixed-to-f2dot14", || json!({"raw_16.16": x, "expected": want, "got": got}));
        }
    }
    // f32 -> 16.16 for every f32 with <= 17 fractional bits in (-4, 4): expected round-half-away-from-zero of v * 65536
    let bad: Vec<(i32, i32, i32)> = (-(4 << 17)..(4 << 17))
        .into_par_iter()
        .filter_map(|k: i32| {
            let v = k as f32 / 131072.0;
            let want = {
                let a = (k.abs() as i64 + 1) / 2; // |v|*65536 rounded half up
                (a as i32) * k.signum()
            };
            match guard(|| Fixed::from(v).raw_value()) {
                Ok(g) if g == want => None,
                Ok(g) => Some((k, want, g)),
                Err(_) => Some((k, want, i32::MIN)),
            }
        })
        .collect();
    for (k, want, got) in bad.iter().take(100000) {
        let carry = (k.abs() as i64 + 1) / 2 % 65536 == 0 && k.abs() % 2 == 1;
        let key = if carry { "C13:conv:f32-to-fixed-loses-carry-from-fraction" } else { "C13:conv:f32-to-fixed" };
        ctx.violation(key, || json!({"f32": *k as f64 / 131072.0, "expected_raw": want, "got_raw": got}));
    }
    // f32 -> 2.14 for every f32 with <= 15 fractional bits whose rounded value is representable
    let bad: Vec<(i32, i32, i32)> = (-(2 << 15)..(2 << 15))
        .into_par_iter()
        .filter_map(|k: i32| {
            let v = k as f32 / 32768.0;
            let a = (k.abs() as i64 + 1) / 2;
            let want = (a as i32) * k.signum();
            if want > i16::MAX as i32 || want < i16::MIN as i32 + 1 {
                return None;
            }
            match guard(|| F2Dot14::from(v).raw_value() as i32) {
                Ok(g) if g == want => None,
                Ok(g) => Some((k, want, g)),
                Err(_) => Some((k, want, i32::MIN)),
            }
        })
        .collect();
    for (k, want, got) in bad {
        let carry = (k.abs() as i64 + 1) / 2 % 16384 == 0 && k.abs() % 2 == 1;
        let key = if carry { "C13:conv:f32-to-f2dot14-loses-carry-from-fraction" } else { "C13:conv:f32-to-f2dot14" };
        ctx.violation(key, || json!({"f32": k as f64 / 32768.0, "expected_raw": want, "got_raw": got}));
    }
    let n = 65536u64 + 262144 + (8 << 17) + (4 << 15);
    ctx.evals(n);
    ctx.add_states(n);
    ctx.add_transitions(n);
    ctx.mark_nontrivial(H::new().str("conversions").get());
}

/// An `avar` table that is present but does not parse must make `variations::instance` fail: carrying on without it
/// silently normalises with the default rule only, i.e. to other coordinates than the font prescribes. Every way of making
/// the fixture's avar unparsable from a small menu (major version, truncation inside the header / inside every segment map,
/// a position-map count that runs past the table) x user tuples where the maps matter.
fn run_unparsable_avar(ctx: &Ctx) {
    use allsorts::font_data::FontData;
    let data = crate::util::fixture("fonts/opentype/NotoSans-VF.abc.ttf");
    let Some(f) = otmodel::sfnt::parse(&data) else { return };
    let Some(avar) = f.table(otmodel::tag(b"avar")) else { return };
    let mut variants: Vec<(String, Vec<u8>)> = Vec::new();
    for v in [0u16, 2, 0xFFFF] {
        let mut a = avar.to_vec();
        a[0..2].copy_from_slice(&v.to_be_bytes());
        variants.push((format!("majorVersion {}", v), a));
    }
    for cut in [1usize, 2, 3, 5, 7, 9] {
        if avar.len() > cut {
            variants.push((format!("last {} bytes missing", cut), avar[..avar.len() - cut].to_vec()));
        }
    }
    for keep in [0usize, 4, 7, 8, 10] {
        if avar.len() > keep {
            variants.push((format!("only the first {} bytes", keep), avar[..keep].to_vec()));
        }
    }
    {
        let mut a = avar.to_vec();
        a[8..10].copy_from_slice(&0x7FFFu16.to_be_bytes()); // positionMapCount of the first segment map
        variants.push(("first positionMapCount 0x7FFF".into(), a));
    }
    let users: [[i32; 3]; 3] = [[250 << 16, 80 << 16, 50 << 16], [900 << 16, 62 << 16 | 0x8000, 0], [100 << 16, 100 << 16, 100 << 16]];
    let mut n = 0u64;
    for (what, bad) in &variants {
        // does allsorts' own reader reject this table? (only then is the instance required to fail)
        let rejected = guard(|| ReadScope::new(bad).read::<AvarTable<'_>>().is_err()).unwrap_or(true);
        let tables: Vec<(u32, Vec<u8>)> = f.dir.iter().map(|e| (e.tag, if e.tag == otmodel::tag(b"avar") { bad.clone() } else { f.table(e.tag).unwrap_or(&[]).to_vec() })).collect();
        let font = otmodel::sfnt::build_with(otmodel::sfnt::TTF, &tables, &otmodel::sfnt::BuildOpts { fix_head_adjustment: true, ..Default::default() });
        for u in &users {
            n += 1;
            let user: Vec<Fixed> = u.iter().map(|x| Fixed::from_raw(*x)).collect();
            let r = guard(|| {
                let fd = ReadScope::new(&font).read::<FontData<'_>>().map_err(|e| format!("{:?}", e))?;
                let p = fd.table_provider(0).map_err(|e| format!("{:?}", e))?;
                allsorts::variations::instance(&p, &user).map(|(_, t)| format!("{:?}", t)).map_err(|e| format!("{:?}", e))
            });
            match r {
                Err(p) => ctx.violation(&format!("C13:panic:{}", p.site_key("/repo")), || json!({"avar": what, "user_16.16": u, "panic": p.msg})),
                Ok(Ok(t)) if rejected => ctx.violation("C13:instance:unparsable-avar-ignored", || json!({"avar": what, "user_16.16": u, "instance_succeeded_at_tuple": t, "note": "AvarTable::read rejects this table, so the instance cannot have applied the font's segment maps"})),
                _ => {}
            }
        }
    }
    ctx.evals(n);
    ctx.add_states(n);
    ctx.add_transitions(n);
    ctx.set("unparsable_avar_cases", json!(n));
}

pub fn run(ctx: &Ctx) {
    ctx.set_rule(
        "case = (axis triple min<=def<=max from an 11-value landmark menu incl. degenerate and extreme values) x (no avar | every valid \
         avar map with <= 2 (thorough 3) interior knots from +-{0.25,0.5,0.75}) x (user values: every axis landmark, midpoint, knot \
         pre-image +-2 raw units, i32 extremes; thorough: every 2.14 grid value x 4 sub-unit offsets on unit axes); non-trivial = non-degenerate \
         axis or avar map with interior knots; distinct by (axis, map)",
    );
    ctx.assume("tolerance = max(1, slope of the avar segment in use) units of 2.14, as the property states");
    ctx.assume("avar maps enumerated are valid: from strictly increasing, to non-decreasing, containing -1->-1, 0->0, 1->1");
    ctx.assume("f32 -> fixed conversions: expected value is v * 2^n rounded half away from zero (the OpenType text: fraction rounded, integer part in the high word)");
    run_normalize(ctx);
    run_conversions(ctx);
    run_unparsable_avar(ctx);
    ctx.set("bounds", json!({"avar_interior_knots": if ctx.tier.thorough() {3} else {2}, "axes_per_font": "1 (plus 2- and 3-axis tuple-length and independence cases)"}));
}

pub fn replay(w: &Value) -> Result<(), String> {
    let c = &w["case"];
    let ax = c["axis_min_def_max_16.16"].as_array().ok_or("witness is not a normalisation case")?;
    let axis = (ax[0].as_i64().unwrap() as i32, ax[1].as_i64().unwrap() as i32, ax[2].as_i64().unwrap() as i32);
    let knots: Option<Knots> = c["avar_knots_2.14"].as_array().map(|a| a.iter().map(|p| (p[0].as_i64().unwrap() as i16, p[1].as_i64().unwrap() as i16)).collect());
    let u = c["user_16.16"].as_i64().ok_or("no user value")? as i32;
    let ctx = Ctx::new("C13", mcx::Tier::Quick, "model_checking");
    check_axis(&ctx, &Case { axis, knots: knots.as_ref() }, &[u]);
    let keys = ctx.violation_keys();
    if keys.is_empty() {
        Ok(())
    } else {
        Err(format!("{:?}", keys))
    }
}
