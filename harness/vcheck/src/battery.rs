//! The fixed battery of public entry points exercised on every (possibly corrupt) font by C01/C02.
//! Every entry runs under its own `guard`, so one panic does not hide the others.

use allsorts::binary::read::ReadScope;
use allsorts::bitmap::BitDepth;
use allsorts::cff::cff2::CFF2;
use allsorts::cff::outline::CFF2Outlines;
use allsorts::cff::CFF;
use allsorts::font::{GlyphTableFlags, MatchingPresentation};
use allsorts::font_data::{DynamicFontTableProvider, FontData};
use allsorts::glyph_position::{GlyphLayout, TextDirection};
use allsorts::gsub::{FeatureInfo, FeatureMask, Features};
use allsorts::outline::{OutlineBuilder, OutlineSink};
use allsorts::pathfinder_geometry::line_segment::LineSegment2F;
use allsorts::pathfinder_geometry::vector::Vector2F;
use allsorts::subset::prince::PrinceCmapTarget;
use allsorts::tables::cmap::{Cmap, CmapSubtable};
use allsorts::tables::glyf::GlyfTable;
use allsorts::tables::loca::LocaTable;
use allsorts::tables::variable_fonts::fvar::FvarTable;
use allsorts::tables::{Fixed, FontTableProvider, NameTable};
use allsorts::unicode::VariationSelector;
use allsorts::{tag, Font};
use mcx::{guard, PanicInfo, H};

pub struct Report {
    /// (entry point, panic)
    pub panics: Vec<(&'static str, PanicInfo)>,
    /// did FontData::read + table_provider(0) + Font::new succeed
    pub loaded: bool,
    /// hash of the observable results (guards against vacuity)
    pub outcome: u64,
    pub entries_run: u32,
}

struct Sink(H, u32);
impl OutlineSink for Sink {
    fn move_to(&mut self, to: Vector2F) {
        self.0 = self.0.u64(to.x().to_bits() as u64).u64(to.y().to_bits() as u64);
        self.1 += 1;
    }
    fn line_to(&mut self, to: Vector2F) {
        self.0 = self.0.u8(1).u64(to.x().to_bits() as u64).u64(to.y().to_bits() as u64);
        self.1 += 1;
    }
    fn quadratic_curve_to(&mut self, c: Vector2F, to: Vector2F) {
        self.0 = self.0.u8(2).u64(c.x().to_bits() as u64).u64(to.y().to_bits() as u64);
        self.1 += 1;
    }
    fn cubic_curve_to(&mut self, c: LineSegment2F, to: Vector2F) {
        self.0 = self.0.u8(3).u64(c.from_x().to_bits() as u64).u64(to.y().to_bits() as u64);
        self.1 += 1;
    }
    fn close(&mut self) {
        self.0 = self.0.u8(4);
    }
}

pub struct Battery<'r> {
    pub rep: &'r mut Report,
}

impl<'r> Battery<'r> {
    fn run<T>(&mut self, entry: &'static str, f: impl FnOnce() -> T) -> Option<T> {
        self.rep.entries_run += 1;
        crate::isolate::set_entry(entry);
        match guard(f) {
            Ok(v) => Some(v),
            Err(p) => {
                if !self.rep.panics.iter().any(|(e, q)| *e == entry && q.file == p.file && q.line == p.line) {
                    self.rep.panics.push((entry, p));
                }
                None
            }
        }
    }
    fn mix(&mut self, s: &str) {
        self.rep.outcome = H(self.rep.outcome).str(s).0;
    }
}

const PROBE_CHARS: [char; 12] = ['A', 'a', ' ', '\u{25CC}', '\u{F041}', '\u{1F600}', '\u{633}', '\u{915}', '\u{E01}', '\u{0301}', '\u{FFFF}', '\u{10FFFF}'];
const TEXTS: [(&str, u32); 5] = [
    ("AV fi \u{25CC}\u{0301}", tag::LATN),
    ("\u{633}\u{644}\u{627}\u{645} \u{644}\u{627}", tag::ARAB),
    ("\u{915}\u{94D}\u{937}\u{93F} \u{93F}", otmodel::tag(b"dev2")),
    ("\u{E01}\u{E33}\u{E49}", otmodel::tag(b"thai")),
    ("AB", tag::DFLT),
];

fn glyph_ids(n: u16) -> Vec<u16> {
    let mut v: Vec<u16> = (0..n.min(24)).collect();
    v.extend_from_slice(&[n.wrapping_sub(1), n, 65535]);
    v.sort();
    v.dedup();
    v
}

/// `depth`: 0 = everything; callers use the same battery for all mutants.
pub fn battery(data: &[u8]) -> Report {
    let mut rep = Report { panics: Vec::new(), loaded: false, outcome: 0xcbf29ce484222325, entries_run: 0 };
    let mut b = Battery { rep: &mut rep };
    let fd = match b.run("FontData::read", || ReadScope::new(data).read::<FontData<'_>>()) {
        Some(Ok(fd)) => fd,
        Some(Err(e)) => {
            b.mix(&format!("read:{:?}", e));
            return rep;
        }
        None => return rep,
    };
    // providers for indices 0, 1, 2
    for idx in [1usize, 2] {
        if let Some(Ok(p)) = b.run("table_provider(i)", || fd.table_provider(idx)) {
            b.run("table_tags/table_data", || {
                if let Some(tags) = p.table_tags() {
                    for t in bounded_tags(tags) {
                        let _ = p.table_data(t);
                    }
                }
            });
        }
    }
    let provider = match b.run("table_provider(0)", || fd.table_provider(0)) {
        Some(Ok(p)) => p,
        Some(Err(e)) => {
            b.mix(&format!("provider:{:?}", e));
            return rep;
        }
        None => return rep,
    };
    let tags: Vec<u32> = b
        .run("table_tags/table_data", || {
            let tags = bounded_tags(provider.table_tags().unwrap_or_default());
            for t in &tags {
                let _ = provider.table_data(*t).map(|d| d.map(|d| d.len()));
                let _ = provider.has_table(*t);
            }
            tags
        })
        .unwrap_or_default();
    b.mix(&format!("tags:{}", tags.len()));

    if let Err(p) = guard(std::panic::AssertUnwindSafe(|| {
        table_level(&mut b, &provider, &tags);
        rewriting(&mut b, &provider, &tags);
    })) {
        b.rep.panics.push(("battery(unguarded call)", p));
    }

    // ---- Font-level accessors
    let provider2 = match b.run("table_provider(0)", || fd.table_provider(0)) {
        Some(Ok(p)) => p,
        _ => return rep,
    };
    // anything that escapes the per-entry guards below is still caught here
    let mut font = match b.run("Font::new", || Font::new(provider2)) {
        Some(Ok(f)) => f,
        Some(Err(e)) => {
            b.mix(&format!("font:{:?}", e));
            return rep;
        }
        None => return rep,
    };
    b.rep.loaded = true;
    if let Err(p) = guard(std::panic::AssertUnwindSafe(|| font_level(&mut b, &mut font))) {
        b.rep.panics.push(("battery(unguarded call)", p));
    }
    // `Font` loads its image tables once, under the filter in force at the first query (the default filter has no EBDT),
    // so the EBLC/EBDT reader is only reached through a fresh `Font` whose filter is set before the first query
    if tags.contains(&tag::EBLC) || tags.contains(&tag::EBDT) {
        if let Some(Ok(p3)) = b.run("table_provider(0)", || fd.table_provider(0)) {
            if let Some(Ok(mut f2)) = b.run("Font::new", || Font::new(p3)) {
                b.run("Font::lookup_glyph_image(EBDT)", || {
                    f2.set_embedded_image_filter(GlyphTableFlags::EBDT);
                    let n2 = f2.num_glyphs();
                    let mut k = f2.has_embedded_images() as usize;
                    for g in glyph_ids(n2) {
                        for ppem in [0u16, 12, 65535] {
                            for d in [BitDepth::One, BitDepth::Four, BitDepth::ThirtyTwo] {
                                if let Ok(Some(_)) = f2.lookup_glyph_image(g, ppem, d) {
                                    k += 1;
                                }
                            }
                        }
                    }
                    k
                });
            }
        }
    }
    rep
}

fn font_level(b: &mut Battery<'_>, font: &mut Font<DynamicFontTableProvider<'_>>) {
    let n = font.num_glyphs();
    b.run("Font::lookup_glyph_index", || {
        let mut h = H::new();
        for ch in PROBE_CHARS {
            for mp in [MatchingPresentation::NotRequired, MatchingPresentation::Required] {
                for vs in [None, Some(VariationSelector::VS15), Some(VariationSelector::VS16)] {
                    h = h.u64(font.lookup_glyph_index(ch, mp, vs).0 as u64);
                }
            }
        }
        h.get()
    })
    .map(|h| b.mix(&format!("lgi:{}", h)));
    b.run("Font::cmap_subtable_data", || font.cmap_subtable_data().len());
    b.run("Font::glyph_names", || font.glyph_names(&glyph_ids(n)).len());
    b.run("Font::axis_names", || font.axis_names().map(|v| v.len()).ok());
    b.run("Font::variation_axes", || font.variation_axes().map(|v| v.len()).ok());
    b.run("Font::has_embedded_images", || font.has_embedded_images());
    b.run("Font::lookup_glyph_image", || {
        let mut k = 0;
        // every glyph id of the probe set at one size, then the boundary ids at every size and depth
        for g in glyph_ids(n) {
            if let Ok(Some(_)) = font.lookup_glyph_image(g, 300, BitDepth::ThirtyTwo) {
                k += 1;
            }
        }
        for g in [0u16, 1, n.wrapping_sub(1), 65535] {
            for ppem in [0u16, 16, 65535] {
                for d in [BitDepth::One, BitDepth::Two, BitDepth::Four, BitDepth::Eight, BitDepth::ThirtyTwo] {
                    if let Ok(Some(_)) = font.lookup_glyph_image(g, ppem, d) {
                        k += 1;
                    }
                }
            }
        }
        k
    });
    for filter in [GlyphTableFlags::all(), GlyphTableFlags::EBDT, GlyphTableFlags::SBIX] {
        b.run("Font::lookup_glyph_image(filter)", || {
            // a new filter only matters before the images are loaded; exercise the EBDT/sbix paths on a fresh slot
            font.set_embedded_image_filter(filter);
            let _ = font.has_embedded_images();
        });
    }
    b.run("Font::horizontal_advance", || glyph_ids(n).iter().filter_map(|g| font.horizontal_advance(*g)).count());
    b.run("Font::vertical_advance", || glyph_ids(n).iter().filter_map(|g| font.vertical_advance(*g)).count());
    b.run("Font::os2_table", || font.os2_table().is_ok());
    b.run("Font::gdef_table", || font.gdef_table().is_ok());
    b.run("Font::morx_table", || font.morx_table().is_ok());
    b.run("Font::kern_table", || font.kern_table().is_ok());
    b.run("Font::vhea_table", || font.vhea_table().is_ok());
    // shaping + layout
    let fvar_axes = b.run("Font::variation_axes", || font.variation_axes().map(|a| a.len()).unwrap_or(0)).unwrap_or(0);
    for (text, script) in TEXTS {
        for (fi, feats) in [Features::Mask(FeatureMask::default()), Features::Custom(vec![FeatureInfo { feature_tag: tag::LIGA, alternate: None }, FeatureInfo { feature_tag: tag::KERN, alternate: Some(1) }])].iter().enumerate() {
            let glyphs = match b.run("Font::map_glyphs", || font.map_glyphs(text, script, MatchingPresentation::NotRequired)) {
                Some(g) => g,
                None => continue,
            };
            let infos = b.run("Font::shape", || match font.shape(glyphs, script, if fi == 0 { None } else { Some(tag::DFLT) }, feats, None, fi == 0) {
                Ok(i) => i,
                Err((_, i)) => i,
            });
            if let Some(infos) = infos {
                b.mix(&format!("shape:{}:{}", infos.len(), infos.iter().map(|i| i.glyph.glyph_index as u64).sum::<u64>()));
                for (dir, vertical) in [(TextDirection::LeftToRight, false), (TextDirection::RightToLeft, false), (TextDirection::LeftToRight, true)] {
                    b.run("GlyphLayout::glyph_positions", || GlyphLayout::new(font, &infos, dir, vertical).glyph_positions().map(|p| p.len()).ok());
                }
            }
        }
    }
    if fvar_axes > 0 {
        // shaping with a tuple of the right and of a wrong length
        let fvar_data = font.font_table_provider.table_data(tag::FVAR).ok().flatten().map(|d| d.into_owned());
        if let Some(fv) = fvar_data {
            if let Ok(fvar) = ReadScope::new(&fv).read::<FvarTable<'_>>() {
                let user: Vec<Fixed> = fvar.axes().map(|a| a.max_value).collect();
                if let Some(Ok(t)) = b.run("FvarTable::normalize", || fvar.normalize(user.iter().copied(), None)) {
                    b.run("Font::shape(tuple)", || {
                        let glyphs = font.map_glyphs("AB", tag::LATN, MatchingPresentation::NotRequired);
                        font.shape(glyphs, tag::LATN, None, &Features::Mask(FeatureMask::default()), Some(t.as_tuple()), true).is_ok()
                    });
                }
            }
        }
    }
}

fn table_level(b: &mut Battery<'_>, provider: &DynamicFontTableProvider<'_>, tags: &[u32]) {
    let has = |t: u32| tags.contains(&t);
    // cmap: every encoding record
    if has(tag::CMAP) {
        if let Ok(Some(cm)) = provider.table_data(tag::CMAP) {
            b.run("Cmap/CmapSubtable", || {
                let cmap = ReadScope::new(&cm).read::<Cmap<'_>>()?;
                let mut n = 0u64;
                for rec in cmap.encoding_records() {
                    if let Ok(sub) = cmap.scope.offset(rec.offset as usize).read::<CmapSubtable<'_>>() {
                        for c in [0u32, 0x20, 0x41, 0xFF, 0x100, 0xF041, 0xFFFF, 0x10000, 0x10FFFF, 0xFFFF_FFFF] {
                            if let Ok(Some(g)) = sub.map_glyph(c) {
                                n += g as u64;
                            }
                        }
                        let _ = sub.to_owned().map(|o| o.map_glyph(0x41));
                    }
                }
                Ok::<u64, allsorts::error::ParseError>(n)
            });
            b.run("CmapSubtable::mappings_fn", || {
                let cmap = ReadScope::new(&cm).read::<Cmap<'_>>()?;
                let mut n = 0u64;
                for rec in cmap.encoding_records() {
                    if let Ok(sub) = cmap.scope.offset(rec.offset as usize).read::<CmapSubtable<'_>>() {
                        let _ = sub.mappings_fn(|_, g| n += g as u64);
                    }
                }
                Ok::<u64, allsorts::error::ParseError>(n)
            });
        }
    }
    // outlines
    let num_glyphs = provider.table_data(tag::MAXP).ok().flatten().and_then(|d| d.get(4..6).map(|x| u16::from_be_bytes([x[0], x[1]]))).unwrap_or(0);
    if has(tag::GLYF) {
        b.run("GlyfTable::visit", || {
            let head = ReadScope::new(&provider.read_table_data(tag::HEAD)?).read::<allsorts::tables::HeadTable>()?;
            let loca_data = provider.read_table_data(tag::LOCA)?;
            let loca = ReadScope::new(&loca_data).read_dep::<LocaTable<'_>>((usize::from(num_glyphs), head.index_to_loc_format))?;
            let glyf_data = provider.read_table_data(tag::GLYF)?;
            let mut glyf = ReadScope::new(&glyf_data).read_dep::<GlyfTable<'_>>(&loca)?;
            let mut sink = Sink(H::new(), 0);
            for g in glyph_ids(num_glyphs) {
                let _ = glyf.visit(g, &mut sink);
            }
            Ok::<u32, allsorts::error::ParseError>(sink.1)
        });
    }
    if has(tag::CFF) {
        b.run("CFF::visit", || {
            let cff_data = provider.read_table_data(tag::CFF)?;
            let mut cff = ReadScope::new(&cff_data).read::<CFF<'_>>()?;
            let mut sink = Sink(H::new(), 0);
            for g in glyph_ids(num_glyphs) {
                let _ = cff.visit(g, &mut sink);
            }
            Ok::<u32, allsorts::error::ParseError>(sink.1)
        });
    }
    if has(tag::CFF2) {
        b.run("CFF2Outlines::visit", || {
            let data = provider.read_table_data(tag::CFF2)?;
            let cff2 = ReadScope::new(&data).read::<CFF2<'_>>()?;
            let tuple = match provider.table_data(tag::FVAR)? {
                Some(fv) => {
                    let fvar = ReadScope::new(&fv).read::<FvarTable<'_>>()?;
                    let user: Vec<Fixed> = fvar.axes().map(|a| a.max_value).collect();
                    fvar.normalize(user.iter().copied(), None).ok()
                }
                None => None,
            };
            let mut sink = Sink(H::new(), 0);
            for t in [None, tuple.as_ref()] {
                let mut o = CFF2Outlines { table: &cff2, tuple: t };
                for g in glyph_ids(num_glyphs) {
                    let _ = o.visit(g, &mut sink);
                }
            }
            Ok::<u32, allsorts::error::ParseError>(sink.1)
        });
    }
    if has(tag::POST) {
        b.run("PostTable", || {
            let d = provider.read_table_data(tag::POST)?;
            let post = ReadScope::new(&d).read::<allsorts::post::PostTable<'_>>()?;
            let mut n = 0;
            for g in glyph_ids(num_glyphs) {
                if let Ok(Some(s)) = post.glyph_name(g) {
                    n += s.len();
                }
            }
            Ok::<usize, allsorts::error::ParseError>(n)
        });
    }
    if has(tag::NAME) {
        b.run("NameTable", || {
            let d = provider.read_table_data(tag::NAME)?;
            let name = ReadScope::new(&d).read::<NameTable<'_>>()?;
            let mut n = 0;
            for id in 0..26u16 {
                if let Some(s) = name.string_for_id(id) {
                    n += s.len();
                }
            }
            n += name.string_for_id(256).map_or(0, |s| s.len());
            Ok::<usize, allsorts::error::ParseError>(n)
        });
    }
    if has(tag::STAT) {
        b.run("StatTable", || {
            let d = provider.read_table_data(tag::STAT)?;
            let stat = ReadScope::new(&d).read::<allsorts::tables::variable_fonts::stat::StatTable<'_>>()?;
            let mut n = 0;
            for a in stat.design_axes() {
                if a.is_ok() {
                    n += 1;
                }
            }
            for t in stat.axis_value_tables() {
                if t.is_ok() {
                    n += 1;
                }
            }
            Ok::<usize, allsorts::error::ParseError>(n)
        });
    }
    if has(tag::KERN) {
        b.run("KernTable", || {
            let d = provider.read_table_data(tag::KERN)?;
            let kern = ReadScope::new(&d).read::<allsorts::tables::kern::KernTable<'_>>()?;
            let owned = kern.to_owned();
            let _ = owned;
            Ok::<usize, allsorts::error::ParseError>(1)
        });
    }
    b.run("variations::axis_names", || allsorts::variations::axis_names(provider).map(|v| v.len()).ok());
}

fn rewriting(b: &mut Battery<'_>, provider: &DynamicFontTableProvider<'_>, tags: &[u32]) {
    let n = provider.table_data(tag::MAXP).ok().flatten().and_then(|d| d.get(4..6).map(|x| u16::from_be_bytes([x[0], x[1]]))).unwrap_or(0);
    let lists: Vec<Vec<u16>> = {
        let mut v: Vec<Vec<u16>> = vec![vec![0], vec![0, 1], vec![0, n.wrapping_sub(1)], (0..n.min(40)).collect(), vec![1], vec![0, 0], vec![0, 65535]];
        v.dedup();
        v
    };
    for l in &lists {
        if let Some(Ok(out)) = b.run("subset::subset", || allsorts::subset::subset(provider, l)) {
            b.mix(&format!("subset:{}", out.len()));
        }
    }
    for (i, l) in lists.iter().take(4).enumerate() {
        for target in 0..4 {
            let t = match target {
                0 => PrinceCmapTarget::Unrestricted,
                1 => PrinceCmapTarget::MacRoman,
                2 => PrinceCmapTarget::Omit,
                _ => PrinceCmapTarget::MacRomanCmap(Box::new([1u8; 256])),
            };
            if target > 0 && i > 1 {
                continue;
            }
            b.run("prince::subset", || allsorts::subset::prince::subset(provider, l, t, target % 2 == 0).map(|o| o.len()).ok());
        }
    }
    b.run("subset::whole_font", || allsorts::subset::whole_font(provider, tags).map(|o| o.len()).ok());
    b.run("subset::whole_font(partial)", || {
        let some: Vec<u32> = tags.iter().copied().filter(|t| *t != tag::GLYF && *t != tag::CMAP).collect();
        allsorts::subset::whole_font(provider, &some).map(|o| o.len()).ok()
    });
    if tags.contains(&tag::FVAR) {
        let axes: Vec<(Fixed, Fixed, Fixed)> = provider
            .table_data(tag::FVAR)
            .ok()
            .flatten()
            .and_then(|d| guard(|| ReadScope::new(&d).read::<FvarTable<'_>>().map(|f| f.axes().map(|a| (a.min_value, a.default_value, a.max_value)).collect::<Vec<_>>()).ok()).ok().flatten())
            .unwrap_or_default();
        let one = Fixed::from(1);
        let variants: Vec<Vec<Fixed>> = vec![
            axes.iter().map(|a| a.1).collect(),
            axes.iter().map(|a| a.0).collect(),
            axes.iter().map(|a| a.2).collect(),
            axes.iter().map(|a| a.0 - one).collect(),
            axes.iter().map(|a| a.2 + one).collect(),
            vec![Fixed::from(0); axes.len() + 1],
            vec![],
        ];
        for u in &variants {
            if let Some(Ok(o)) = b.run("variations::instance", || allsorts::variations::instance(provider, u)) {
                b.mix(&format!("instance:{}", o.0.len()));
            }
        }
    }
}


/// A corrupt numTables makes `table_tags` return up to 65535 (garbage) tags; each `table_data` call is a
/// search proportional to the directory, so querying *every* tag is quadratic in the harness, not in
/// allsorts. Query the (sorted, distinct) first and last 256 tags: every real table of every seed is
/// still queried (no seed has more than 40 tables) and the cost per entry point stays proportional to
/// the input.
fn bounded_tags(mut tags: Vec<u32>) -> Vec<u32> {
    tags.sort();
    tags.dedup();
    if tags.len() > 512 {
        let tail = tags.split_off(tags.len() - 256);
        tags.truncate(256);
        tags.extend(tail);
    }
    tags
}
