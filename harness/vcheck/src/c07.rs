//! C07 / C08 / C09 — subsetting preserves outlines + metrics, preserves the character map, and writes
//! structurally valid, self-consistent fonts. One exhaustive enumeration of (font, container, glyph list,
//! output option) feeds three oracles; each property runs the enumeration with its own oracle.

use allsorts::binary::read::ReadScope;
use allsorts::cff::cff2::CFF2;
use allsorts::cff::outline::CFF2Outlines;
use allsorts::cff::CFF;
use allsorts::font::MatchingPresentation;
use allsorts::font_data::{DynamicFontTableProvider, FontData};
use allsorts::outline::{OutlineBuilder, OutlineSink};
use allsorts::pathfinder_geometry::line_segment::LineSegment2F;
use allsorts::pathfinder_geometry::vector::Vector2F;
use allsorts::subset::prince::PrinceCmapTarget;
use allsorts::tables::glyf::GlyfTable;
use allsorts::tables::loca::LocaTable;
use allsorts::tables::FontTableProvider;
use allsorts::{tag, Font};
use mcx::{guard, Ctx, H};
use otmodel::{read, sfnt};
use rayon::prelude::*;
use serde_json::{json, Value};
use std::collections::BTreeMap;

#[derive(Clone, Copy, PartialEq, Eq, Debug)]
pub enum Which {
    C07,
    C08,
    C09,
}

impl Which {
    fn id(&self) -> &'static str {
        match self {
            Which::C07 => "C07",
            Which::C08 => "C08",
            Which::C09 => "C09",
        }
    }
}

#[derive(Clone, Copy, PartialEq, Eq, Debug)]
pub enum Opt {
    Subset,
    PrinceUnrestricted,
    PrinceMacRoman,
    PrinceOmit,
    PrinceSupplied,
    PrinceCidConvert,
}

#[derive(Default, Clone, PartialEq, Debug)]
pub struct Path(pub Vec<(u8, [f32; 6])>);

impl OutlineSink for Path {
    fn move_to(&mut self, to: Vector2F) {
        self.0.push((0, [to.x(), to.y(), 0., 0., 0., 0.]));
    }
    fn line_to(&mut self, to: Vector2F) {
        self.0.push((1, [to.x(), to.y(), 0., 0., 0., 0.]));
    }
    fn quadratic_curve_to(&mut self, c: Vector2F, to: Vector2F) {
        self.0.push((2, [c.x(), c.y(), to.x(), to.y(), 0., 0.]));
    }
    fn cubic_curve_to(&mut self, c: LineSegment2F, to: Vector2F) {
        self.0.push((3, [c.from_x(), c.from_y(), c.to_x(), c.to_y(), to.x(), to.y()]));
    }
    fn close(&mut self) {
        self.0.push((4, [0.; 6]));
    }
}

/// Outline of one glyph of a font presented by a table provider. Err(text) if the glyph cannot be visited.
pub fn outline_of(provider: &impl FontTableProvider, gid: u16) -> Result<Path, String> {
    let maxp = provider.read_table_data(tag::MAXP).map_err(|e| format!("{:?}", e))?;
    let ng = u16::from_be_bytes([maxp[4], maxp[5]]);
    let mut path = Path::default();
    if provider.has_table(tag::GLYF) {
        let head = ReadScope::new(&provider.read_table_data(tag::HEAD).map_err(|e| format!("{:?}", e))?).read::<allsorts::tables::HeadTable>().map_err(|e| format!("{:?}", e))?;
        let loca_data = provider.read_table_data(tag::LOCA).map_err(|e| format!("{:?}", e))?;
        let loca = ReadScope::new(&loca_data).read_dep::<LocaTable<'_>>((usize::from(ng), head.index_to_loc_format)).map_err(|e| format!("loca {:?}", e))?;
        let glyf_data = provider.read_table_data(tag::GLYF).map_err(|e| format!("{:?}", e))?;
        let mut glyf = ReadScope::new(&glyf_data).read_dep::<GlyfTable<'_>>(&loca).map_err(|e| format!("glyf {:?}", e))?;
        glyf.visit(gid, &mut path).map_err(|e| format!("visit {:?}", e))?;
    } else if provider.has_table(tag::CFF) {
        let d = provider.read_table_data(tag::CFF).map_err(|e| format!("{:?}", e))?;
        let mut cff = ReadScope::new(&d).read::<CFF<'_>>().map_err(|e| format!("CFF {:?}", e))?;
        cff.visit(gid, &mut path).map_err(|e| format!("visit {:?}", e))?;
    } else if provider.has_table(tag::CFF2) {
        let d = provider.read_table_data(tag::CFF2).map_err(|e| format!("{:?}", e))?;
        let cff2 = ReadScope::new(&d).read::<CFF2<'_>>().map_err(|e| format!("CFF2 {:?}", e))?;
        let mut o = CFF2Outlines { table: &cff2, tuple: None };
        o.visit(gid, &mut path).map_err(|e| format!("visit {:?}", e))?;
    } else {
        return Err("no outline table".into());
    }
    Ok(path)
}

fn bare_cff_outline(cff_bytes: &[u8], gid: u16) -> Result<Path, String> {
    let mut cff = ReadScope::new(cff_bytes).read::<CFF<'_>>().map_err(|e| format!("CFF {:?}", e))?;
    let mut path = Path::default();
    cff.visit(gid, &mut path).map_err(|e| format!("visit {:?}", e))?;
    Ok(path)
}

/// drop `close` commands that close nothing (no contour is open): visitors differ in whether an empty glyph
/// yields a lone close, which draws nothing
fn normalise(p: &Path) -> Path {
    let mut out = Vec::new();
    let mut open = false;
    for c in &p.0 {
        match c.0 {
            4 => {
                if open {
                    out.push(*c);
                }
                open = false;
            }
            _ => {
                open = true;
                out.push(*c);
            }
        }
    }
    Path(out)
}

fn paths_close(a: &Path, b: &Path) -> bool {
    let (a, b) = (&normalise(a), &normalise(b));
    a.0.len() == b.0.len() && a.0.iter().zip(b.0.iter()).all(|(x, y)| x.0 == y.0 && x.1.iter().zip(y.1.iter()).all(|(p, q)| (p - q).abs() <= 1e-3))
}

pub struct Source {
    pub name: String,
    pub data: Vec<u8>,
    pub num_glyphs: u16,
    pub small: bool,
    /// large font used only for its special glyphs and thresholds in the quick tier (few lists)
    pub light: bool,
}

fn load_sources(thorough: bool) -> Vec<Source> {
    let mut v = Vec::new();
    let mut add = |rel: &str, small: u8| {
        let path = format!("/repo/tests/{}", rel);
        if let Ok(d) = std::fs::read(&path) {
            if d.is_empty() {
                return;
            }
            let ng = guard(|| {
                let fd = ReadScope::new(&d).read::<FontData<'_>>().ok()?;
                let p = fd.table_provider(0).ok()?;
                let m = p.read_table_data(tag::MAXP).ok()?;
                Some(u16::from_be_bytes([m[4], m[5]]))
            })
            .ok()
            .flatten();
            if let Some(ng) = ng {
                v.push(Source { name: rel.to_string(), data: d, num_glyphs: ng, small: small == 1, light: small == 2 });
            }
        }
    };
    for f in [
        "fonts/opentype/test-font.ttf",
        "fonts/opentype/SFNT-TTF-Composite.ttf",
        "fonts/sbix/sbix-dupe.ttf",
        "fonts/opentype/SymbolTest-Regular.ttf",
        "fonts/opentype/cff2/SourceSans3.abc.otf",
        "fonts/woff2/test-font.woff2",
        "fonts/woff2/SFNT-TTF-Composite.woff2",
        "fonts/woff1/valid-005.woff",
    ] {
        add(f, 1);
    }
    for f in ["fonts/opentype/Klei.otf", "fonts/opentype/OpenSans-Regular.ttf", "fonts/noto/NotoSansThai-Regular.ttf", "fonts/opentype/cff2/SourceSans3-Instance.256.otf", "fonts/opentype/TerminusTTF-4.47.0.ttf", "fonts/noto/NotoNaskhArabic-Regular.ttf", "fonts/opentype/SourceCodePro-Regular.otf", "fonts/noto/NotoSansLao-Regular.ttf"] {
        add(f, 0);
    }
    if !thorough {
        // large fonts, quick tier: only their special glyphs (composites with transforms ...) and the cmap thresholds
        for f in ["fonts/arabic/amiri-regular.ttf", "fonts/malayalam/Rachana-Regular.ttf", "fonts/noto/NotoSansJP-Regular.otf", "fonts/noto/NotoSerifKhmer-Regular.ttf"] {
            add(f, 2);
        }
    }
    if thorough {
        for f in [
            "fonts/noto/NotoSansSinhala-Regular.ttf",
            "fonts/noto/NotoSansJP-Regular.otf",
            "fonts/arabic/amiri-regular.ttf",
            "fonts/noto/NotoSansDevanagari-Regular.ttf",
            "fonts/malayalam/Rachana-Regular.ttf",
            "fonts/opentype/Ubuntu Mono with Numderline.ttf",
            "fonts/variable/Zycon.ttf",
        ] {
            add(f, f.contains("Zycon") as u8);
        }
    }
    // synthetic sources: cmap shapes no fixture has
    {
        use otmodel::cmapenc::{self, Seg4, Term4};
        use otmodel::tables;
        // (a) Unicode format 4 whose FINAL segment ends at 0xFFFF and maps real characters (no stand-alone terminator)
        let segs = [
            Seg4::Delta { start: 0x41, end: 0x43, delta: (1i32 - 0x41) as i16 },
            Seg4::Array { start: 0xFFFD, end: 0xFFFF, delta: 0, entries: vec![4, 5, 0] },
        ];
        let (sub, _) = cmapenc::fmt4(&segs, Term4::InLastSegment);
        let d = tables::minimal_font(7, &[], &[(otmodel::tag(b"cmap"), tables::cmap_table(&[(3, 1, sub)]))]);
        v.push(Source { name: "synthetic/cmap4-final-segment-maps-characters".into(), data: d, num_glyphs: 7, small: true, light: false });
        // (b) Windows Symbol font covering the whole block 0xF020..0xF0FF (usFirstCharIndex 0xF020)
        let (sub, _) = cmapenc::fmt4(&[Seg4::Delta { start: 0xF020, end: 0xF0FF, delta: (1i32 - 0xF020) as i16 }], Term4::Standard);
        let d = tables::minimal_font(226, &[], &[(otmodel::tag(b"cmap"), tables::cmap_table(&[(3, 0, sub)])), (otmodel::tag(b"OS/2"), tables::os2_v4(0xF020, 0xF0FF))]);
        v.push(Source { name: "synthetic/symbol-F020-F0FF".into(), data: d, num_glyphs: 226, small: false, light: true });
    }
    // (b2) Unicode format 4 with characters on both sides of U+8000 (an idDelta is a 16 bit value computed modulo 65536:
    // segment starts at or above 0x8000 with small glyph ids wrap)
    {
        use otmodel::cmapenc::{self, Seg4, Term4};
        use otmodel::tables;
        let segs = [
            Seg4::Delta { start: 0x7FFE, end: 0x7FFF, delta: (1i32 - 0x7FFE) as i16 },
            Seg4::Delta { start: 0x8000, end: 0x8001, delta: (3i32 - 0x8000) as i16 },
            Seg4::Delta { start: 0x8005, end: 0x8005, delta: (5i32 - 0x8005) as i16 },
            Seg4::Delta { start: 0x9000, end: 0x9000, delta: (6i32 - 0x9000) as i16 },
            Seg4::Delta { start: 0xFFFD, end: 0xFFFD, delta: (7i32 - 0xFFFD) as i16 },
        ];
        let (sub, _) = cmapenc::fmt4(&segs, Term4::Standard);
        let d = tables::minimal_font(8, &[], &[(otmodel::tag(b"cmap"), tables::cmap_table(&[(3, 1, sub)]))]);
        v.push(Source { name: "synthetic/cmap4-characters-around-U+8000".into(), data: d, num_glyphs: 8, small: true, light: false });
    }
    // (b3) format 12 whose only supplementary character is U+10000 itself (the first code point that does not fit format 4)
    {
        use otmodel::tables;
        let sub = tables::cmap12_subtable(&[(0x41, 1), (0x42, 2), (0xFFFF, 4), (0x10000, 3)]);
        let d = tables::minimal_font(6, &[], &[(otmodel::tag(b"cmap"), tables::cmap_table(&[(3, 10, sub)]))]);
        v.push(Source { name: "synthetic/cmap12-only-astral-character-is-U+10000".into(), data: d, num_glyphs: 6, small: true, light: false });
    }
    // (b3b) format 12 "identity" layout as PDF producers write it: one group that starts at character 0 / glyph 0 and spans
    // several characters (startGlyphID 0 is an ordinary start value in format 12, not the format 13 ".notdef" convention)
    {
        use otmodel::tables;
        let sub = tables::cmap12_subtable(&[(0, 0), (1, 1), (2, 2), (3, 3), (4, 4), (0x10005, 5)]);
        let d = tables::minimal_font(7, &[], &[(otmodel::tag(b"cmap"), tables::cmap_table(&[(3, 10, sub)]))]);
        v.push(Source { name: "synthetic/cmap12-identity-group-starting-at-glyph-0".into(), data: d, num_glyphs: 7, small: true, light: false });
    }
    // (b3c) Windows Big5 source (3,4) and nothing else: ASCII, original Big5 rows, HKSCS / extension rows below 0xA1 and above
    // 0xF9 incl. codes of supplementary-plane ideographs (0x8745 = U+27267, 0xFA40 = U+20547, 0xC87A = U+200CC)
    {
        use otmodel::cmapenc::{self, Seg4, Term4};
        use otmodel::tables;
        let codes: [u32; 7] = [0x41, 0x8740, 0x8745, 0xA440, 0xC87A, 0xF9D5, 0xFA40];
        let segs: Vec<Seg4> = codes.iter().enumerate().map(|(i, c)| Seg4::Delta { start: *c as u16, end: *c as u16, delta: (i as i32 + 1 - *c as i32) as i16 }).collect();
        let (sub, _) = cmapenc::fmt4(&segs, Term4::Standard);
        let d = tables::minimal_font(8, &[], &[(otmodel::tag(b"cmap"), tables::cmap_table(&[(3, 4, sub)]))]);
        v.push(Source { name: "synthetic/big5-source-with-hkscs-and-plane-2-codes".into(), data: d, num_glyphs: 8, small: true, light: false });
    }
    // (b3d) format 4 segment with idRangeOffset != 0 AND idDelta != 0 whose glyphIdArray has a zero entry (a hole: the
    // character is unmapped, idDelta is not added to 0) - with the glyph numbered idDelta present, so that a hole read as
    // "glyph idDelta" would show up as a mapping in the subset
    {
        use otmodel::cmapenc::{self, Seg4, Term4};
        use otmodel::tables;
        let segs = [Seg4::Array { start: 0x41, end: 0x45, delta: 2, entries: vec![1, 0, 3, 0, 2] }, Seg4::Delta { start: 0x61, end: 0x62, delta: (5i32 - 0x61) as i16 }];
        let (sub, _) = cmapenc::fmt4(&segs, Term4::Standard);
        let d = tables::minimal_font(8, &[], &[(otmodel::tag(b"cmap"), tables::cmap_table(&[(3, 1, sub)]))]);
        v.push(Source { name: "synthetic/cmap4-glyphIdArray-holes-under-a-non-zero-idDelta".into(), data: d, num_glyphs: 8, small: true, light: false });
    }
    // (b3e) characters inside and outside Mac Roman whose HIGHEST character is a Mac Roman one (U+FB01, U+2026 and U+25CA are
    // in Mac Roman; U+0142, U+0416 and U+2030+1 are not): the plane a subset cmap needs is decided by every kept
    // character, not by the last one
    {
        use otmodel::tables;
        let map: Vec<(u32, u16)> = vec![(0x41, 1), (0x142, 2), (0x416, 3), (0x2026, 4), (0x2031, 5), (0x25CA, 6), (0xFB01, 7)];
        let d = tables::minimal_font(8, &map, &[]);
        v.push(Source { name: "synthetic/characters-outside-mac-roman-below-a-mac-roman-one".into(), data: d, num_glyphs: 8, small: true, light: false });
    }
    // (b4) a source cmap with one malformed entry in front of valid ones (format 4 segment whose idRangeOffset points far
    // outside the subtable): a subset must either be refused or map every other retained character correctly
    {
        use otmodel::cmapenc::{self, Seg4, Term4};
        use otmodel::tables;
        let segs = [Seg4::Array { start: 0x41, end: 0x42, delta: 0, entries: vec![1, 2] }, Seg4::Delta { start: 0x61, end: 0x63, delta: (3i32 - 0x61) as i16 }];
        let (mut sub, _) = cmapenc::fmt4(&segs, Term4::Standard);
        let n = u16::from_be_bytes([sub[6], sub[7]]) as usize / 2;
        let ro = 16 + 6 * n;
        sub[ro] = 0x7F;
        sub[ro + 1] = 0xF0;
        let d = tables::minimal_font(7, &[], &[(otmodel::tag(b"cmap"), tables::cmap_table(&[(3, 1, sub)]))]);
        v.push(Source { name: "synthetic/cmap4-first-segment-points-outside-the-subtable".into(), data: d, num_glyphs: 7, small: true, light: false });
    }
    // (b5) a BMP-only font whose whole-font subset needs a format 4 subtable of more than 65535 bytes (8500 characters five
    // code points apart: one segment each) and one just below that size: the 16 bit length field cannot hold the first
    {
        use otmodel::tables;
        for (n, name) in [(8502u16, "above"), (8100, "below")] {
            let map: Vec<(u32, u32)> = (1..n as u32).map(|g| (0x100 + 5 * (g - 1), g)).collect();
            let sub = tables::cmap12_subtable(&map);
            let d = tables::minimal_font(n, &[], &[(otmodel::tag(b"cmap"), tables::cmap_table(&[(3, 10, sub)]))]);
            v.push(Source { name: format!("synthetic/cmap-whole-font-{}-the-format-4-size-limit", name), data: d, num_glyphs: n, small: false, light: false });
        }
    }
    // (b6) numberOfHMetrics < numGlyphs with five different advances in front of a three-glyph tail, and characters that are
    // aliases of one glyph next to each other (c, c+1, c+2 -> g, g+1, g+1) in the BMP and above it: a tail glyph must keep
    // the shared advance wherever it lands in the subset, and a format 12 output must not fold an alias into a group
    {
        use otmodel::tables;
        let metrics = [(500u16, 0i16), (610, 5), (720, -3), (830, 7), (940, 2)];
        let map: Vec<(u32, u32)> = vec![(0x41, 1), (0x42, 2), (0x43, 2), (0x61, 5), (0x62, 6), (0x63, 6), (0x71, 7), (0x72, 7), (0x10041, 3), (0x10042, 4), (0x10043, 4), (0x10051, 6), (0x10052, 7), (0x10053, 7)];
        let extra = [
            (otmodel::tag(b"cmap"), tables::cmap_table(&[(3, 10, tables::cmap12_subtable(&map))])),
            (otmodel::tag(b"hhea"), tables::hhea(5)),
            (otmodel::tag(b"hmtx"), tables::hmtx(&metrics, &[11, 12, 13])),
        ];
        let d = tables::minimal_font(8, &[], &extra);
        v.push(Source { name: "synthetic/short-hmtx-tail-and-aliased-characters".into(), data: d, num_glyphs: 8, small: true, light: false });
    }
    // (b7) composite nesting at the limit the outline visitor accepts: glyph k (2..=7) is a composite of glyph k-1 with an
    // offset, glyph 1 is a triangle, so glyph 7 reaches its outline through six levels of composites; requesting an outer
    // glyph alone must pull in and renumber the whole chain
    {
        use otmodel::glyfenc::{self, Args, Component, Glyph, Pt, SimpleEnc, Xform};
        use otmodel::tables;
        let tri = vec![vec![Pt { x: 0, y: 0, on: true }, Pt { x: 100, y: 0, on: true }, Pt { x: 50, y: 80, on: true }]];
        let mut glyphs: Vec<Glyph> = vec![Glyph::Empty, Glyph::Simple(tri)];
        for k in 2..=7u16 {
            glyphs.push(Glyph::Composite { components: vec![Component::new(k - 1, Args::Xy(10 * k as i16, -(k as i16)), Xform::None)], instructions: 0, overlap_compound: false });
        }
        let enc: Vec<Vec<u8>> = glyphs.iter().map(|g| glyfenc::encode_glyph(g, &SimpleEnc::default())).collect();
        let (glyf, loca) = glyfenc::build_glyf_loca(&enc, true, 4);
        let d = tables::minimal_font(8, &[(0x41, 1), (0x42, 7), (0x43, 4)], &[(otmodel::tag(b"glyf"), glyf), (otmodel::tag(b"loca"), loca)]);
        v.push(Source { name: "synthetic/composite-chain-six-levels-deep".into(), data: d, num_glyphs: 8, small: true, light: false });
    }
    // (b8) CID-keyed CFF with an empty Global Subr INDEX and two Font DICTs of which only the second has local subroutines;
    // glyphs of both Font DICTs, the second one's drawn through callsubr
    {
        use otmodel::cffenc::{build_cff1_parts, Charset, PrivateSpec, SubrIndex};
        use otmodel::tables;
        let num = |v: i32| -> u8 { (v + 139) as u8 }; // one-byte Type 2 operand, -107..=107
        let cs: Vec<Vec<u8>> = vec![
            vec![14],                                                        // .notdef: endchar
            vec![num(100), num(100), 21, num(50), 6, num(40), 7, 14],        // FD 0: rmoveto hlineto vlineto endchar
            vec![num(10), num(10), 21, num(-107), 10, 14],                   // FD 1: rmoveto, callsubr 0, endchar
            vec![num(20), num(30), 21, num(-106), 10, num(-107), 10, 14],    // FD 1: rmoveto, callsubr 1, callsubr 0, endchar
            vec![num(5), 22, num(60), num(60), 5, 14],                       // FD 0: hmoveto rlineto endchar
        ];
        let subrs = SubrIndex::dense(vec![vec![num(50), num(50), 5, 11], vec![num(-30), num(70), 5, 11]]); // rlineto return
        let fds = [PrivateSpec::default(), PrivateSpec { subrs: Some(subrs), ..Default::default() }];
        let fdsel = [0u8, 0, 1, 1, 0];
        for fmt in [0u8, 3] {
            let table = build_cff1_parts(&cs, &SubrIndex::empty(), &Charset::Custom { format: 2, ids: (1..cs.len() as u16).collect() }, &fds, Some((&fdsel[..], fmt)));
            let n = cs.len() as u16;
            let map: Vec<(u32, u16)> = (1..n).map(|g| (0x40 + g as u32, g)).collect();
            let mut tb: Vec<(u32, Vec<u8>)> = tables::minimal_tables(n, &map, &[]).into_iter().filter(|x| x.0 != otmodel::tag(b"glyf") && x.0 != otmodel::tag(b"loca") && x.0 != otmodel::tag(b"maxp")).collect();
            tb.push((otmodel::tag(b"maxp"), tables::maxp_05(n)));
            tb.push((otmodel::tag(b"CFF "), table));
            let d = otmodel::sfnt::build(otmodel::sfnt::OTTO, &tb);
            v.push(Source { name: format!("synthetic/cid-two-font-dicts-only-one-with-local-subrs-fdselect{}", fmt), data: d, num_glyphs: n, small: true, light: false });
        }
    }
    // CFF / CFF2 sources from the C18 generator: every path operator incl. the four flex forms, stems and masks, width
    // prefix, every number encoding, local and global subroutines at the bias edges, CID-keyed and FDSelect fonts
    for (name, d) in crate::c18::corpus_for_c07() {
        let ng = otmodel::sfnt::parse(&d).and_then(|f| f.table(otmodel::tag(b"maxp"))).map(|m| u16::from_be_bytes([m[4], m[5]])).unwrap_or(0);
        v.push(Source { name: format!("synthetic/{}", name), data: d, num_glyphs: ng, small: ng <= 8, light: ng > 8 });
    }
    // (c) composite glyphs whose numberOfContours is a negative value other than -1 (the specification: "if negative, this
    // is a composite glyph" and recommends -1; any negative value must be treated alike), and (d) the same font with
    // WE_HAVE_INSTRUCTIONS only on the first component of every composite that has instructions and >= 2 components
    if let Some(d) = patched_composites(&crate::util::fixture("fonts/opentype/SFNT-TTF-Composite.ttf"), true, false) {
        v.push(Source { name: "synthetic/composites-numberOfContours-minus-2".into(), num_glyphs: u16::from_be_bytes([otmodel::sfnt::parse(&d).and_then(|f| f.table(otmodel::tag(b"maxp"))).map(|m| m[4]).unwrap_or(0), otmodel::sfnt::parse(&d).and_then(|f| f.table(otmodel::tag(b"maxp"))).map(|m| m[5]).unwrap_or(0)]), data: d, small: true, light: false });
    }
    v
}

/// Component glyph ids of a glyph, read from the provider's glyf/loca independently of allsorts' glyf reader (empty for
/// simple and empty glyphs); None when the font has no glyf table.
fn glyph_components<'a, P: FontTableProvider>(p: &'a P) -> Option<impl Fn(u16) -> Vec<u16> + 'a> {
    let head = p.table_data(tag::HEAD).ok()??.into_owned();
    let maxp = p.table_data(tag::MAXP).ok()??.into_owned();
    let loca = p.table_data(tag::LOCA).ok()??.into_owned();
    let glyf = p.table_data(tag::GLYF).ok()??.into_owned();
    if head.len() < 54 || maxp.len() < 6 {
        return None;
    }
    let long = u16::from_be_bytes([head[50], head[51]]) != 0;
    let n = u16::from_be_bytes([maxp[4], maxp[5]]);
    let offs = read::loca_offsets(&loca, n, long)?;
    Some(move |g: u16| -> Vec<u16> {
        let g = g as usize;
        if g + 1 >= offs.len() {
            return Vec::new();
        }
        let (a, b) = (offs[g] as usize, offs[g + 1] as usize);
        if b <= a || b > glyf.len() || b - a < 12 || i16::from_be_bytes([glyf[a], glyf[a + 1]]) >= 0 {
            return Vec::new();
        }
        read::composite_components(&glyf[a..b]).unwrap_or_default()
    })
}

/// A copy of a bare TrueType font in which every composite glyph has numberOfContours -2 (`minus2`).
fn patched_composites(data: &[u8], minus2: bool, _reserved: bool) -> Option<Vec<u8>> {
    let f = otmodel::sfnt::parse(data)?;
    let (head, maxp, loca, glyf) = (f.table(otmodel::tag(b"head"))?, f.table(otmodel::tag(b"maxp"))?, f.table(otmodel::tag(b"loca"))?, f.table(otmodel::tag(b"glyf"))?);
    if head.len() < 54 || maxp.len() < 6 {
        return None;
    }
    let long = u16::from_be_bytes([head[50], head[51]]) == 1;
    let n = u16::from_be_bytes([maxp[4], maxp[5]]) as usize;
    let off = |i: usize| -> Option<usize> {
        if long {
            loca.get(4 * i..4 * i + 4).map(|b| u32::from_be_bytes([b[0], b[1], b[2], b[3]]) as usize)
        } else {
            loca.get(2 * i..2 * i + 2).map(|b| 2 * u16::from_be_bytes([b[0], b[1]]) as usize)
        }
    };
    let mut g = glyf.to_vec();
    let mut patched = 0;
    for i in 0..n {
        let (a, b) = (off(i)?, off(i + 1)?);
        if b >= a + 10 && b <= g.len() && (g[a] & 0x80) != 0 && minus2 {
            g[a] = 0xFF;
            g[a + 1] = 0xFE;
            patched += 1;
        }
    }
    if patched == 0 {
        return None;
    }
    let tables: Vec<(u32, Vec<u8>)> = f.dir.iter().map(|e| (e.tag, if e.tag == otmodel::tag(b"glyf") { g.clone() } else { f.table(e.tag).unwrap_or(&[]).to_vec() })).collect();
    Some(otmodel::sfnt::build_with(otmodel::sfnt::TTF, &tables, &otmodel::sfnt::BuildOpts { fix_head_adjustment: true, ..Default::default() }))
}

/// One glyph id per class of composite glyph in a bare TrueType sfnt: class = which transform forms (scale, x/y scale,
/// 2x2), argument forms (words, point numbers), offset-scaling flags and instructions its components use.
fn special_composites(data: &[u8]) -> Vec<u16> {
    let Some(f) = otmodel::sfnt::parse(data) else { return Vec::new() };
    let (Some(head), Some(maxp), Some(loca), Some(glyf)) = (f.table(otmodel::tag(b"head")), f.table(otmodel::tag(b"maxp")), f.table(otmodel::tag(b"loca")), f.table(otmodel::tag(b"glyf"))) else { return Vec::new() };
    if head.len() < 54 || maxp.len() < 6 {
        return Vec::new();
    }
    let long = u16::from_be_bytes([head[50], head[51]]) != 0;
    let n = u16::from_be_bytes([maxp[4], maxp[5]]);
    let Some(offs) = read::loca_offsets(loca, n, long) else { return Vec::new() };
    let mut seen: std::collections::BTreeSet<u16> = std::collections::BTreeSet::new();
    let mut out = Vec::new();
    let is_composite = |g: usize| -> bool {
        if g + 1 >= offs.len() {
            return false;
        }
        let (a, b) = (offs[g] as usize, offs[g + 1] as usize);
        b > a && b <= glyf.len() && b - a >= 12 && i16::from_be_bytes([glyf[a], glyf[a + 1]]) < 0
    };
    for g in 0..n as usize {
        let (a, b) = (offs[g] as usize, offs[g + 1] as usize);
        if b <= a || b > glyf.len() || b - a < 12 {
            continue;
        }
        let rec = &glyf[a..b];
        if i16::from_be_bytes([rec[0], rec[1]]) >= 0 {
            continue;
        }
        let mut p = 10;
        let mut class = 0u16;
        loop {
            if p + 4 > rec.len() {
                break;
            }
            let flags = u16::from_be_bytes([rec[p], rec[p + 1]]);
            // a component that is itself a composite glyph (nested composite: the subsetter's closure must follow it)
            if is_composite(u16::from_be_bytes([rec[p + 2], rec[p + 3]]) as usize) {
                class |= 0x8000;
            }
            class |= flags & (0x0001 | 0x0008 | 0x0040 | 0x0080 | 0x0100 | 0x0200 | 0x0800 | 0x1000);
            if flags & 0x0002 == 0 {
                class |= 0x4000; // point-number arguments
            }
            p += 4 + if flags & 1 != 0 { 4 } else { 2 };
            p += if flags & 0x0008 != 0 { 2 } else if flags & 0x0040 != 0 { 4 } else if flags & 0x0080 != 0 { 8 } else { 0 };
            if flags & 0x0020 == 0 {
                break;
            }
        }
        if seen.insert(class) {
            out.push(g as u16);
        }
    }
    out
}

/// glyph lists for a source (every list starts with 0 and has no duplicates)
fn glyph_lists(src: &Source, thorough: bool) -> Vec<Vec<u16>> {
    let n = src.num_glyphs;
    let mut out: Vec<Vec<u16>> = Vec::new();
    // CID-keyed CFF: glyph pairs that straddle a Font DICT boundary of FDSelect (the boundaries are read with allsorts from
    // the SOURCE only to choose inputs; the oracle is the outline comparison)
    {
        let bounds: Vec<u16> = guard(|| {
            let fd = ReadScope::new(&src.data).read::<FontData<'_>>().ok()?;
            let p = fd.table_provider(0).ok()?;
            let cffd = p.read_table_data(tag::CFF).ok()?;
            let cff = ReadScope::new(&cffd).read::<CFF<'_>>().ok()?;
            let font = cff.fonts.first()?;
            let allsorts::cff::CFFVariant::CID(cid) = &font.data else { return None };
            let mut v = Vec::new();
            let mut prev = cid.fd_select.font_dict_index(0);
            for g in 1..n {
                let cur = cid.fd_select.font_dict_index(g);
                if cur != prev {
                    v.push(g);
                }
                prev = cur;
            }
            Some(v)
        })
        .ok()
        .flatten()
        .unwrap_or_default();
        for g in bounds.into_iter().take(if thorough { 64 } else { 10 }) {
            out.push(vec![0, g - 1, g]);
            out.push(vec![0, g, g - 1]);
            if g + 1 < n {
                out.push(vec![0, g - 1, g, g + 1]);
            }
        }
    }
    // every class of composite glyph alone and next to its first component's neighbours
    for g in special_composites(&src.data).into_iter().take(if thorough { 64 } else { 24 }) {
        if g != 0 {
            out.push(vec![0, g]);
            if g + 1 < n {
                out.push(vec![0, g + 1, g]);
            }
        }
    }
    if src.small {
        // every ordered duplicate-free list starting with 0 up to a length bound
        let max_len = if n <= 6 { n as usize } else if thorough { 5 } else { 4 }.min(n as usize);
        let max_len = if n > 14 { max_len.min(if thorough { 4 } else { 3 }) } else { max_len };
        fn rec(cur: &mut Vec<u16>, n: u16, max_len: usize, out: &mut Vec<Vec<u16>>) {
            out.push(cur.clone());
            if cur.len() == max_len {
                return;
            }
            for g in 1..n {
                if !cur.contains(&g) {
                    cur.push(g);
                    rec(cur, n, max_len, out);
                    cur.pop();
                }
            }
        }
        rec(&mut vec![0], n, max_len, &mut out);
    } else if src.name.contains("the-format-4-size-limit") {
        // only the lists that decide the subtable size: the whole font, in order and reversed, and the font without its tail
        out.push((0..n).collect());
        let mut r: Vec<u16> = vec![0];
        r.extend((1..n).rev());
        out.push(r);
        out.push((0..n - 400).collect());
    } else {
        out.push(vec![0]);
        let step = if thorough { 1 } else if src.light { (n / 12).max(1) } else { (n / 160).max(1) };
        let mut g = 1;
        while g < n {
            out.push(vec![0, g]);
            if g + 1 < n {
                out.push(vec![0, g, g + 1]);
                out.push(vec![0, g + 1, g]);
            }
            g += step;
        }
        for k in [2u16, 255, 256, 257, n] {
            // the whole-font lists of the large quick-tier sources are left to the thorough tier
            if src.light && k == n && n > 1000 {
                continue;
            }
            if k <= n && k >= 2 {
                out.push((0..k).collect());
                let mut r: Vec<u16> = vec![0];
                r.extend((1..k).rev());
                out.push(r);
            }
        }
        // tail of the font (glyphs beyond numberOfHMetrics live there)
        if n > 4 {
            out.push(vec![0, n - 1, n - 2, n - 3]);
        }
        // C08 thresholds: lists whose retained characters are all Mac Roman (or that retain no character at all) with
        // <= 255 and > 255 glyphs, arranged so that a mapped glyph receives a new id above 255
        if let Some((enc, map)) = guard(|| source_selected_map(&src.data)).ok().flatten() {
            if enc == "Symbol" {
                // the lowest and highest symbol codes (block boundaries 0xF020 / 0xF0FF, 0x7F/0x80), alone and together
                let codes: Vec<(u32, u16)> = map.iter().filter(|(_, g)| **g != 0).map(|(c, g)| (*c, *g)).collect();
                let mut edge: Vec<u16> = Vec::new();
                for (c, g) in codes.iter().take(2).chain(codes.iter().rev().take(3)) {
                    let _ = c;
                    if !edge.contains(g) {
                        edge.push(*g);
                    }
                }
                for (c, g) in &codes {
                    if matches!(c & 0xFF, 0x7E | 0x7F | 0x80 | 0xFE | 0xFF) && !edge.contains(g) {
                        edge.push(*g);
                    }
                }
                for g in &edge {
                    out.push(vec![0, *g]);
                }
                if edge.len() > 1 {
                    let mut l = vec![0u16];
                    l.extend(edge.iter());
                    out.push(l);
                }
            }
            if enc == "Unicode" {
                let mut mac_glyphs: Vec<u16> = Vec::new();
                let mut non_mac: std::collections::BTreeSet<u16> = std::collections::BTreeSet::new();
                for (c, g) in &map {
                    match char::from_u32(*c) {
                        Some(ch) if mac_allowed(ch as u32) => mac_glyphs.push(*g),
                        _ => {
                            non_mac.insert(*g);
                        }
                    }
                }
                mac_glyphs.sort();
                mac_glyphs.dedup();
                mac_glyphs.retain(|g| !non_mac.contains(g) && *g != 0);
                let unmapped: Vec<u16> = (1..n).filter(|g| !non_mac.contains(g) && !mac_glyphs.contains(g)).collect();
                for total in [200usize, 255, 256, 257, 300] {
                    if mac_glyphs.len() >= 2 && unmapped.len() + mac_glyphs.len() + 1 >= total {
                        // [0, unmapped..., mac...]: the Mac Roman glyphs come last and get the highest new ids
                        let k = mac_glyphs.len().min(6);
                        let mut l = vec![0u16];
                        l.extend(unmapped.iter().take(total - 1 - k));
                        l.extend(mac_glyphs.iter().take(k));
                        if l.len() == total {
                            out.push(l);
                        }
                    }
                }
                // character neighbourhoods: windows of consecutively encoded characters. Every ordered duplicate-free
                // selection from a window (plus one glyph that no retained character maps to), on its own and together
                // with an astral glyph (forces a format 12 output) or a non-Mac-Roman BMP glyph (forces format 4): the cmap
                // writers group characters by code adjacency AND glyph id adjacency, and both orders and gaps occur here.
                {
                    let chars: Vec<(u32, u16)> = map.iter().map(|(c, g)| (*c, *g)).collect();
                    let win = 5usize;
                    let mut windows: Vec<Vec<u16>> = Vec::new();
                    let mut want_mac = true;
                    let mut i = 0;
                    while i + win <= chars.len() && windows.len() < if thorough { 2 } else { 1 } + 1 {
                        let w = &chars[i..i + win];
                        let consecutive = w.windows(2).all(|p| p[1].0 == p[0].0 + 1);
                        let gl: Vec<u16> = w.iter().map(|x| x.1).collect();
                        let distinct = gl.iter().all(|g| *g != 0) && (0..win).all(|a| (a + 1..win).all(|b| gl[a] != gl[b]));
                        let is_mac = mac_allowed(w[0].0) && w[0].0 >= 0x41;
                        if consecutive && distinct && (is_mac == want_mac) && w[0].0 >= 0x41 {
                            windows.push(gl);
                            want_mac = !want_mac;
                            i += win;
                        } else {
                            i += 1;
                        }
                    }
                    let astral_g: Option<u16> = map.iter().find(|(c, g)| **c > 0xFFFF && **g != 0).map(|(_, g)| *g);
                    let bmp_g: Option<u16> = map.iter().find(|(c, g)| **c > 0x2000 && **c <= 0xFFFF && **g != 0 && !mac_allowed(**c)).map(|(_, g)| *g);
                    let gap_g: Option<u16> = unmapped.first().copied();
                    let max_sel = if thorough { 4 } else { 3 };
                    for w in &windows {
                        let mut uni: Vec<u16> = w.clone();
                        if let Some(g) = gap_g {
                            if !uni.contains(&g) {
                                uni.push(g);
                            }
                        }
                        let mut sels: Vec<Vec<u16>> = Vec::new();
                        fn rec(cur: &mut Vec<u16>, uni: &[u16], max: usize, out: &mut Vec<Vec<u16>>) {
                            if cur.len() >= 2 {
                                out.push(cur.clone());
                            }
                            if cur.len() == max {
                                return;
                            }
                            for g in uni {
                                if !cur.contains(g) {
                                    cur.push(*g);
                                    rec(cur, uni, max, out);
                                    cur.pop();
                                }
                            }
                        }
                        rec(&mut Vec::new(), &uni, max_sel, &mut sels);
                        for sel in sels {
                            let mut l = vec![0u16];
                            l.extend(sel.iter());
                            out.push(l.clone());
                            for extra in [astral_g, bmp_g].into_iter().flatten() {
                                if !l.contains(&extra) {
                                    // at every position: in front, between any two selected glyphs, at the end
                                    for pos in 1..=l.len() {
                                        let mut a = l.clone();
                                        a.insert(pos, extra);
                                        out.push(a);
                                    }
                                }
                            }
                        }
                    }
                }
                // the Mac Roman characters with the highest code points (dagger ... trade mark, fraction slash, fi and fl
                // ligatures, Apple logo): all together and one by one
                {
                    let mut hi: Vec<u16> = Vec::new();
                    for (c, g) in map.iter() {
                        if *c > 0x2000 && *g != 0 && mac_byte_of(*c).is_some() && !hi.contains(g) {
                            hi.push(*g);
                        }
                    }
                    if !hi.is_empty() {
                        let mut l = vec![0u16];
                        l.extend(hi.iter());
                        out.push(l);
                        for g in hi.iter().rev().take(6) {
                            out.push(vec![0, *g]);
                        }
                    }
                }
                // astral / BMP-only retained sets
                let astral: Vec<u16> = map.iter().filter(|(c, _)| **c > 0xFFFF).map(|(_, g)| *g).take(3).collect();
                if !astral.is_empty() {
                    let mut l = vec![0u16];
                    for g in astral {
                        if !l.contains(&g) {
                            l.push(g);
                        }
                    }
                    out.push(l);
                }
            }
        }
    }
    out
}

/// Mac OS Roman per Apple's ROMAN.TXT (independent of allsorts' tables). allsorts documents the PDF MacRomanEncoding
/// variant, which lacks 15 mathematical symbols / the Apple logo and has CURRENCY SIGN instead of EURO SIGN at 0xDB:
/// those characters MAY be kept or dropped by a Mac Roman target; every other Mac Roman character MUST be kept.
const MAC_OPTIONAL_BYTES: [u8; 16] = [0xAD, 0xB0, 0xB2, 0xB3, 0xB6, 0xB7, 0xB8, 0xB9, 0xBA, 0xBD, 0xC3, 0xC5, 0xC6, 0xD7, 0xF0, 0xDB];

fn mac_byte_of(ch: u32) -> Option<u8> {
    if ch < 0x80 {
        return Some(ch as u8);
    }
    otmodel::cmapenc::MAC_ROMAN_HIGH.iter().position(|u| *u == ch).map(|i| 0x80 + i as u8)
}

/// characters a Mac Roman target must keep
fn mac_required(ch: u32) -> bool {
    matches!(mac_byte_of(ch), Some(b) if b >= 0x20 && b != 0x7F && !MAC_OPTIONAL_BYTES.contains(&b))
}

/// characters a Mac Roman target may keep
fn mac_allowed(ch: u32) -> bool {
    mac_byte_of(ch).is_some() || ch == 0xA4
}

/// decoding of a (1,0) output subtable: ROMAN.TXT, with 0xDB read as CURRENCY SIGN (the PDF variant allsorts documents)
fn mac_char_of(byte: u8) -> u32 {
    if byte == 0xDB {
        0xA4
    } else if byte < 0x80 {
        byte as u32
    } else {
        otmodel::cmapenc::MAC_ROMAN_HIGH[byte as usize - 0x80]
    }
}

struct Case<'a> {
    src: &'a Source,
    list: &'a [u16],
    opt: Opt,
}

impl<'a> Case<'a> {
    fn describe(&self) -> Value {
        json!({"font": self.src.name, "glyph_ids": if self.list.len() <= 40 { json!(self.list) } else { json!(format!("{} ids: {:?}...{:?}", self.list.len(), &self.list[..6], &self.list[self.list.len() - 3..])) }, "option": format!("{:?}", self.opt)})
    }
}

fn do_subset(p: &DynamicFontTableProvider<'_>, list: &[u16], opt: Opt) -> Result<Vec<u8>, String> {
    let r = match opt {
        Opt::Subset => allsorts::subset::subset(p, list),
        Opt::PrinceUnrestricted => allsorts::subset::prince::subset(p, list, PrinceCmapTarget::Unrestricted, false),
        Opt::PrinceMacRoman => allsorts::subset::prince::subset(p, list, PrinceCmapTarget::MacRoman, false),
        Opt::PrinceOmit => allsorts::subset::prince::subset(p, list, PrinceCmapTarget::Omit, false),
        Opt::PrinceSupplied => {
            let mut arr = [0u8; 256];
            for (i, _) in list.iter().enumerate().take(200) {
                arr[0x20 + i % 200] = i as u8;
            }
            allsorts::subset::prince::subset(p, list, PrinceCmapTarget::MacRomanCmap(Box::new(arr)), false)
        }
        Opt::PrinceCidConvert => allsorts::subset::prince::subset(p, list, PrinceCmapTarget::Unrestricted, true),
    };
    r.map_err(|e| format!("{:?}", e))
}

/// The cmap subtable the library selects in the source, as an independent model map code -> glyph.
fn source_selected_map(src_data: &[u8]) -> Option<(String, BTreeMap<u32, u16>)> {
    let fd = ReadScope::new(src_data).read::<FontData<'_>>().ok()?;
    let p = fd.table_provider(0).ok()?;
    let cmap = p.read_table_data(tag::CMAP).ok()?.into_owned();
    let font = Font::new(p).ok()?;
    let off = cmap.len() - font.cmap_subtable_data().len();
    let enc = format!("{:?}", font.cmap_subtable_encoding);
    read::cmap_mappings(&cmap[off..]).map(|m| (enc, m))
}

/// The sfnt a WOFF2 fixture was made from (same glyph order), if the repository has it.
fn woff2_twin(name: &str) -> Option<&'static [u8]> {
    static TWINS: std::sync::OnceLock<Vec<(&'static str, Vec<u8>)>> = std::sync::OnceLock::new();
    let t = TWINS.get_or_init(|| {
        [("fonts/woff2/test-font.woff2", "fonts/opentype/test-font.ttf"), ("fonts/woff2/SFNT-TTF-Composite.woff2", "fonts/opentype/SFNT-TTF-Composite.ttf")]
            .iter()
            .filter_map(|(w, s)| std::fs::read(format!("/repo/tests/{}", s)).ok().filter(|d| !d.is_empty()).map(|d| (*w, d)))
            .collect()
    });
    t.iter().find(|(w, _)| *w == name).map(|(_, d)| &d[..])
}

fn check_case(ctx: &Ctx, which: Which, case: &Case<'_>, src_map: &Option<(String, BTreeMap<u32, u16>)>) -> bool {
    let id = which.id();
    let fd = ReadScope::new(&case.src.data).read::<FontData<'_>>().expect("machinery: source");
    let provider = fd.table_provider(0).expect("machinery: provider");
    let out = match guard(|| do_subset(&provider, case.list, case.opt)) {
        Err(p) => {
            ctx.violation(&format!("{}:panic:{}", id, p.site_key("/repo")), || json!({"case": case.describe(), "panic": p.msg, "at": p.loc()}));
            return false;
        }
        Ok(Err(_e)) => {
            if std::env::var_os("VERIF_DEBUG_C07").is_some() && case.src.name.starts_with("synthetic") {
                eprintln!("DEBUG subset failed: {} {:?} {:?}: {}", case.src.name, case.list, case.opt, _e);
            }
            return false; // the properties speak about successful subsets
        }
        Ok(Ok(o)) => o,
    };
    let bare_cff = !(out.len() >= 4 && (out[..4] == [0, 1, 0, 0] || &out[..4] == b"OTTO"));
    let list = case.list;
    match which {
        Which::C07 => {
            // outlines + metrics of retained glyphs. A WOFF2 fixture is judged against the sfnt it was made from: the table
            // provider of a WOFF2 file re-serialises glyf, loca and hmtx itself, so reading the source side through it would
            // let a defect of that writer cancel out on both sides.
            let twin_fd = woff2_twin(&case.src.name).and_then(|d| ReadScope::new(d).read::<FontData<'_>>().ok());
            let twin_provider = twin_fd.as_ref().and_then(|f| f.table_provider(0).ok());
            let provider = match &twin_provider {
                Some(t) => t,
                None => &provider,
            };
            let src_basics = read_basics(provider);
            if bare_cff {
                let ind = crate::c18::IndependentCff::new(&out);
                independent_cff_tables(ctx, case, &ind, &src_basics, list);
                for (new, &old) in list.iter().enumerate() {
                    let a = guard(|| outline_of(provider, old));
                    let b = guard(|| bare_cff_outline(&out, new as u16));
                    independent_cff_seam(ctx, case, &ind, old, new as u16, &a);
                    cmp_outline(ctx, id, case, old, new as u16, a, b);
                }
                return true;
            }
            let ofd = match ReadScope::new(&out).read::<FontData<'_>>() {
                Ok(f) => f,
                Err(e) => {
                    ctx.violation("C07:output-does-not-parse", || json!({"case": case.describe(), "error": format!("{:?}", e)}));
                    return true;
                }
            };
            let op = ofd.table_provider(0).expect("provider of output");
            let out_basics = read_basics(&op);
            if let (Some((sm, _)), Some((om, ong))) = (&src_basics, &out_basics) {
                if (*ong as usize) < list.len() {
                    ctx.violation("C07:fewer-glyphs-than-requested", || json!({"case": case.describe(), "output_num_glyphs": ong}));
                }
                for (new, &old) in list.iter().enumerate() {
                    match (sm.get(old as usize), om.get(new)) {
                        (Some(a), Some(b)) if a == b => {}
                        (a, b) => {
                            let nhm = src_num_h_metrics(provider).unwrap_or(0);
                            let key = if a.map(|x| x.0) == b.map(|x| x.0) { if old >= nhm { "C07:lsb-differs-for-glyph-beyond-numberOfHMetrics" } else { "C07:lsb-differs" } } else { "C07:advance-differs" };
                            ctx.violation(key, || json!({"case": case.describe(), "old_id": old, "new_id": new, "source_(advance,lsb)": a, "output_(advance,lsb)": b, "source_numberOfHMetrics": nhm}));
                        }
                    }
                }
                // glyphs the subsetter appended (components of retained composites that were not requested): the pairs
                // (source component, output component) are read off the composite records, position by position, and
                // followed transitively; their metrics belong to the retained composite's rendering just as its outline
                let mut pairs: Vec<(u16, u16)> = Vec::new();
                if let (Some(sc), Some(oc)) = (glyph_components(provider), glyph_components(&op)) {
                    let mut todo: Vec<(u16, u16)> = list.iter().enumerate().map(|(n, &o)| (o, n as u16)).collect();
                    let mut seen: std::collections::BTreeSet<(u16, u16)> = todo.iter().copied().collect();
                    while let Some((o, n)) = todo.pop() {
                        let (a, b) = (sc(o), oc(n));
                        if a.len() != b.len() {
                            ctx.violation("C07:composite-component-count-differs", || json!({"case": case.describe(), "old_id": o, "new_id": n, "source_components": a, "output_components": b}));
                            continue;
                        }
                        for (x, y) in a.iter().zip(b.iter()) {
                            if seen.insert((*x, *y)) {
                                todo.push((*x, *y));
                                if (*y as usize) >= list.len() {
                                    pairs.push((*x, *y));
                                }
                            }
                        }
                    }
                }
                for (old, new) in pairs {
                    match (sm.get(old as usize), om.get(new as usize)) {
                        (Some(a), Some(b)) if a == b => {}
                        (a, b) => ctx.violation("C07:metrics-of-appended-component-differ", || json!({"case": case.describe(), "old_id": old, "new_id": new, "source_(advance,lsb)": a, "output_(advance,lsb)": b})),
                    }
                }
            } else {
                ctx.violation("C07:metrics-unreadable", || json!({"case": case.describe()}));
            }
            let ind = if otmodel::sfnt::parse(&out).map_or(false, |f| f.table(otmodel::tag(b"CFF ")).is_some()) { Some(crate::c18::IndependentCff::new(&out)) } else { None };
            if let Some(ind) = &ind {
                independent_cff_tables(ctx, case, ind, &src_basics, list);
            }
            for (new, &old) in list.iter().enumerate() {
                let a = guard(|| outline_of(provider, old));
                let b = guard(|| outline_of(&op, new as u16));
                if let Some(ind) = &ind {
                    independent_cff_seam(ctx, case, ind, old, new as u16, &a);
                }
                cmp_outline(ctx, id, case, old, new as u16, a, b);
            }
        }
        Which::C08 => {
            if bare_cff || case.opt == Opt::PrinceOmit || case.opt == Opt::PrinceSupplied {
                return false;
            }
            let (enc, smap) = match src_map {
                Some(m) => m,
                None => return false,
            };
            let f = match sfnt::parse(&out) {
                Some(f) => f,
                None => return true,
            };
            let cm = match f.table(tag::CMAP) {
                Some(c) => c,
                None => {
                    ctx.violation("C08:no-cmap-in-output", || json!({"case": case.describe()}));
                    return true;
                }
            };
            // the output has one encoding record; read it independently
            let recs = read::cmap_records(cm).unwrap_or_default();
            let omap: BTreeMap<u32, u16> = match recs.first().and_then(|r| cm.get(r.offset as usize..)).and_then(read::cmap_mappings) {
                Some(m) => m,
                None => {
                    ctx.violation("C08:output-cmap-unreadable", || json!({"case": case.describe(), "records": format!("{:?}", recs)}));
                    return true;
                }
            };
            let out_pid_eid = recs.first().map(|r| (r.platform, r.encoding)).unwrap_or((9, 9));
            let new_id: BTreeMap<u16, u16> = list.iter().enumerate().map(|(i, g)| (*g, i as u16)).collect();
            let macroman_target = case.opt == Opt::PrinceMacRoman;
            // OS/2.usFirstCharIndex of the source (independent read: offset 64 of the table)
            let symbol_first_char: u32 = provider.read_table_data(tag::OS_2).ok().filter(|d| d.len() >= 66).map(|d| u16::from_be_bytes([d[64], d[65]]) as u32).unwrap_or(0xF020);
            // expected output map in *character* space
            let mut expect: BTreeMap<u32, u16> = BTreeMap::new();
            // Mac Roman target only: characters that may be kept or dropped (if kept, with this glyph)
            let mut optional: BTreeMap<u32, u16> = BTreeMap::new();
            for (&code, &g) in smap.iter() {
                if let Some(&n) = new_id.get(&g) {
                    if n == 0 {
                        continue; // glyph 0 is "unmapped" either way
                    }
                    // source code -> character
                    let ch = match enc.as_str() {
                        "Unicode" => Some(code),
                        // Symbol source, Mac Roman target: the symbol code is turned back into the text character a user would
                        // type for it (usFirstCharIndex stands for U+0020; the code may be written with or without the 0xF000
                        // private-use offset), and that character decides the Mac Roman byte
                        "Symbol" if macroman_target => {
                            let code0 = if (0xF000..=0xF0FF).contains(&code) { code } else { code + 0xF000 };
                            (code0 + 0x20).checked_sub(symbol_first_char)
                        }
                        "Symbol" => Some(code),
                        "AppleRoman" => Some(mac_char_of(code as u8)),
                        // Windows Big5 source: the character a code stands for, from the independent reference (a code that
                        // stands for two characters has no single character and is left out of the comparison)
                        "Big5" => u16::try_from(code).ok().and_then(crate::util::big5ref::decode).filter(|v| v.len() == 1).map(|v| v[0] as u32),
                        _ => None,
                    };
                    if let Some(ch) = ch {
                        if macroman_target {
                            if mac_required(ch) {
                                expect.entry(ch).or_insert(n);
                            } else if mac_allowed(ch) {
                                optional.entry(ch).or_insert(n);
                            }
                        } else {
                            expect.entry(ch).or_insert(n);
                        }
                    }
                }
            }
            // observed output map in character space
            let mut observed: BTreeMap<u32, u16> = BTreeMap::new();
            for (&code, &g) in omap.iter() {
                let ch = if out_pid_eid == (1, 0) { Some(mac_char_of(code as u8)) } else { Some(code) };
                if let Some(ch) = ch {
                    observed.insert(ch, g);
                }
            }
            if std::env::var_os("VERIF_DEBUG_C07").is_some() && case.src.name.starts_with("synthetic/symbol") && macroman_target {
                eprintln!("DEBUG symbol mac: list={:?} enc={} first={:#x} expect={:?} observed={:?} out_rec={:?}", &list[..list.len().min(6)], enc, symbol_first_char, expect, observed, out_pid_eid);
            }
            for (ch, n) in expect.iter() {
                let got = observed.get(ch).copied().unwrap_or(0);
                if got != *n {
                    let key = if out_pid_eid == (1, 0) && *n > 255 { "C08:macroman-format0-truncates-glyph-id-above-255" } else { "C08:retained-character-maps-to-wrong-glyph" };
                    ctx.violation(key, || json!({"case": case.describe(), "character": ch, "expected_new_glyph": n, "observed": got, "output_cmap_record": out_pid_eid, "output_glyphs": list.len()}));
                    break;
                }
            }
            for (ch, g) in observed.iter() {
                if *g != 0 && expect.get(ch) != Some(g) && optional.get(ch) != Some(g) {
                    let key = if out_pid_eid == (1, 0) && expect.get(ch).map_or(false, |n| *n > 255) { "C08:macroman-format0-truncates-glyph-id-above-255" } else { "C08:character-not-in-source-mapping-is-mapped" };
                    ctx.violation(key, || json!({"case": case.describe(), "character": ch, "observed_glyph": g, "expected": expect.get(ch), "output_cmap_record": out_pid_eid}));
                    break;
                }
            }
            // the library's own lookup on the output agrees (Unicode outputs)
            if out_pid_eid.0 == 0 {
                if let Ok(Ok(v)) = guard(|| {
                    crate::util::with_font(&out, |font| expect.iter().take(300).filter_map(|(ch, n)| char::from_u32(*ch).map(|c| (*ch, *n, font.lookup_glyph_index(c, MatchingPresentation::NotRequired, None).0))).collect::<Vec<_>>())
                }) {
                    for (ch, n, got) in v {
                        if n != got {
                            ctx.violation("C08:lookup_glyph_index-on-output-differs", || json!({"case": case.describe(), "character": ch, "expected": n, "got": got}));
                            break;
                        }
                    }
                }
            }
            return !expect.is_empty();
        }
        Which::C09 => {
            if bare_cff {
                return false;
            }
            let problems = read::validate_font(&out);
            for pr in problems.iter().take(3) {
                let class: String = pr.split(|c: char| c.is_ascii_digit()).next().unwrap_or("").trim().chars().take(60).collect::<String>().replace(' ', "-");
                ctx.violation(&format!("C09:subset:{}", class), || json!({"case": case.describe(), "problem": pr, "all_problems": problems.iter().take(10).collect::<Vec<_>>(), "output_len": out.len()}));
            }
            // the library itself loads the result and can query every retained glyph
            let r = guard(|| {
                let fd = ReadScope::new(&out).read::<FontData<'_>>().map_err(|e| format!("{:?}", e))?;
                let p = fd.table_provider(0).map_err(|e| format!("{:?}", e))?;
                if case.opt != Opt::PrinceOmit {
                    let p2 = fd.table_provider(0).map_err(|e| format!("{:?}", e))?;
                    let mut font = Font::new(p2).map_err(|e| format!("Font::new {:?}", e))?;
                    for g in 0..list.len() as u16 {
                        font.horizontal_advance(g).ok_or(format!("no advance for glyph {}", g))?;
                    }
                }
                for g in 0..list.len() as u16 {
                    outline_of(&p, g).map_err(|e| format!("glyph {}: {}", g, e))?;
                }
                Ok::<(), String>(())
            });
            match r {
                Err(p) => ctx.violation(&format!("C09:panic:{}", p.site_key("/repo")), || json!({"case": case.describe(), "panic": p.msg})),
                Ok(Err(e)) => {
                    let class: String = e.split(|c: char| c.is_ascii_digit()).next().unwrap_or("").trim().replace(' ', "-");
                    ctx.violation(&format!("C09:subset:library-cannot-use-its-own-output:{}", class), || json!({"case": case.describe(), "error": e}))
                }
                Ok(Ok(())) => {}
            }
        }
    }
    true
}

fn read_basics(p: &impl FontTableProvider) -> Option<(Vec<(u16, i16)>, u16)> {
    let maxp = p.read_table_data(tag::MAXP).ok()?;
    let hhea = p.read_table_data(tag::HHEA).ok()?;
    let hmtx = p.read_table_data(tag::HMTX).ok()?;
    let ng = u16::from_be_bytes([*maxp.get(4)?, *maxp.get(5)?]);
    let nhm = u16::from_be_bytes([*hhea.get(34)?, *hhea.get(35)?]);
    read::hmtx_metrics(&hmtx, ng, nhm).map(|m| (m, ng))
}

fn src_num_h_metrics(p: &impl FontTableProvider) -> Option<u16> {
    let hhea = p.read_table_data(tag::HHEA).ok()?;
    Some(u16::from_be_bytes([*hhea.get(34)?, *hhea.get(35)?]))
}

/// Independent seam on the output side: the retained glyph read from the output's `CFF ` table by the C18 reader +
/// reference interpreter (no allsorts code) must equal the source outline (allsorts' visitor on the source) and, for the
/// C18 model fonts, the model path itself.
fn independent_cff_seam(ctx: &Ctx, case: &Case<'_>, ind: &Result<crate::c18::IndependentCff<'_>, String>, old: u16, new: u16, source: &Result<Result<Path, String>, mcx::PanicInfo>) {
    let b = guard(|| match ind {
        Ok(i) => i.outline(new).map(Path),
        Err(e) => Err(e.clone()),
    });
    ctx.bump("independent_cff_outlines_compared", 1);
    cmp_outline(ctx, "C07:independent-reader", case, old, new, source.clone(), b.clone());
    if let Some(model) = crate::c18::c07_model_paths(&case.src.name) {
        if let Some(m) = model.get(old as usize) {
            cmp_outline(ctx, "C07:independent-reader-vs-model", case, old, new, Ok(Ok(Path(m.clone()))), b);
        }
    }
}

/// Table-level checks on an output `CFF ` table through the independent reader: (a) the advance the CFF data declares for
/// every retained glyph (defaultWidthX / nominalWidthX + width operand) equals the advance of the source glyph - taken from
/// the source's own CFF data when the source is CFF (charstrings are carried over), from the source hmtx when the source is
/// CFF2 (charstrings are converted and the width operand is synthesised from hmtx); (b) when source and output are both CFF
/// with the same keying, every DICT value that subsetting has no reason to touch is unchanged: Top DICT without the offset
/// operators charset / Encoding / CharStrings / Private / FDArray / FDSelect, every Font DICT without Private, every
/// Private DICT without Subrs.
fn independent_cff_tables(ctx: &Ctx, case: &Case<'_>, ind: &Result<crate::c18::IndependentCff<'_>, String>, src_basics: &Option<(Vec<(u16, i16)>, u16)>, list: &[u16]) {
    let out = match ind {
        Ok(i) => i,
        Err(_) => return, // reported by the outline seam
    };
    // every custom string (SID >= 391) the output refers to - from its DICTs and, for a name-keyed font, its charset - must
    // resolve inside the output's String INDEX
    let nstr = out.string_index_len();
    for (place, sid) in out.referenced_sids() {
        if sid >= 391 && (sid as usize - 391) >= nstr {
            ctx.violation("C07:independent-reader:sid-beyond-string-index", || json!({"case": case.describe(), "referenced_from": place, "sid": sid, "strings_in_output": nstr}));
            break;
        }
    }
    ctx.bump("independent_cff_sid_tables_checked", 1);
    let src_sfnt = otmodel::sfnt::parse(&case.src.data);
    let src_is_cff2 = src_sfnt.as_ref().map_or(false, |f| f.table(otmodel::tag(b"CFF2")).is_some());
    let src_cff = if src_sfnt.as_ref().map_or(false, |f| f.table(otmodel::tag(b"CFF ")).is_some()) { crate::c18::IndependentCff::new(&case.src.data).ok() } else { None };
    for (new, &old) in list.iter().enumerate() {
        let got = match guard(|| out.advance(new as u16)) {
            Ok(Ok(a)) => a,
            _ => continue, // unreadable glyphs are reported by the outline seam
        };
        let want: Option<f32> = if let Some(sc) = &src_cff {
            guard(|| sc.advance(old)).ok().and_then(|r| r.ok())
        } else if src_is_cff2 {
            src_basics.as_ref().and_then(|(m, _)| m.get(old as usize)).map(|m| m.0 as f32)
        } else {
            None
        };
        if let Some(w) = want {
            ctx.bump("independent_cff_advances_compared", 1);
            if (w - got).abs() > 0.01 {
                ctx.violation("C07:independent-reader:cff-advance-differs", || json!({"case": case.describe(), "old_id": old, "new_id": new, "source_advance": w, "advance_declared_by_output_cff": got, "source_is_cff2": src_is_cff2}));
            }
        }
    }
    if let Some(sc) = &src_cff {
        // global subroutines: the subsetter keeps the INDEX length (unused entries emptied) so that biased operands stay valid,
        // or drops the INDEX altogether when no retained glyph calls a global subroutine
        let (gs, go) = (sc.global_subr_count(), out.global_subr_count());
        if go != gs && go != 0 {
            ctx.violation("C07:independent-reader:global-subr-count-changed", || json!({"case": case.describe(), "source": gs, "output": go}));
        }
        if sc.is_cid_keyed() != out.is_cid_keyed() {
            return; // converted to CID-keyed: the DICTs are rebuilt
        }
        // strings: a SID-valued operator names the same string as in the source (custom strings compared as text, standard
        // strings by SID); a name-keyed output names every retained glyph as the source does
        let name_of = |f: &crate::c18::IndependentCff<'_>, sid: u16| -> Result<u16, Option<Vec<u8>>> { if sid < 391 { Ok(sid) } else { Err(f.custom_string(sid)) } };
        let (srefs, orefs) = (sc.referenced_sids(), out.referenced_sids());
        for (place, osid) in orefs.iter().filter(|(p, _)| !p.starts_with("charset[")) {
            if let Some((_, ssid)) = srefs.iter().find(|(p, _)| p == place) {
                if name_of(out, *osid) != name_of(sc, *ssid) {
                    ctx.violation("C07:independent-reader:dict-string-changed", || json!({"case": case.describe(), "operator": place, "source_sid": ssid, "output_sid": osid, "source_string": sc.custom_string(*ssid).map(|s| String::from_utf8_lossy(&s).to_string()), "output_string": out.custom_string(*osid).map(|s| String::from_utf8_lossy(&s).to_string())}));
                    break;
                }
            }
        }
        if !out.is_cid_keyed() {
            if let (Some(sn), Some(on)) = (sc.charset_ids(), out.charset_ids()) {
                for (new, &old) in list.iter().enumerate().skip(1) {
                    if old == 0 {
                        continue;
                    }
                    if let (Some(ss), Some(os)) = (sn.get(old as usize - 1), on.get(new - 1)) {
                        if name_of(out, *os) != name_of(sc, *ss) {
                            ctx.violation("C07:independent-reader:glyph-name-changed", || json!({"case": case.describe(), "old_id": old, "new_id": new, "source_sid": ss, "output_sid": os, "source_name": sc.custom_string(*ss).map(|s| String::from_utf8_lossy(&s).to_string()), "output_name": out.custom_string(*os).map(|s| String::from_utf8_lossy(&s).to_string())}));
                            break;
                        }
                    }
                }
            }
        }
        let strip = |d: Vec<(u16, Vec<f64>)>, drop: &[u16]| -> Vec<(u16, Vec<f64>)> { d.into_iter().filter(|e| !drop.contains(&e.0)).collect() };
        let same = |a: &[(u16, Vec<f64>)], b: &[(u16, Vec<f64>)]| a.len() == b.len() && a.iter().zip(b.iter()).all(|(x, y)| x.0 == y.0 && x.1.len() == y.1.len() && x.1.iter().zip(y.1.iter()).all(|(p, q)| (p - q).abs() <= 1e-9 * p.abs().max(1.0)));
        let cmp = |what: &str, a: Vec<(u16, Vec<f64>)>, b: Vec<(u16, Vec<f64>)>| {
            ctx.bump("independent_cff_dicts_compared", 1);
            if !same(&a, &b) {
                ctx.violation(&format!("C07:independent-reader:{}-values-changed", what), || json!({"case": case.describe(), "source_dict": format!("{:?}", a), "output_dict": format!("{:?}", b)}));
            }
        };
        // charset 15, Encoding 16, CharStrings 17, Private 18, FDArray 12 36, FDSelect 12 37
        let top_offsets = [15u16, 16, 17, 18, 0x0c24, 0x0c25];
        cmp("top-dict", strip(sc.top_dict(), &top_offsets), strip(out.top_dict(), &top_offsets));
        if sc.num_font_dicts() == out.num_font_dicts() && sc.num_private_dicts() == out.num_private_dicts() {
            for f in 0..sc.num_font_dicts() {
                cmp("font-dict", strip(sc.font_dict(f), &[18]), strip(out.font_dict(f), &[18]));
            }
            for f in 0..sc.num_private_dicts() {
                cmp("private-dict", strip(sc.private_dict(f), &[19]), strip(out.private_dict(f), &[19]));
            }
        } else {
            ctx.violation("C07:independent-reader:font-dict-count-changed", || json!({"case": case.describe(), "source": [sc.num_font_dicts(), sc.num_private_dicts()], "output": [out.num_font_dicts(), out.num_private_dicts()]}));
        }
    }
}

fn cmp_outline(ctx: &Ctx, id: &str, case: &Case<'_>, old: u16, new: u16, a: Result<Result<Path, String>, mcx::PanicInfo>, b: Result<Result<Path, String>, mcx::PanicInfo>) {
    match (a, b) {
        (Ok(Ok(a)), Ok(Ok(b))) => {
            if !paths_close(&a, &b) {
                ctx.violation(&format!("{}:outline-differs", id), || json!({"case": case.describe(), "old_id": old, "new_id": new, "source_commands": a.0.len(), "output_commands": b.0.len(), "source_head": format!("{:?}", &a.0[..a.0.len().min(4)]), "output_head": format!("{:?}", &b.0[..b.0.len().min(4)])}));
            }
        }
        (Ok(Err(_)), _) => {} // the source glyph itself cannot be visited: nothing to preserve
        (Ok(Ok(_)), Ok(Err(e))) => ctx.violation(&format!("{}:retained-glyph-unreadable-in-output", id), || json!({"case": case.describe(), "old_id": old, "new_id": new, "error": e})),
        (Err(p), _) | (_, Err(p)) => ctx.violation(&format!("{}:panic:{}", id, p.site_key("/repo")), || json!({"case": case.describe(), "old_id": old, "panic": p.msg})),
    }
}

pub fn run_which(ctx: &Ctx, which: Which) {
    let thorough = ctx.tier.thorough();
    let sources = load_sources(thorough);
    let opts: &[Opt] = &[Opt::Subset, Opt::PrinceUnrestricted, Opt::PrinceMacRoman, Opt::PrinceOmit, Opt::PrinceSupplied, Opt::PrinceCidConvert];
    let mut jobs: Vec<(usize, Vec<u16>, Opt)> = Vec::new();
    let mut per_font = Vec::new();
    for (si, s) in sources.iter().enumerate() {
        let lists = glyph_lists(s, thorough);
        per_font.push(json!({"font": s.name, "num_glyphs": s.num_glyphs, "glyph_lists": lists.len(), "all_ordered_lists": s.small}));
        for l in lists {
            for &o in opts {
                // the Prince options differ from Subset only in the cmap / CID handling: exercise them on a third of the lists
                let h = H::new().bytes(&l.iter().flat_map(|g| g.to_be_bytes()).collect::<Vec<u8>>()).get();
                if o != Opt::Subset && !s.small && !s.light && h % 3 != 0 {
                    continue;
                }
                // the two 8000-glyph cmap sources exist for the size of the format 4 subtable the plain subsetter writes
                if o != Opt::Subset && s.name.contains("the-format-4-size-limit") {
                    continue;
                }
                if o == Opt::PrinceSupplied && l.len() > 200 {
                    continue;
                }
                jobs.push((si, l.clone(), o));
            }
        }
    }
    let maps: Vec<Option<(String, BTreeMap<u32, u16>)>> = sources.iter().map(|s| guard(|| source_selected_map(&s.data)).ok().flatten()).collect();
    ctx.set("fonts", json!(per_font));
    ctx.add_states(jobs.len() as u64 + sources.len() as u64 + 1);
    ctx.add_transitions(jobs.len() as u64);
    let cap = if thorough { 1500.0 } else { 45.0 };
    let skipped = std::sync::atomic::AtomicU64::new(0);
    jobs.par_iter().for_each(|(si, list, opt)| {
        if ctx.elapsed() > cap {
            skipped.fetch_add(1, std::sync::atomic::Ordering::Relaxed);
            return;
        }
        let case = Case { src: &sources[*si], list, opt: *opt };
        let nontrivial = check_case(ctx, which, &case, &maps[*si]);
        ctx.evals(1);
        let h = H::new().u64(*si as u64).bytes(&list.iter().flat_map(|g| g.to_be_bytes()).collect::<Vec<u8>>()).u8(*opt as u8).get();
        if nontrivial && list.len() > 1 {
            ctx.mark_nontrivial(h);
        }
        ctx.mark_outcome(h >> 8);
        ctx.sample(h, || case.describe());
    });
    let sk = skipped.load(std::sync::atomic::Ordering::Relaxed);
    if sk > 0 {
        ctx.not_exhaustive(&format!("wall cap {}s: {} of {} cases not run", cap, sk, jobs.len()));
    }
    ctx.set("bounds", json!({"small_fonts": "every ordered duplicate-free glyph list starting with 0 up to length 4 (thorough 5; all lengths when the font has <= 6 glyphs)", "large_fonts": "[0,g], [0,g,g+1], [0,g+1,g] for every (quick: every k-th) g; prefixes and reversed prefixes of length 2,255,256,257,n; tail"}));
}

pub fn run07(ctx: &Ctx) {
    ctx.set_rule("case = (source font incl. WOFF/WOFF2 containers, glyph id list, output option); every retained glyph's outline (recorded drawing commands) , advance and lsb are compared between source and output; non-trivial = a successful subset with more than one glyph; distinct by (font, list, option)");
    ctx.assume("outlines are compared through allsorts' own visitors on both sides (an independent glyf/charstring reader is applied by C16/C18); metrics are read independently from hmtx");
    run_which(ctx, Which::C07);
}

pub fn run08(ctx: &Ctx) {
    ctx.set_rule("case = (source font, glyph id list, cmap target); the source's selected cmap subtable and the output's cmap are both read by an independent reader and compared in character space: retained glyph -> its new id, everything else -> 0; non-trivial = at least one character expected in the output");
    ctx.assume("the source's selected subtable is the one Font::new selects (C06 decides the selection); Mac Roman byte <-> char uses the library's tables (C06 decides those); Symbol-source with Mac Roman target is not modelled");
    run_which(ctx, Which::C08);
}

pub fn run09(ctx: &Ctx) {
    ctx.set_rule("case = (source font, glyph id list, output option) whose output is an sfnt; the bytes are validated by the independent structural + cross-table validator (otmodel::read::validate_font) and then loaded and queried by the library; non-trivial = a successful subset with more than one glyph");
    ctx.assume("validator implements: sorted directory, search fields, 4-byte alignment, no overlap/gaps, zero padding, table checksums, checkSumAdjustment, file length; maxp/hhea/hmtx/loca/glyf/head/cmap/post/CFF consistency as listed in DESIGN.md C09");
    run_which(ctx, Which::C09);
    crate::c09x::extra(ctx);
}

fn replay_which(w: &Value, which: Which) -> Result<(), String> {
    let c = &w["case"];
    let fontname = c["font"].as_str().ok_or("witness has no case.font (not a subset case): re-run the check")?;
    let list: Vec<u16> = c["glyph_ids"].as_array().ok_or("glyph list was abbreviated in the witness: re-run the check")?.iter().map(|x| x.as_u64().unwrap_or(0) as u16).collect();
    let opt = match c["option"].as_str().unwrap_or("") {
        "Subset" => Opt::Subset,
        "PrinceUnrestricted" => Opt::PrinceUnrestricted,
        "PrinceMacRoman" => Opt::PrinceMacRoman,
        "PrinceOmit" => Opt::PrinceOmit,
        "PrinceSupplied" => Opt::PrinceSupplied,
        _ => Opt::PrinceCidConvert,
    };
    let data = crate::util::fixture(fontname);
    let ng = {
        let fd = ReadScope::new(&data).read::<FontData<'_>>().map_err(|e| format!("{:?}", e))?;
        let p = fd.table_provider(0).map_err(|e| format!("{:?}", e))?;
        let m = p.read_table_data(tag::MAXP).map_err(|e| format!("{:?}", e))?;
        u16::from_be_bytes([m[4], m[5]])
    };
    let src = Source { name: fontname.to_string(), data, num_glyphs: ng, small: true, light: false };
    let ctx = Ctx::new(which.id(), mcx::Tier::Quick, "model_checking");
    let map = guard(|| source_selected_map(&src.data)).ok().flatten();
    check_case(&ctx, which, &Case { src: &src, list: &list, opt }, &map);
    let keys = ctx.violation_keys();
    if keys.is_empty() {
        Ok(())
    } else {
        Err(format!("{:?}", keys))
    }
}

pub fn replay07(w: &Value) -> Result<(), String> {
    replay_which(w, Which::C07)
}
pub fn replay08(w: &Value) -> Result<(), String> {
    replay_which(w, Which::C08)
}
pub fn replay09(w: &Value) -> Result<(), String> {
    replay_which(w, Which::C09)
}
