//! C16 — TrueType `glyf` outlines are decoded with correct contour and composite semantics.
//!
//! Bounded exhaustive exploration of glyph shapes x encodings:
//!  * simple glyphs: every contour of 1..=N points over a small coordinate menu (negative, repeated, odd
//!    coordinates; deltas of every size class) with every on/off-curve pattern, 1 and 2 contours, a delta
//!    boundary family, and - as deviation choices on top of four base encodings - every alternative
//!    flag/coordinate encoding of the same points (int16 instead of short/same, short +0 / -0, repeat flags
//!    in three styles incl. runs spanning two contours, instructions, OVERLAP_SIMPLE, loca format / padding);
//!    a long-run family (127..600 points sharing one flag byte, runs capped at 256/255/129/128/2) so that every
//!    repeat count byte class 0, 1, 127, 128, 254, 255 occurs;
//!  * composite glyphs: 1..=3 components over transform x argument x offset-flag menus, chains of nested
//!    composites up to depth 9 (12), composites of composites with offsets and point-number arguments at both
//!    levels, and cyclic references.
//! The independent encoder and the reference semantics are in `otmodel::glyfenc`. Observed at
//! `OutlineBuilder::visit` on a `GlyfTable` read from the generated glyf+loca bytes, and end to end on a
//! wrapped sfnt through `Font` + table provider (the public outline API of the crate documentation).
//!
//! The harness installs a counting global allocator with one shared counter, so allocations on the hot path
//! are avoided: per-thread scratch buffers are reused and witnesses are only built for the minimal case.

use allsorts::binary::read::ReadScope;
use allsorts::outline::{OutlineBuilder, OutlineSink};
use allsorts::pathfinder_geometry::line_segment::LineSegment2F;
use allsorts::pathfinder_geometry::vector::Vector2F;
use allsorts::tables::glyf::GlyfTable;
use allsorts::tables::loca::LocaTable;
use allsorts::tables::{FontTableProvider, IndexToLocFormat};
use mcx::{explore_par, guard, Chooser, Ctx, H};
use otmodel::glyfenc::{self as ge, Args, Cmd, Component, Contour, Deviations, FlatGlyph, Glyph, Paths, Policy, Pt, RepeatMode, ScaledOffset, SimpleEnc, Xform};
use otmodel::{sfnt, tables, tag};
use serde_json::{json, Value};
use std::cell::RefCell;
use std::collections::BTreeMap;
use std::sync::atomic::{AtomicU64, Ordering::Relaxed};
use std::sync::{Mutex, OnceLock};

/// allsorts documents a nesting limit of 6 (the HarfBuzz value): deeper trees may be refused
const DEPTH_LIMIT_ACCEPTED_ABOVE: usize = 6;

// ------------------------------------------------------------------------------------------ collector

struct Entry {
    order: Vec<u32>,
    count: u64,
    witness: Value,
}

const SHARDS: usize = 32;

/// Findings are gathered here (one shard per worker thread) and handed to `Ctx` at the end in a fixed order,
/// keeping for every key the witness with the smallest order key - so the stored witness is minimal and
/// independent of thread timing.
struct Collector {
    viol: Vec<Mutex<BTreeMap<String, Entry>>>,
    samples: Mutex<BTreeMap<u64, Value>>,
}

impl Collector {
    fn new() -> Collector {
        Collector { viol: (0..SHARDS).map(|_| Mutex::new(BTreeMap::new())).collect(), samples: Mutex::new(BTreeMap::new()) }
    }
    fn report(&self, key: &str, order: Vec<u32>, mk: impl FnOnce() -> Value) {
        let shard = rayon::current_thread_index().unwrap_or(0) % SHARDS;
        let mut m = self.viol[shard].lock().unwrap();
        match m.get_mut(key) {
            Some(e) => {
                e.count += 1;
                if order < e.order {
                    e.order = order;
                    e.witness = mk();
                }
            }
            None => {
                m.insert(key.to_string(), Entry { order, count: 1, witness: mk() });
            }
        }
    }
    fn sample(&self, h: u64, mk: impl FnOnce() -> Value) {
        let mut s = self.samples.lock().unwrap();
        if s.len() < 8 {
            s.insert(h, mk());
        } else {
            let max = *s.keys().next_back().unwrap();
            if h < max && !s.contains_key(&h) {
                s.remove(&max);
                s.insert(h, mk());
            }
        }
    }
    fn flush(self, ctx: &Ctx) {
        let mut all: BTreeMap<String, Entry> = BTreeMap::new();
        for shard in self.viol {
            for (k, e) in shard.into_inner().unwrap() {
                match all.get_mut(&k) {
                    Some(a) => {
                        a.count += e.count;
                        if e.order < a.order {
                            a.order = e.order;
                            a.witness = e.witness;
                        }
                    }
                    None => {
                        all.insert(k, e);
                    }
                }
            }
        }
        for (k, e) in all {
            let w = e.witness;
            ctx.violation(&k, || w);
            for _ in 1..e.count {
                ctx.violation(&k, || Value::Null);
            }
        }
        for (h, v) in self.samples.into_inner().unwrap() {
            ctx.sample(h, || v);
        }
    }
}

// ------------------------------------------------------------------------------------------ per-thread scratch

#[derive(Default)]
struct Scratch {
    enc: ge::EncScratch,
    senc: SimpleEnc,
    deltas: Vec<(i16, i16)>,
    gbytes: Vec<u8>,
    glyf: Vec<u8>,
    loca: Vec<u8>,
    /// contours being generated (taken out while a case runs)
    cur: Vec<Contour>,
    /// the simple shape whose reference is cached below
    shape: Vec<Contour>,
    shape_cmds: Vec<Cmd>,
    shape_paths: Paths,
    /// normalised observation
    obs: Paths,
    /// composite tables: glyph list (taken out while a case runs) and buffers for the reference
    glyphs: Vec<Glyph>,
    flat: FlatGlyph,
    cmds: Vec<Cmd>,
    trial: Paths,
    legit: Vec<Paths>,
    legit_cmds: Vec<Vec<Cmd>>,
}

thread_local! {
    static SCR: RefCell<Scratch> = RefCell::new(Scratch::default());
}

fn with_scratch<R>(f: impl FnOnce(&mut Scratch) -> R) -> R {
    SCR.with(|s| f(&mut s.borrow_mut()))
}

// ------------------------------------------------------------------------------------------ observation

struct Rec(Vec<Cmd>);

impl OutlineSink for Rec {
    fn move_to(&mut self, to: Vector2F) {
        self.0.push(Cmd::Move(to.x() as f64, to.y() as f64));
    }
    fn line_to(&mut self, to: Vector2F) {
        self.0.push(Cmd::Line(to.x() as f64, to.y() as f64));
    }
    fn quadratic_curve_to(&mut self, c: Vector2F, to: Vector2F) {
        self.0.push(Cmd::Quad(c.x() as f64, c.y() as f64, to.x() as f64, to.y() as f64));
    }
    fn cubic_curve_to(&mut self, c: LineSegment2F, to: Vector2F) {
        self.0.push(Cmd::Cubic(c.from_x() as f64, c.from_y() as f64, c.to_x() as f64, c.to_y() as f64, to.x() as f64, to.y() as f64));
    }
    fn close(&mut self) {
        self.0.push(Cmd::Close);
    }
}

enum Obs {
    Ok(Vec<Cmd>),
    Err(String),
    Panic(mcx::PanicInfo),
}

fn visit_tables(glyf: &[u8], loca: &[u8], n: u16, long: bool, gid: u16) -> Result<Vec<Cmd>, String> {
    let fmt = if long { IndexToLocFormat::Long } else { IndexToLocFormat::Short };
    let loca = ReadScope::new(loca).read_dep::<LocaTable<'_>>((usize::from(n), fmt)).map_err(|e| format!("loca:{:?}", e))?;
    let mut table = ReadScope::new(glyf).read_dep::<GlyfTable<'_>>(&loca).map_err(|e| format!("glyf:{:?}", e))?;
    let mut rec = Rec(Vec::with_capacity(64));
    table.visit(gid, &mut rec).map_err(|e| format!("visit:{:?}", e))?;
    Ok(rec.0)
}

fn observe_tables(glyf: &[u8], loca: &[u8], n: u16, long: bool, gid: u16) -> Obs {
    match guard(|| visit_tables(glyf, loca, n, long, gid)) {
        Err(p) => Obs::Panic(p),
        Ok(Err(e)) => Obs::Err(e),
        Ok(Ok(c)) => Obs::Ok(c),
    }
}

/// the crate documentation's way: Font -> table provider -> loca (maxp, head) -> glyf -> visit
fn visit_font(font: &[u8], gid: u16) -> Result<Vec<Cmd>, String> {
    crate::util::with_font(font, |f| {
        let p = &f.font_table_provider;
        let loca_data = p.read_table_data(allsorts::tag::LOCA).map_err(|e| format!("loca data:{:?}", e))?;
        let loca = ReadScope::new(&loca_data)
            .read_dep::<LocaTable<'_>>((usize::from(f.maxp_table.num_glyphs), f.head_table.index_to_loc_format))
            .map_err(|e| format!("loca:{:?}", e))?;
        let glyf_data = p.read_table_data(allsorts::tag::GLYF).map_err(|e| format!("glyf data:{:?}", e))?;
        let mut glyf = ReadScope::new(&glyf_data).read_dep::<GlyfTable<'_>>(&loca).map_err(|e| format!("glyf:{:?}", e))?;
        let mut rec = Rec(Vec::with_capacity(64));
        glyf.visit(gid, &mut rec).map_err(|e| format!("visit:{:?}", e))?;
        Ok(rec.0)
    })?
}

fn observe_font(font: &[u8], gid: u16) -> Obs {
    match guard(|| visit_font(font, gid)) {
        Err(p) => Obs::Panic(p),
        Ok(Err(e)) => Obs::Err(e),
        Ok(Ok(c)) => Obs::Ok(c),
    }
}

fn wrap_font(glyf: &[u8], loca: &[u8], n: u16, long: bool) -> Vec<u8> {
    let extra = [(tag(b"head"), tables::head(1000, if long { 1 } else { 0 })), (tag(b"glyf"), glyf.to_vec()), (tag(b"loca"), loca.to_vec())];
    sfnt::build(sfnt::TTF, &tables::minimal_tables(n, &[], &extra))
}

// ------------------------------------------------------------------------------------------ judgement

enum Outcome {
    Pass,
    LimitAccepted,
    Rejected,
    /// the command stream is not a sequence of closed sub-paths
    Malformed(String),
    /// well formed but different; the normalised observation is left in the `tmp` buffer
    Mismatch,
    Panic,
}

/// compare an observation with the legitimate reference outlines
fn compare(obs: &Obs, legit: &[Paths], accept_limit_err: bool, tmp: &mut Paths) -> Outcome {
    match obs {
        Obs::Panic(_) => Outcome::Panic,
        Obs::Err(e) => {
            if accept_limit_err && e.contains("LimitExceeded") {
                Outcome::LimitAccepted
            } else {
                Outcome::Rejected
            }
        }
        Obs::Ok(cmds) => match ge::paths_into(tmp, cmds) {
            Err(why) => Outcome::Malformed(why),
            Ok(()) => {
                if legit.iter().any(|l| ge::paths_eq(l, tmp)) {
                    Outcome::Pass
                } else {
                    Outcome::Mismatch
                }
            }
        },
    }
}

fn show_obs(o: &Obs) -> Value {
    match o {
        Obs::Ok(c) => json!({"observed": jcmds(c)}),
        Obs::Err(e) => json!({"error": e}),
        Obs::Panic(p) => json!({"panic": p.msg, "at": p.loc()}),
    }
}

fn jcmds(cmds: &[Cmd]) -> Value {
    Value::Array(
        cmds.iter()
            .map(|c| match *c {
                Cmd::Move(x, y) => json!(["M", x, y]),
                Cmd::Line(x, y) => json!(["L", x, y]),
                Cmd::Quad(a, b, x, y) => json!(["Q", a, b, x, y]),
                Cmd::Cubic(a, b, c2, d, x, y) => json!(["C", a, b, c2, d, x, y]),
                Cmd::Close => json!(["Z"]),
            })
            .collect(),
    )
}

fn parse_cmds(v: &Value) -> Option<Vec<Cmd>> {
    let mut out = Vec::new();
    for c in v.as_array()? {
        let a = c.as_array()?;
        let f = |i: usize| a.get(i).and_then(|x| x.as_f64());
        out.push(match a.first()?.as_str()? {
            "M" => Cmd::Move(f(1)?, f(2)?),
            "L" => Cmd::Line(f(1)?, f(2)?),
            "Q" => Cmd::Quad(f(1)?, f(2)?, f(3)?, f(4)?),
            "C" => Cmd::Cubic(f(1)?, f(2)?, f(3)?, f(4)?, f(5)?, f(6)?),
            "Z" => Cmd::Close,
            _ => return None,
        });
    }
    Some(out)
}

fn hash_cmds(cmds: &[Cmd]) -> u64 {
    let mut h = H::new();
    let q = |v: f64| (v * 64.0).round() as i64 as u64;
    for c in cmds {
        h = match *c {
            Cmd::Move(x, y) => h.u8(0).u64(q(x)).u64(q(y)),
            Cmd::Line(x, y) => h.u8(1).u64(q(x)).u64(q(y)),
            Cmd::Quad(a, b, x, y) => h.u8(2).u64(q(a)).u64(q(b)).u64(q(x)).u64(q(y)),
            Cmd::Cubic(..) => h.u8(3),
            Cmd::Close => h.u8(4),
        };
    }
    h.get()
}

fn jcontours(cs: &[Contour]) -> Value {
    json!(cs.iter().map(|c| c.iter().map(|p| json!([p.x, p.y, if p.on { "on" } else { "off" }])).collect::<Vec<_>>()).collect::<Vec<_>>())
}

fn jxform(x: Xform) -> Value {
    match x {
        Xform::None => json!("none"),
        Xform::Scale(s) => json!({"scale": ge::f2dot14(s)}),
        Xform::XY(a, b) => json!({"xscale": ge::f2dot14(a), "yscale": ge::f2dot14(b)}),
        Xform::M2x2(a, b, c, d) => json!({"xscale": ge::f2dot14(a), "scale01": ge::f2dot14(b), "scale10": ge::f2dot14(c), "yscale": ge::f2dot14(d)}),
    }
}

fn jglyph(g: &Glyph) -> Value {
    match g {
        Glyph::Empty => json!("empty"),
        Glyph::Simple(cs) => json!({"simple": jcontours(cs)}),
        Glyph::Composite { components, instructions, overlap_compound } => json!({
            "composite": components.iter().map(|c| json!({
                "glyph": c.glyph,
                "args": match c.args { Args::Xy(a, b) => json!({"xy": [a, b]}), Args::Points(a, b) => json!({"points": [a, b]}) },
                "words": c.force_words, "transform": jxform(c.xform),
                "SCALED_COMPONENT_OFFSET": c.scaled_offset, "UNSCALED_COMPONENT_OFFSET": c.unscaled_offset,
                "ROUND_XY_TO_GRID": c.round_xy, "USE_MY_METRICS": c.use_my_metrics,
            })).collect::<Vec<_>>(),
            "instruction_bytes": instructions, "OVERLAP_COMPOUND": overlap_compound,
        }),
    }
}

fn pt(x: i16, y: i16, on: bool) -> Pt {
    Pt { x, y, on }
}

/// table layout choice: 0 = long loca, glyphs padded to 4; 1 = short loca (padded to 2); 2 = long loca, unpadded
fn layout(k: usize) -> (bool, usize) {
    match k {
        0 => (true, 4),
        1 => (false, 2),
        _ => (true, 1),
    }
}

fn table_witness(glyf: &[u8], loca: &[u8], n: u16, long: bool, gid: u16) -> Value {
    json!({"glyf_hex": mcx::hex(glyf), "loca_hex": mcx::hex(loca), "num_glyphs": n, "loca_long": long, "gid": gid})
}

fn merge(mut a: Value, b: Value) -> Value {
    if let (Some(x), Some(y)) = (a.as_object_mut(), b.as_object()) {
        for (k, v) in y {
            x.insert(k.clone(), v.clone());
        }
    }
    a
}

fn order_key(fam: u32, size: u32, c: &Chooser<'_>) -> Vec<u32> {
    let mut o = vec![fam, size, c.deviations()];
    o.extend(c.choices());
    o
}

// ------------------------------------------------------------------------------------------ simple glyphs

fn filler() -> Vec<Contour> {
    vec![vec![pt(5, 5, true), pt(50, 5, true), pt(5, 60, false)]]
}

/// (encoded filler glyph, its reference commands, its normalised reference path)
fn filler_ref() -> &'static (Vec<u8>, Vec<Cmd>, Paths) {
    static F: OnceLock<(Vec<u8>, Vec<Cmd>, Paths)> = OnceLock::new();
    F.get_or_init(|| {
        let cmds = ge::glyph_commands(&ge::simple_as_flat(&filler()));
        let p = ge::paths(&cmds).expect("reference commands are well formed");
        (ge::encode_simple(&filler(), &SimpleEnc::default()), cmds, p)
    })
}

/// fills `enc`; returns true for the base encoding (minimal coordinates, no repeat flags) before deviations
fn choose_enc(c: &mut Chooser<'_>, ds: &[(i16, i16)], enc: &mut SimpleEnc) -> bool {
    let base_long = c.pick(2) == 1;
    let base_rep = if c.pick(2) == 1 { RepeatMode::Greedy } else { RepeatMode::None };
    enc.x.clear();
    enc.y.clear();
    let one = |c: &mut Chooser<'_>, d: i16| {
        let alts = ge::coord_alternatives(d);
        let base = if base_long && alts.len() > 1 { 1 } else { 0 };
        let k = c.dev(alts.len());
        alts[(base + k) % alts.len()]
    };
    for &(dx, dy) in ds {
        let ex = one(c, dx);
        let ey = one(c, dy);
        enc.x.push(ex);
        enc.y.push(ey);
    }
    enc.repeat = match c.dev(3) {
        0 => base_rep,
        1 => RepeatMode::Pairs,
        _ => RepeatMode::ZeroCountAll,
    };
    enc.instructions = if c.dev(2) == 1 { 3 } else { 0 };
    enc.overlap_simple = c.dev(2) == 1;
    !base_long && base_rep == RepeatMode::None
}

struct SimpleStats {
    spanning_runs: AtomicU64,
    font_seam: AtomicU64,
}

fn simple_case(ctx: &Ctx, col: &Collector, st: &SimpleStats, fam: u32, contours: &[Contour], c: &mut Chooser<'_>, s: &mut Scratch) {
    ge::deltas_into(&mut s.deltas, contours);
    let is_base = choose_enc(c, &s.deltas, &mut s.senc);
    let lay = c.dev(3);
    let npts: u32 = contours.iter().map(|x| x.len() as u32).sum();
    let first = c.deviations() == 0 && is_base;
    // the font seam runs for the base encoding with the long and the short loca format
    let do_font = is_base && (c.deviations() == 0 || (c.deviations() == 1 && lay == 1));
    simple_eval(ctx, col, st, contours, s, lay, first, do_font, &|| order_key(fam, npts, c));
}

/// encode `contours` with the encoding in `s.senc` under table layout `lay`, run the seams, compare
#[allow(clippy::too_many_arguments)]
fn simple_eval(ctx: &Ctx, col: &Collector, st: &SimpleStats, contours: &[Contour], s: &mut Scratch, lay: usize, first: bool, do_font: bool, order: &dyn Fn() -> Vec<u32>) {
    let (long, align) = layout(lay);
    ge::encode_simple_into(&mut s.gbytes, contours, &s.senc, &mut s.enc);
    if !ge::simple_decodes_to(&s.gbytes, contours, &mut s.enc) {
        panic!("machinery: glyfenc encoder/decoder self-check failed for {:?} {:?}", contours, s.senc);
    }
    let fill = filler_ref();
    ge::build_glyf_loca_into(&mut s.glyf, &mut s.loca, &[&[], &fill.0, &s.gbytes], long, align);
    // reference path of the abstract glyph (cached while the explorer varies the encoding of one shape)
    if s.shape.as_slice() != contours {
        s.shape.resize_with(contours.len(), Vec::new);
        for (a, b) in s.shape.iter_mut().zip(contours) {
            a.clear();
            a.extend_from_slice(b);
        }
        ge::glyph_commands_into(&mut s.shape_cmds, &ge::simple_as_flat(contours));
        ge::paths_into(&mut s.shape_paths, &s.shape_cmds).expect("reference commands are well formed");
    }
    let one_seam = |seam: &str, obs: Obs, font: Option<&[u8]>, s: &mut Scratch| {
        if first && seam == "glyf" {
            if let Obs::Ok(cmds) = &obs {
                ctx.mark_outcome(hash_cmds(cmds));
            }
        }
        let key = match compare(&obs, std::slice::from_ref(&s.shape_paths), false, &mut s.obs) {
            Outcome::Pass | Outcome::LimitAccepted => return,
            Outcome::Panic => match &obs {
                Obs::Panic(p) => format!("C16:panic:{}", p.site_key("/repo")),
                _ => unreachable!(),
            },
            Outcome::Rejected => format!("C16:simple:well-formed-glyph-rejected:{}", seam),
            Outcome::Malformed(_) => "C16:simple:command-stream-not-closed-sub-paths".to_string(),
            Outcome::Mismatch => format!("C16:simple:mismatch:{}", seam),
        };
        col.report(&key, order(), || {
            let mut w = json!({"family": "simple", "seam": seam, "contours": jcontours(contours), "encoding": format!("{:?}", s.senc),
                "expected_any": [jcmds(&s.shape_cmds)], "accept_limit_error": false});
            w = merge(w, table_witness(&s.glyf, &s.loca, 3, long, 2));
            if let Some(f) = font {
                w = merge(w, json!({"font_hex": mcx::hex(f)}));
            }
            merge(w, show_obs(&obs))
        });
    };
    let obs = observe_tables(&s.glyf, &s.loca, 3, long, 2);
    one_seam("glyf", obs, None, s);
    if do_font {
        let font = wrap_font(&s.glyf, &s.loca, 3, long);
        let obs = observe_font(&font, 2);
        one_seam("font", obs, Some(&font), s);
        st.font_seam.fetch_add(1, Relaxed);
    }
    if first {
        // the filler glyph next to the glyph under test must be unaffected
        let obs = observe_tables(&s.glyf, &s.loca, 3, long, 1);
        if !matches!(compare(&obs, std::slice::from_ref(&fill.2), false, &mut s.obs), Outcome::Pass) {
            col.report("C16:simple:neighbour-glyph-mismatch", order(), || {
                let w = json!({"family": "simple", "seam": "glyf", "contours": jcontours(&filler()), "neighbour_contours": jcontours(contours),
                    "expected_any": [jcmds(&fill.1)], "accept_limit_error": false});
                merge(merge(w, table_witness(&s.glyf, &s.loca, 3, long, 1)), show_obs(&obs))
            });
        }
        let h = H::new().bytes(&s.glyf).get();
        let has_off = contours.iter().flatten().any(|p| !p.on);
        if has_off || contours.len() > 1 {
            ctx.mark_nontrivial(h);
        }
        if contours.iter().map(|c| c.len()).sum::<usize>() <= 16 {
            col.sample(h, || json!({"family": "simple", "contours": jcontours(contours), "expected": jcmds(&s.shape_cmds), "glyf_hex": mcx::hex(&s.glyf)}));
        }
    }
    if s.senc.repeat != RepeatMode::None && ge::repeat_run_spans_contours(contours, &s.gbytes) {
        st.spanning_runs.fetch_add(1, Relaxed);
    }
}

/// Long flag runs: N points that share one flag byte (constant steps), optionally after one point with a
/// different flag, as one contour or split into two, under every repeat style - so that the repeat count byte
/// takes every value class (0, 1, 127, 128, 254, 255), runs are cut at 256, span the contour boundary and end
/// exactly at the last point.
fn run_long_runs(ctx: &Ctx, col: &Collector, st: &SimpleStats) -> Value {
    use rayon::prelude::*;
    const NS: [usize; 12] = [127, 128, 129, 255, 256, 257, 258, 300, 511, 512, 513, 600];
    const VARIANTS: [&str; 5] = ["on-curve short +dx +dy", "on-curve all int16", "all off-curve short +dx +dy", "on-curve short +dx, same y", "on-curve short -dx -dy"];
    let modes = [RepeatMode::None, RepeatMode::Capped(256), RepeatMode::Capped(255), RepeatMode::Capped(129), RepeatMode::Capped(128), RepeatMode::Capped(2), RepeatMode::ZeroCountAll];
    // (n, variant, lead point, split position)
    let mut cases: Vec<(usize, usize, bool, Option<usize>)> = Vec::new();
    for &n in &NS {
        for v in 0..VARIANTS.len() {
            for lead in [false, true] {
                let total = n + lead as usize;
                let mut splits: Vec<usize> = [1, total / 2, total - 1, 255, 256, 257].iter().copied().filter(|k| *k >= 1 && *k < total).collect();
                splits.sort();
                splits.dedup();
                cases.push((n, v, lead, None));
                cases.extend(splits.into_iter().map(|k| (n, v, lead, Some(k))));
            }
        }
    }
    let count_bytes: Mutex<std::collections::BTreeSet<u8>> = Mutex::new(Default::default());
    let (spanning, ending, executions) = (AtomicU64::new(0), AtomicU64::new(0), AtomicU64::new(0));
    cases.par_iter().for_each(|&(n, v, lead, split)| {
        let (dx, dy, on): (i16, i16, bool) = match v {
            2 => (3, 2, false),
            3 => (3, 0, true),
            4 => (-3, -2, true),
            _ => (3, 2, true),
        };
        let mut pts: Contour = Vec::with_capacity(n + 1);
        if lead {
            pts.push(pt(0, 0, !on)); // delta (0,0) and the other on/off state: a different flag byte
        }
        for i in 1..=n as i16 {
            pts.push(pt(dx * i, dy * i, on));
        }
        let contours: Vec<Contour> = match split {
            None => vec![pts],
            Some(k) => vec![pts[..k].to_vec(), pts[k..].to_vec()],
        };
        let total = (n + lead as usize) as u32;
        with_scratch(|s| {
            for (mi, mode) in modes.iter().enumerate() {
                let layouts: &[usize] = if *mode == RepeatMode::Capped(256) { &[0, 1, 2] } else { &[0] };
                for &lay in layouts {
                    s.senc.x.clear();
                    s.senc.y.clear();
                    if v == 1 {
                        s.senc.x.resize(total as usize, ge::CoordEnc::Long);
                        s.senc.y.resize(total as usize, ge::CoordEnc::Long);
                    }
                    s.senc.repeat = *mode;
                    s.senc.instructions = 0;
                    s.senc.overlap_simple = false;
                    let first = mi == 0 && lay == 0;
                    let do_font = *mode == RepeatMode::Capped(256) && lay < 2;
                    let order = || vec![5, total, mi as u32, v as u32, lead as u32, split.map_or(0, |k| k as u32), lay as u32];
                    simple_eval(ctx, col, st, &contours, s, lay, first, do_font, &order);
                    executions.fetch_add(1, Relaxed);
                    if lay == 0 {
                        let runs = ge::repeat_runs(&contours, &s.gbytes);
                        let mut set = count_bytes.lock().unwrap();
                        for &(start, len, b) in &runs {
                            set.insert(b);
                            if let Some(k) = split {
                                if len > 1 && start < k && k < start + len {
                                    spanning.fetch_add(1, Relaxed);
                                }
                            }
                            if len > 1 && start + len == total as usize {
                                ending.fetch_add(1, Relaxed);
                            }
                        }
                    }
                }
            }
        });
    });
    let ex = executions.load(Relaxed);
    ctx.evals(ex);
    ctx.add_states(ex + cases.len() as u64 + 1);
    ctx.add_transitions(ex + cases.len() as u64);
    let bytes: Vec<u8> = count_bytes.into_inner().unwrap().into_iter().collect();
    for class in [0u8, 1, 127, 128, 254, 255] {
        assert!(bytes.contains(&class), "machinery: long-run family never wrote repeat count byte {}", class);
    }
    json!({
        "run_lengths": NS, "variants": VARIANTS, "lead_point_with_other_flag": [false, true],
        "split_into_two_contours_at": "none | 1 | half | last | 255 | 256 | 257",
        "repeat_styles": "none | runs capped at 256, 255, 129, 128, 2 | every flag with count 0",
        "shapes": cases.len(), "executions": ex,
        "repeat_count_bytes_written": bytes,
        "runs_spanning_the_contour_boundary": spanning.load(Relaxed),
        "runs_ending_exactly_at_the_last_point": ending.load(Relaxed),
    })
}

/// `menu_big` is used for contours of up to `big_upto` points, `menu_small` for longer ones
fn gen_contour_into(c: &mut Chooser<'_>, menu_big: &[(i16, i16)], big_upto: usize, menu_small: &[(i16, i16)], max_n: usize, out: &mut Contour) {
    let n = 1 + c.pick(max_n);
    let menu = if n <= big_upto { menu_big } else { menu_small };
    out.clear();
    for _ in 0..n {
        let (x, y) = *c.of(menu);
        let on = c.pick(2) == 0;
        out.push(pt(x, y, on));
    }
}

const MENU: [(i16, i16); 6] = [(0, 0), (100, -50), (-301, 51), (100, 400), (255, -256), (-256, 255)];
const BOUNDARY: [i16; 9] = [-32768, -256, -255, -1, 0, 1, 255, 256, 32767];

fn run_simple(ctx: &Ctx, col: &Collector) -> Value {
    let thorough = ctx.tier.thorough();
    let st = SimpleStats { spanning_runs: 0.into(), font_seam: 0.into() };
    let bound = if thorough { 2 } else { 1 };
    // runs `gen` on the per-thread contour buffers, then the case
    let case = |fam: u32, ncontours: usize, c: &mut Chooser<'_>, gen: &dyn Fn(&mut Chooser<'_>, &mut [Contour])| {
        with_scratch(|s| {
            let mut cs = std::mem::take(&mut s.cur);
            cs.resize_with(ncontours, Vec::new);
            gen(c, &mut cs);
            simple_case(ctx, col, &st, fam, &cs, c, s);
            s.cur = cs;
        })
    };
    // (a) one contour
    let (m1, n1, big_upto, m1s) = if thorough { (6usize, 5usize, 4usize, 5usize) } else { (4, 5, 4, 4) };
    let s = explore_par(bound, 6, |c| {
        case(1, 1, c, &|c, cs| gen_contour_into(c, &MENU[..m1], big_upto, &MENU[..m1s], n1, &mut cs[0]));
    });
    ctx.add_explore(&s);
    // (b) two contours
    let (m2, n2a, n2b) = if thorough { (3usize, 4usize, 3usize) } else { (3, 3, 2) };
    let s = explore_par(1, 7, |c| {
        case(2, 2, c, &|c, cs| {
            gen_contour_into(c, &MENU[..m2], 9, &MENU[..m2], n2a, &mut cs[0]);
            gen_contour_into(c, &MENU[..m2], 9, &MENU[..m2], n2b, &mut cs[1]);
        });
    });
    ctx.add_explore(&s);
    // (c) delta boundaries: one point at every boundary coordinate; two points with every boundary delta
    let s = explore_par(bound, 3, |c| {
        case(3, 1, c, &|c, cs| {
            let x = *c.of(&BOUNDARY);
            let y = *c.of(&BOUNDARY);
            let two = c.pick(2) == 1;
            let on0 = c.pick(2) == 0;
            cs[0].clear();
            if two {
                let on1 = c.pick(2) == 0;
                // first point (0,0) so that (x,y) is the delta of the second point
                cs[0].push(pt(0, 0, on0));
                cs[0].push(pt(x, y, on1));
            } else {
                cs[0].push(pt(x, y, on0));
            }
        });
    });
    ctx.add_explore(&s);
    // (d) glyphs without outline: zero-length loca entry and numberOfContours = 0 with a header
    for (k, bytes) in [Vec::new(), ge::encode_simple(&[], &SimpleEnc::default())].iter().enumerate() {
        for lay in 0..3 {
            let (long, align) = layout(lay);
            let (glyf, loca) = ge::build_glyf_loca(&[Vec::new(), filler_ref().0.clone(), bytes.clone()], long, align);
            let obs = observe_tables(&glyf, &loca, 3, long, 2);
            let mut tmp = Paths::default();
            let key = match compare(&obs, &[Paths::default()], false, &mut tmp) {
                Outcome::Pass => None,
                Outcome::Panic => match &obs {
                    Obs::Panic(p) => Some(format!("C16:panic:{}", p.site_key("/repo"))),
                    _ => unreachable!(),
                },
                _ => Some("C16:simple:glyph-without-contours-yields-commands-or-error".to_string()),
            };
            if let Some(key) = key {
                col.report(&key, vec![4, k as u32, lay as u32], || {
                    merge(merge(json!({"family": "no-outline", "seam": "glyf", "expected_any": [[]], "accept_limit_error": false}), table_witness(&glyf, &loca, 3, long, 2)), show_obs(&obs))
                });
            }
            ctx.evals(1);
            ctx.add_states(1);
            ctx.add_transitions(1);
        }
    }
    let long_runs = run_long_runs(ctx, col, &st);
    json!({
        "long_flag_runs": long_runs,
        "one_contour": {"max_points": n1, "coordinate_menu": &MENU[..m1], "coordinate_menu_for_contours_longer_than": [big_upto, &MENU[..m1s]], "on_off_patterns": "all", "encoding_deviations": bound},
        "two_contours": {"max_points": [n2a, n2b], "coordinate_menu": &MENU[..m2], "on_off_patterns": "all", "encoding_deviations": 1},
        "delta_boundaries": BOUNDARY,
        "base_encodings": "minimal | all-int16  x  no repeat | greedy repeat",
        "executions_with_repeat_run_spanning_two_contours": st.spanning_runs.load(Relaxed),
        "font_seam_executions": st.font_seam.load(Relaxed),
    })
}

// ------------------------------------------------------------------------------------------ composite glyphs

const F1: i16 = 0x4000; // 1.0
const FH: i16 = 0x2000; // 0.5
const F15: i16 = 0x6000; // 1.5
const NBASE: usize = 4;

/// glyphs 0..=3 of every composite table: empty, A (one asymmetric contour that starts on the curve and ends
/// off the curve, so its closing edge is a curve), B (two contours: the first starts off / ends on the curve,
/// the second is all off-curve), empty. Together they reach every start/closing case of the contour walker
/// under a component transform.
fn base_glyphs() -> Vec<Glyph> {
    vec![
        Glyph::Empty,
        Glyph::Simple(vec![vec![pt(0, 0, true), pt(100, 0, true), pt(100, 50, false), pt(40, 80, true), pt(-10, 40, false)]]),
        Glyph::Simple(vec![
            vec![pt(30, 10, false), pt(30, 30, false), pt(10, 30, true), pt(10, 10, true)],
            vec![pt(-20, -20, false), pt(-10, -40, false), pt(-30, -40, false)],
        ]),
        Glyph::Empty,
    ]
}

fn base_bytes() -> &'static Vec<Vec<u8>> {
    static B: OnceLock<Vec<Vec<u8>>> = OnceLock::new();
    B.get_or_init(|| base_glyphs().iter().map(|g| ge::encode_glyph(g, &SimpleEnc::default())).collect())
}

struct Menus {
    glyphs: Vec<u16>,
    xf: Vec<Xform>,
    args: Vec<Args>,
    /// (SCALED_COMPONENT_OFFSET, UNSCALED_COMPONENT_OFFSET)
    flags: Vec<(bool, bool)>,
}

fn xf_menu(thorough: bool) -> Vec<Xform> {
    let mut v = vec![
        Xform::None,
        Xform::Scale(FH),
        Xform::Scale(-F1),
        Xform::XY(F15, -F1),
        Xform::M2x2(F1, F1, 0, F1),  // asymmetric shear: x' = x, y' = x + y
        Xform::M2x2(F1, FH, FH, F1), // symmetric: insensitive to transposition
    ];
    if thorough {
        v.extend_from_slice(&[
            Xform::Scale(0x7FFF),
            Xform::Scale(i16::MIN), // -2.0
            Xform::XY(FH, F15),
            Xform::M2x2(FH, -FH, F1, F15),
            Xform::M2x2(0, F1, -F1, 0), // rotation by 90 degrees
            Xform::M2x2(F1, 0, 0, F1),  // identity written as 2x2
        ]);
    }
    v
}

/// one component from the menus; `acc_n` = number of points of the composite so far; later components may
/// also be attached by point numbers (first/first and last/last)
fn gen_component(c: &mut Chooser<'_>, m: &Menus, fixed_glyph: Option<u16>, glyphs: &[Glyph], acc_n: usize, with_devs: bool) -> Component {
    let glyph = match fixed_glyph {
        Some(g) => g,
        None => *c.of(&m.glyphs),
    };
    let xform = *c.of(&m.xf);
    let child_n = ge::point_count(glyphs, glyph, 64);
    let extra = if acc_n > 0 && child_n > 0 { 2 } else { 0 };
    let k = c.pick(m.args.len() + extra);
    let a = if k < m.args.len() {
        m.args[k]
    } else if k == m.args.len() {
        Args::Points(0, 0)
    } else {
        Args::Points(acc_n as u16 - 1, child_n as u16 - 1)
    };
    let (s, u) = *c.of(&m.flags);
    let mut comp = Component::new(glyph, a, xform);
    comp.scaled_offset = s;
    comp.unscaled_offset = u;
    if with_devs {
        comp.force_words = c.dev(2) == 1;
        comp.round_xy = c.dev(2) == 1;
        comp.use_my_metrics = c.dev(2) == 1;
    }
    comp
}

fn components(glyphs: &[Glyph]) -> impl Iterator<Item = &Component> {
    glyphs.iter().filter_map(|g| if let Glyph::Composite { components, .. } = g { Some(components.iter()) } else { None }).flatten()
}

/// the readings of the offset flags that are accepted for this table
fn legit_policies(glyphs: &[Glyph]) -> ([Policy; 6], usize) {
    // a component with both offset flags set is placed like the same component with neither flag (the reference
    // treats the two identically), so only components with SCALED_COMPONENT_OFFSET alone open alternatives
    let any_scaled = components(glyphs).any(|c| c.scaled_offset && !c.unscaled_offset && matches!(c.args, Args::Xy(..)) && c.xform != Xform::None);
    let modes: &[ScaledOffset] = if any_scaled { &[ScaledOffset::Matrix, ScaledOffset::Hypot, ScaledOffset::Apple] } else { &[ScaledOffset::Matrix] };
    let mut v = [Policy::spec(); 6];
    let mut n = 0;
    for &s in modes {
        v[n] = Policy { dev: Deviations::default(), scaled: s };
        n += 1;
    }
    (v, n)
}

const SWITCH_KEYS: [&str; 4] = [
    "C16:composite:2x2-transform-applied-transposed",
    "C16:composite:nested-composite-loses-outer-offset-and-transform",
    "C16:composite:point-number-args-treated-as-zero-offset",
    "C16:composite:SCALED_COMPONENT_OFFSET-ignored",
];

/// smallest set of deviation switches under which the reference reproduces the observed outline
fn attribute(glyphs: &[Glyph], gid: u16, observed: &Paths, flat: &mut FlatGlyph, cmds: &mut Vec<Cmd>, trial: &mut Paths) -> Option<u32> {
    let (legit, nlegit) = legit_policies(glyphs);
    // switches that cannot change the reference for this glyph are not tried
    let mut applicable = 0u32;
    let mut stack = [0u16; 64];
    let mut sp = 0usize;
    let mut seen = 0u64; // glyph tables here have fewer than 64 glyphs
    stack[sp] = gid;
    sp += 1;
    while sp > 0 {
        sp -= 1;
        let g = stack[sp];
        if g >= 64 || seen & (1 << g) != 0 {
            continue;
        }
        seen |= 1 << g;
        if let Some(Glyph::Composite { components, .. }) = glyphs.get(g as usize) {
            for c in components {
                if let Xform::M2x2(_, s01, s10, _) = c.xform {
                    if s01 != s10 {
                        applicable |= 1;
                    }
                }
                if matches!(glyphs.get(c.glyph as usize), Some(Glyph::Composite { .. })) {
                    applicable |= 2;
                }
                if matches!(c.args, Args::Points(..)) {
                    applicable |= 4;
                }
                if c.scaled_offset && c.xform != Xform::None && matches!(c.args, Args::Xy(..)) && c.args != Args::Xy(0, 0) {
                    applicable |= 8;
                }
                if sp < stack.len() {
                    stack[sp] = c.glyph;
                    sp += 1;
                }
            }
        }
    }
    // Switches 0 (transposed 2x2), 1 (nested composite loses the outer transform) and 3 (SCALED_COMPONENT_OFFSET ignored)
    // describe defects that were repaired in /repo (KNOWN_FINDINGS.txt `fixed:` lines): they are no longer candidates, so
    // a return of that behaviour is reported as a plain mismatch and cannot shadow the remaining known deviation.
    applicable &= 4;
    // masks in order of (number of switches, value)
    for bits in 1..=4u32 {
        for mask in 1..16u32 {
            if mask.count_ones() != bits || mask & !applicable != 0 {
                continue;
            }
            let dev = Deviations { transpose_2x2: mask & 1 != 0, nested_loses_outer: mask & 2 != 0, point_args_zero: mask & 4 != 0 };
            let ignored = [Policy { dev, scaled: ScaledOffset::Ignored }];
            let mut with_dev = legit;
            for p in with_dev.iter_mut() {
                p.dev = dev;
            }
            let pols: &[Policy] = if mask & 8 != 0 { &ignored } else { &with_dev[..nlegit] };
            for p in pols {
                if ge::flatten_into(flat, glyphs, gid, p, 64).is_ok() {
                    ge::glyph_commands_into(cmds, flat);
                    if ge::paths_into(trial, cmds).is_ok() && ge::paths_eq(trial, observed) {
                        return Some(mask);
                    }
                }
            }
        }
    }
    None
}

struct CompStats {
    limit_errors_accepted: AtomicU64,
    deep_ok: AtomicU64,
    font_seam: AtomicU64,
}

/// evaluate one composite table; `c` supplies the layout deviation choice
#[allow(clippy::too_many_arguments)]
fn composite_case(ctx: &Ctx, col: &Collector, st: &CompStats, fam: u32, glyphs: &[Glyph], gid: u16, c: &mut Chooser<'_>, font_seam: bool, layout_dev: bool, s: &mut Scratch) {
    let lay = if layout_dev { c.dev(3) } else { 0 };
    let (long, align) = layout(lay);
    let n = glyphs.len() as u16;
    {
        // glyphs 0..NBASE are the fixed base glyphs, the rest are composites
        let comp_bytes: Vec<Vec<u8>> = glyphs[NBASE..].iter().map(|g| ge::encode_glyph(g, &SimpleEnc::default())).collect();
        let mut refs: Vec<&[u8]> = Vec::with_capacity(glyphs.len());
        refs.extend(base_bytes().iter().map(|b| b.as_slice()));
        refs.extend(comp_bytes.iter().map(|b| b.as_slice()));
        ge::build_glyf_loca_into(&mut s.glyf, &mut s.loca, &refs, long, align);
    }
    let ncomp = components(glyphs).count() as u32;
    let depth = ge::nesting_depth(glyphs, gid).expect("acyclic table");
    let accept_limit = depth > DEPTH_LIMIT_ACCEPTED_ABOVE;
    // the legitimate reference outlines (distinct ones) in s.legit[..nl]
    let (pols, np) = legit_policies(glyphs);
    let mut nl = 0usize;
    for p in &pols[..np] {
        ge::flatten_into(&mut s.flat, glyphs, gid, p, 64).expect("generated composite is well formed");
        if s.legit.len() <= nl {
            s.legit.push(Paths::default());
            s.legit_cmds.push(Vec::new());
        }
        let (done, rest) = s.legit.split_at_mut(nl);
        ge::glyph_commands_into(&mut s.legit_cmds[nl], &s.flat);
        ge::paths_into(&mut rest[0], &s.legit_cmds[nl]).expect("reference commands are well formed");
        if !done.iter().any(|l| ge::paths_eq(l, &rest[0])) {
            nl += 1;
        }
    }
    let first = c.deviations() == 0;

    let one_seam = |seam: &str, obs: Obs, font: Option<&[u8]>, s: &mut Scratch| {
        if seam == "glyf" {
            match &obs {
                Obs::Ok(cmds) => {
                    ctx.mark_outcome(hash_cmds(cmds));
                    if accept_limit {
                        st.deep_ok.fetch_add(1, Relaxed);
                    }
                }
                Obs::Err(e) => ctx.mark_outcome(H::new().str(e).get()),
                Obs::Panic(_) => {}
            }
        }
        let outcome = compare(&obs, &s.legit[..nl], accept_limit, &mut s.obs);
        let mut keys: Vec<String> = Vec::new();
        let mut switches: Vec<&str> = Vec::new();
        match outcome {
            Outcome::Pass => return,
            Outcome::LimitAccepted => {
                st.limit_errors_accepted.fetch_add(1, Relaxed);
                return;
            }
            Outcome::Panic => match &obs {
                Obs::Panic(p) => keys.push(format!("C16:panic:{}", p.site_key("/repo"))),
                _ => unreachable!(),
            },
            Outcome::Rejected => match &obs {
                Obs::Err(e) if e.contains("LimitExceeded") => keys.push("C16:composite:nesting-refused-at-depth-6-or-less".to_string()),
                _ => keys.push(format!("C16:composite:well-formed-glyph-rejected:{}", seam)),
            },
            Outcome::Malformed(_) => keys.push("C16:composite:command-stream-not-closed-sub-paths".to_string()),
            Outcome::Mismatch => match attribute(glyphs, gid, &s.obs, &mut s.flat, &mut s.cmds, &mut s.trial) {
                Some(mask) => {
                    switches = (0..4).filter(|i| mask & (1 << i) != 0).map(|i| SWITCH_KEYS[i]).collect();
                    keys.extend(switches.iter().map(|k| k.to_string()));
                }
                None => keys.push(format!("C16:composite:mismatch:{}", seam)),
            },
        }
        for key in &keys {
            col.report(key, order_key(fam, ncomp, c), || {
                let mut w = json!({"family": "composite", "seam": seam, "glyphs": glyphs.iter().map(jglyph).collect::<Vec<_>>(), "nesting_depth": depth,
                    "expected_any": s.legit_cmds[..nl].iter().map(|x| jcmds(x)).collect::<Vec<_>>(), "accept_limit_error": accept_limit});
                w = merge(w, table_witness(&s.glyf, &s.loca, n, long, gid));
                if let Some(f) = font {
                    w = merge(w, json!({"font_hex": mcx::hex(f)}));
                }
                if !switches.is_empty() {
                    w = merge(w, json!({"explained_by_deviation_switches": switches}));
                }
                merge(w, show_obs(&obs))
            });
        }
    };
    let obs = observe_tables(&s.glyf, &s.loca, n, long, gid);
    one_seam("glyf", obs, None, s);
    if font_seam && first {
        let font = wrap_font(&s.glyf, &s.loca, n, long);
        let obs = observe_font(&font, gid);
        one_seam("font", obs, Some(&font), s);
        st.font_seam.fetch_add(1, Relaxed);
    }
    if first {
        let h = H::new().bytes(&s.glyf).get();
        if depth > 1 || components(glyphs).any(|c| c.xform != Xform::None || c.args != Args::Xy(0, 0)) {
            ctx.mark_nontrivial(h);
        }
        col.sample(h, || {
            json!({"family": "composite", "glyphs": glyphs[NBASE..].iter().map(jglyph).collect::<Vec<_>>(), "target": gid, "nesting_depth": depth,
            "expected": s.legit_cmds.first().map(|x| jcmds(x))})
        });
    }
}

fn glyph_devs(c: &mut Chooser<'_>) -> (usize, bool) {
    let instructions = if c.dev(2) == 1 { 3 } else { 0 };
    let overlap = c.dev(2) == 1;
    (instructions, overlap)
}

fn composite(components: Vec<Component>) -> Glyph {
    Glyph::Composite { components, instructions: 0, overlap_compound: false }
}

fn run_composite(ctx: &Ctx, col: &Collector) -> Value {
    let thorough = ctx.tier.thorough();
    let st = CompStats { limit_errors_accepted: 0.into(), deep_ok: 0.into(), font_seam: 0.into() };
    let full = Menus {
        glyphs: if thorough { vec![1, 2, 3] } else { vec![1, 2] },
        xf: xf_menu(thorough),
        args: vec![Args::Xy(0, 0), Args::Xy(10, -20), Args::Xy(300, -200), Args::Xy(-128, 127)],
        flags: vec![(false, false), (true, false), (false, true), (true, true)],
    };
    let red = Menus {
        glyphs: vec![1, 2],
        xf: vec![Xform::None, Xform::Scale(FH), Xform::M2x2(F1, F1, 0, F1)],
        args: vec![Args::Xy(0, 0), Args::Xy(10, -20)],
        flags: vec![(false, false), (true, false)],
    };
    // outer components of the composite-of-composite family: also with both offset flags set
    let outer_menu = Menus { glyphs: vec![], xf: red.xf.clone(), args: red.args.clone(), flags: vec![(false, false), (true, false), (true, true)] };
    let small = Menus { glyphs: vec![1], xf: vec![Xform::None, Xform::M2x2(F1, F1, 0, F1)], args: vec![Args::Xy(10, -20)], flags: vec![(false, false), (true, false)] };
    let bound = if thorough { 2 } else { 1 };

    // runs `gen` on the per-thread glyph list (reset to the base glyphs), then the case; gen returns the target glyph
    let case = |fam: u32, c: &mut Chooser<'_>, font_seam: bool, layout_dev: bool, gen: &dyn Fn(&mut Chooser<'_>, &mut Vec<Glyph>) -> u16| {
        with_scratch(|s| {
            let mut glyphs = std::mem::take(&mut s.glyphs);
            if glyphs.len() < NBASE {
                glyphs = base_glyphs();
            }
            glyphs.truncate(NBASE);
            let gid = gen(c, &mut glyphs);
            composite_case(ctx, col, &st, fam, &glyphs, gid, c, font_seam, layout_dev, s);
            s.glyphs = glyphs;
        })
    };

    // (A) one composite of 1..=3 components
    for ncomp in 1..=3usize {
        let s = explore_par(if ncomp == 1 { bound } else { 1 }, 5, |c| {
            case(10 + ncomp as u32, c, ncomp == 1, true, &|c, glyphs| {
                let mut comps: Vec<Component> = Vec::with_capacity(ncomp);
                let mut acc_n = 0usize;
                for k in 0..ncomp {
                    // three components: reduced menus (the full pairwise product is the family ncomp = 2)
                    let m = match (ncomp, k, thorough) {
                        (3, 2, false) => &small,
                        (3, _, _) => &red,
                        _ => &full,
                    };
                    let comp = gen_component(c, m, None, glyphs, acc_n, true);
                    acc_n += ge::point_count(glyphs, comp.glyph, 64);
                    comps.push(comp);
                }
                let (instructions, overlap_compound) = glyph_devs(c);
                glyphs.push(Glyph::Composite { components: comps, instructions, overlap_compound });
                NBASE as u16
            });
        });
        ctx.add_explore(&s);
    }

    // (N) chains of nested composites: c_1 -> A, c_k -> c_(k-1); every level has its own transform and offset
    // (transform, offset, SCALED_COMPONENT_OFFSET, UNSCALED_COMPONENT_OFFSET)
    let levels: [(Xform, Args, bool, bool); 6] = [
        (Xform::None, Args::Xy(10, 5), false, false),
        (Xform::Scale(FH), Args::Xy(-20, 30), false, false),
        (Xform::M2x2(F1, F1, 0, F1), Args::Xy(7, -3), false, false),
        (Xform::XY(F15, -F1), Args::Xy(0, 0), false, false),
        (Xform::Scale(FH), Args::Xy(-20, 30), true, true), // both flags: like neither
        (Xform::XY(F15, -F1), Args::Xy(8, 6), true, false),
    ];
    let (dmax, free) = if thorough { (12usize, 5usize) } else { (9, 3) };
    let s = explore_par(1, 3, |c| {
        case(20, c, true, true, &|c, glyphs| {
            let d = 1 + c.pick(dmax);
            let reversed = c.dev(2) == 1; // deeper composites at lower glyph ids (forward references)
            let gid_of = |k: usize| -> u16 {
                // k = 1 innermost .. d outermost
                if reversed {
                    (NBASE - 1 + (d - k + 1)) as u16
                } else {
                    (NBASE - 1 + k) as u16
                }
            };
            let at = glyphs.len();
            for k in 1..=d {
                // outermost `free` levels are free choices, the rest cycle through the menu
                let idx = if d - k < free { c.pick(levels.len()) } else { k % levels.len() };
                let (xf, args, scaled, unscaled) = levels[idx];
                let child = if k == 1 { 1 } else { gid_of(k - 1) };
                let mut comp = Component::new(child, args, xf);
                comp.scaled_offset = scaled;
                comp.unscaled_offset = unscaled;
                comp.use_my_metrics = k == 1;
                glyphs.push(composite(vec![comp]));
            }
            if reversed {
                glyphs[at..].reverse();
            }
            gid_of(d)
        });
    });
    ctx.add_explore(&s);

    // (T) composites of composites: inner composite I (1..=2 components), outer O in four structures
    //     [I], [A, I], [I, A], [I, I], offsets / transforms / point-number arguments at both levels
    let s = explore_par(1, 6, |c| {
        case(30, c, thorough, thorough, &|c, glyphs| {
            let ninner = 1 + c.pick(2);
            let mut inner: Vec<Component> = Vec::with_capacity(2);
            let mut acc_n = 0usize;
            for k in 0..ninner {
                let comp = gen_component(c, if k == 1 && !thorough { &small } else { &red }, None, glyphs, acc_n, false);
                acc_n += ge::point_count(glyphs, comp.glyph, 64);
                inner.push(comp);
            }
            glyphs.push(composite(inner)); // glyph 4 = I
            let structure: &[u16] = match c.pick(4) {
                0 => &[4],
                1 => &[1, 4],
                2 => &[4, 1],
                _ => &[4, 4],
            };
            let mut outer: Vec<Component> = Vec::with_capacity(2);
            let mut acc_n = 0usize;
            for &g in structure {
                let comp = gen_component(c, &outer_menu, Some(g), glyphs, acc_n, false);
                acc_n += ge::point_count(glyphs, g, 64);
                outer.push(comp);
            }
            glyphs.push(composite(outer)); // glyph 5 = O
            5
        });
    });
    ctx.add_explore(&s);

    // (D) is the recursion bounded? a 40-deep acyclic chain first; only if that is refused are cyclic tables
    //     tried (an unbounded recursion cannot be observed in-process)
    let encode_all = |glyphs: &[Glyph]| {
        let bytes: Vec<Vec<u8>> = glyphs.iter().map(|g| ge::encode_glyph(g, &SimpleEnc::default())).collect();
        ge::build_glyf_loca(&bytes, true, 4)
    };
    let mut glyphs = base_glyphs();
    for k in 1..=40u16 {
        let child = if k == 1 { 1 } else { NBASE as u16 - 1 + k - 1 };
        glyphs.push(composite(vec![Component::new(child, Args::Xy(1, 1), Xform::None)]));
    }
    let (glyf, loca) = encode_all(&glyphs);
    let deep = observe_tables(&glyf, &loca, glyphs.len() as u16, true, NBASE as u16 - 1 + 40);
    ctx.evals(1);
    ctx.add_states(1);
    ctx.add_transitions(1);
    let mut cyclic_cases = 0;
    match deep {
        Obs::Err(_) => {
            let cyc = |comps: Vec<Vec<Component>>| {
                let mut g = base_glyphs();
                g.extend(comps.into_iter().map(composite));
                g
            };
            let x = |g: u16| Component::new(g, Args::Xy(3, 4), Xform::None);
            let cyclic: Vec<Vec<Glyph>> = vec![cyc(vec![vec![x(4)]]), cyc(vec![vec![x(5)], vec![x(4)]]), cyc(vec![vec![x(1), x(4)]]), cyc(vec![vec![x(5)], vec![x(6)], vec![x(4)]])];
            for (i, g) in cyclic.iter().enumerate() {
                let (glyf, loca) = encode_all(g);
                let n = g.len() as u16;
                let obs = observe_tables(&glyf, &loca, n, true, 4);
                let key = match &obs {
                    Obs::Err(e) => {
                        ctx.mark_outcome(H::new().str(e).u64(i as u64).get());
                        None
                    }
                    Obs::Ok(_) => Some("C16:composite:cyclic-reference-yields-an-outline".to_string()),
                    Obs::Panic(p) => Some(format!("C16:panic:{}", p.site_key("/repo"))),
                };
                if let Some(key) = key {
                    col.report(&key, vec![40, i as u32], || {
                        let w = json!({"family": "cyclic", "seam": "glyf", "glyphs": g.iter().map(jglyph).collect::<Vec<_>>(), "expect_error": true});
                        merge(merge(w, table_witness(&glyf, &loca, n, true, 4)), show_obs(&obs))
                    });
                }
                ctx.evals(1);
                ctx.add_states(1);
                ctx.add_transitions(1);
                cyclic_cases += 1;
            }
        }
        Obs::Ok(_) => ctx.not_exhaustive("cyclic component references not explored: a 40-deep acyclic chain was accepted, so no depth bound was observed and an unbounded recursion cannot be observed in-process"),
        Obs::Panic(p) => col.report(&format!("C16:panic:{}", p.site_key("/repo")), vec![40, 99], || json!({"family": "deep-chain", "panic": p.msg, "at": p.loc()})),
    }

    json!({
        "components_per_composite": 3,
        "transform_menu": full.xf.iter().map(|x| jxform(*x)).collect::<Vec<_>>(),
        "argument_menu": "xy (0,0) (10,-20) (300,-200) (-128,127) as bytes/words; point numbers (0,0) and (last,last) on later components",
        "offset_flags": "none | SCALED | UNSCALED | both",
        "component_glyph_menu": full.glyphs,
        "three_component_menus": if thorough { "reduced (2 glyphs x 3 transforms x 2-4 args x none|SCALED) for every component" } else { "reduced, reduced, small (glyph A x 2 transforms x 1-3 args x none|SCALED)" },
        "flag_deviations": {"one_component": bound, "more": 1},
        "chain_depth_max": dmax, "chain_free_levels": free,
        "composite_of_composite": if thorough { "inner 1..=2 components x outer [I] [A,I] [I,A] [I,I], reduced menus at both levels" } else { "inner 1..=2 components (reduced, small menus) x outer [I] [A,I] [I,A] [I,I] (reduced menus)" },
        "cyclic_tables": cyclic_cases,
        "depth_limit_errors_accepted": st.limit_errors_accepted.load(Relaxed),
        "deep_trees_visited_successfully": st.deep_ok.load(Relaxed),
        "font_seam_executions": st.font_seam.load(Relaxed),
    })
}

// ------------------------------------------------------------------------------------------ entry points

pub fn run(ctx: &Ctx) {
    ctx.set_rule(
        "case = one glyph table (abstract glyphs from the shape menus) x one byte encoding of it (base encoding x deviation \
         choices) x seam; executed by allsorts and compared with the reference path of the abstract glyph. non-trivial = simple \
         glyph with an off-curve point or two contours, or composite whose component has a transform / non-zero offset / \
         point-number argument or that nests another composite; distinct by glyf table bytes of the base encoding. outcomes = \
         distinct command streams (or errors) delivered by allsorts",
    );
    ctx.assume("paths are compared as closed sub-paths = cyclic segment sequences in contour direction; the implicit closing line of close() is made explicit and zero-length straight segments are ignored (a lone or repeated on-curve point draws nothing); sub-path order within a glyph is not demanded");
    ctx.assume("coordinates are compared with tolerance 1e-3 + 1e-5*|v| (allsorts computes in f32; all menu values are exactly representable)");
    ctx.assume("SCALED_COMPONENT_OFFSET: any of three published readings is accepted - transform applied to the offset (OpenType text, fontTools), FreeType's hypot() scaling, Apple's max()-rule; neither flag = unscaled (the default on Microsoft and Apple platforms, recommended for all)");
    ctx.assume("both offset flags set (invalid): the component must be placed exactly like the same component with neither flag ('the rasterizer should use its default behavior for this case')");
    ctx.assume("Err(LimitExceeded) is accepted for glyphs nested more than 6 composite levels deep (the limit allsorts documents, same as HarfBuzz); deeper glyphs may also be delivered correctly");
    ctx.assume("ROUND_XY_TO_GRID, USE_MY_METRICS, OVERLAP_*, instructions and the bounding box do not affect unhinted outlines");
    ctx.assume("point-number arguments: the component is transformed first, then moved so that its point arg2 coincides with point arg1 of the composite built so far (FreeType, fontTools)");
    let col = Collector::new();
    let simple = run_simple(ctx, &col);
    let composite = run_composite(ctx, &col);
    col.flush(ctx);
    ctx.set("bounds", json!({"simple": simple, "composite": composite}));
}

pub fn replay(w: &Value) -> Result<(), String> {
    let gid = w["gid"].as_u64().ok_or("witness has no gid")? as u16;
    let run = || -> Result<Obs, String> {
        if w["seam"].as_str() == Some("font") {
            let font = mcx::unhex(w["font_hex"].as_str().ok_or("witness has no font_hex")?);
            Ok(observe_font(&font, gid))
        } else {
            let glyf = mcx::unhex(w["glyf_hex"].as_str().ok_or("witness has no glyf_hex")?);
            let loca = mcx::unhex(w["loca_hex"].as_str().ok_or("witness has no loca_hex")?);
            let n = w["num_glyphs"].as_u64().ok_or("witness has no num_glyphs")? as u16;
            let long = w["loca_long"].as_bool().ok_or("witness has no loca_long")?;
            Ok(observe_tables(&glyf, &loca, n, long, gid))
        }
    };
    let (a, b) = (run()?, run()?);
    if show_obs(&a) != show_obs(&b) {
        return Err("machinery: replay not deterministic".into());
    }
    if w["expect_error"].as_bool() == Some(true) {
        return match a {
            Obs::Err(_) => Ok(()),
            o => Err(format!("cyclic component reference: expected an error, observed {}", show_obs(&o))),
        };
    }
    let mut legit: Vec<Paths> = Vec::new();
    for e in w["expected_any"].as_array().ok_or("witness has no expected_any")? {
        let cmds = parse_cmds(e).ok_or("witness: unreadable expected commands")?;
        legit.push(ge::paths(&cmds).map_err(|e| format!("witness: expected commands malformed: {}", e))?);
    }
    let accept = w["accept_limit_error"].as_bool().unwrap_or(false);
    let mut tmp = Paths::default();
    match compare(&a, &legit, accept, &mut tmp) {
        Outcome::Pass | Outcome::LimitAccepted => Ok(()),
        Outcome::Malformed(why) => Err(format!("glyph {}: command stream is not a sequence of closed sub-paths ({}): {}", gid, why, show_obs(&a))),
        _ => Err(format!("glyph {}: expected (any of) {}, observed {}", gid, w["expected_any"], show_obs(&a))),
    }
}
