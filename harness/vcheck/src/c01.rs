//! C01 — untrusted font data is rejected with an error, never a crash.
//!
//! Exhaustive fault enumeration: for every seed font, every fault pattern of the plan (bound 1: one fault
//! at every position from the value menus, every truncation, every table removed / emptied / re-tagged /
//! swapped; bound 2: coupled pairs on small seeds) is applied and the whole battery of public entry points is
//! run on the mutant. Mutants run in worker sub-processes with fatal-signal handlers, an allocation cap
//! and a per-case watchdog, so aborts, stack overflows, size-field allocations and hangs are attributed to
//! the case that caused them and confirmed by a solitary re-run.

use crate::battery::battery;
use crate::faults::{self, Fault, PlanOpts, Seed, Wrap};
use crate::isolate;
use mcx::{Ctx, H};
use rayon::prelude::*;
use serde_json::{json, Value};
use std::collections::{BTreeMap, HashSet};
use std::io::Read;
use std::process::{Command, Stdio};
use std::sync::Mutex;

pub const WATCHDOG_MS: u64 = 4000;
const ALLOC_CAP: i64 = 256 << 20;

fn fixture_files() -> Vec<String> {
    let mut v = Vec::new();
    fn walk(dir: &std::path::Path, v: &mut Vec<String>) {
        if let Ok(rd) = std::fs::read_dir(dir) {
            let mut ents: Vec<_> = rd.filter_map(|e| e.ok()).collect();
            ents.sort_by_key(|e| e.path());
            for e in ents {
                let p = e.path();
                if p.is_dir() {
                    walk(&p, v);
                } else if let Some(ext) = p.extension().and_then(|x| x.to_str()) {
                    if ["ttf", "otf", "woff", "woff2", "ttc"].contains(&ext) {
                        v.push(p.to_string_lossy().to_string());
                    }
                }
            }
        }
    }
    walk(std::path::Path::new("/repo/tests"), &mut v);
    v
}

/// Deterministic list of (seed, plan options) for a tier. `mode` = "c01".
pub fn seeds(tier: &str) -> Vec<(Seed, PlanOpts)> {
    let mut out: Vec<(Seed, PlanOpts)> = Vec::new();
    let files = fixture_files();
    let quick_names = [
        "tests/aots/gsub_chaining1_simple_f1.otf",
        "tests/aots/gpos4_lookupflag_f1.otf",
        "tests/aots/cmap4_font1.otf",
        "tests/aots/classdef2_font1.otf",
        "tests/fonts/opentype/test-font.ttf",
        "tests/fonts/opentype/SFNT-TTF-Composite.ttf",
        "tests/fonts/opentype/SymbolTest-Regular.ttf",
        "tests/fonts/opentype/cff2/SourceSans3.abc.otf",
        "tests/fonts/variable/UnderlineTest-VF.ttf",
        "tests/fonts/variable/Inter[slnt,wght].abc.ttf",
        "tests/fonts/sbix/sbix-dupe.ttf",
        "tests/fonts/svg/gzipped.ttf",
        "tests/fonts/woff1/valid-005.woff",
        "tests/fonts/woff2/test-font.woff2",
        "tests/fonts/woff2/SFNT-TTF-Composite.woff2",
        "tests/fonts/woff2/roundtrip-offset-tables-001.woff2",
    ];
    for f in &files {
        let bytes = match std::fs::read(f) {
            Ok(b) if !b.is_empty() => b,
            _ => continue,
        };
        let rel = f.trim_start_matches("/repo/").to_string();
        let is_sfnt = bytes.len() >= 4 && [[0u8, 1, 0, 0], *b"OTTO", *b"true"].contains(&[bytes[0], bytes[1], bytes[2], bytes[3]]);
        if tier == "quick" {
            if quick_names.iter().any(|q| *q == rel) {
                out.push((Seed { name: rel.clone(), bytes: bytes.clone(), wrap: Wrap::Raw }, PlanOpts::heads(64)));
                if is_sfnt && rel.contains("test-font.ttf") {
                    out.push((Seed { name: format!("{}#as-woff", rel), bytes: bytes.clone(), wrap: Wrap::Woff }, PlanOpts { truncations: false, ..PlanOpts::heads(48) }));
                }
            }
        } else {
            let opts = if bytes.len() <= 8192 {
                PlanOpts::full()
            } else if bytes.len() <= 200_000 {
                PlanOpts::heads(64)
            } else {
                PlanOpts { byte_faults: false, ..PlanOpts::heads(32) }
            };
            out.push((Seed { name: rel.clone(), bytes: bytes.clone(), wrap: Wrap::Raw }, opts));
            if is_sfnt && bytes.len() <= 4096 {
                out.push((Seed { name: format!("{}#as-woff", rel), bytes: bytes.clone(), wrap: Wrap::Woff }, PlanOpts { truncations: false, u32_faults: false, ..PlanOpts::heads(0) }));
            }
        }
    }
    // synthetic seeds (table kinds no small fixture has)
    for (k, (name, bytes)) in crate::synth::seeds().into_iter().enumerate() {
        let n = bytes.len();
        // quick: the boilerplate tables every synthetic seed shares get a 24-byte window, the tables the seed was written
        // for (CFF, CFF2, CBLC, CBDT, EBLC, EBDT, morx, kern, sbix, SVG, STAT, fvar, avar, gvar, HVAR, MVAR, vhea, vmtx ...)
        // are covered at every position of their first 1024 bytes
        let stored_woff2 = bytes.starts_with(b"wOF2") && n <= 1500;
        let opts = if tier == "quick" && !stored_woff2 { PlanOpts { subject_bytes: 1024, ..PlanOpts::heads(24) } } else { PlanOpts::full() };
        out.push((Seed { name: format!("synthetic/{}", name), bytes: bytes.clone(), wrap: Wrap::Raw }, opts));
        // bound 2: coupled pairs
        let none = PlanOpts { head_bytes: 0, byte_faults: false, u16_faults: false, u32_faults: false, truncations: false, structure: false, pairs: 0, layout_only: false, subject_bytes: 0 };
        if tier == "quick" {
            if k < 2 {
                out.push((Seed { name: format!("synthetic/{}#pairs", name), bytes, wrap: Wrap::Raw }, PlanOpts { pairs: 1, ..none }));
            }
        } else if n < 2048 {
            out.push((Seed { name: format!("synthetic/{}#pairs", name), bytes, wrap: Wrap::Raw }, PlanOpts { pairs: 2, ..none }));
        }
    }
    out
}

// ---------------------------------------------------------------------------------------------- worker

/// `vcheck c01-worker <tier> <seed index> <start> <end>`
pub fn worker(args: &[String]) {
    worker_with(args, seeds, battery)
}

pub fn worker_with(args: &[String], seeds: fn(&str) -> Vec<(Seed, PlanOpts)>, battery: fn(&[u8]) -> crate::battery::Report) {
    let tier = &args[0];
    let si: usize = args[1].parse().unwrap();
    let start: usize = args[2].parse().unwrap();
    let end: usize = args[3].parse().unwrap();
    let all = seeds(tier);
    let (seed, opts) = &all[si];
    let plan = faults::plan(&seed.bytes, opts);
    isolate::install_worker_handlers(ALLOC_CAP + 4096 * seed.bytes.len() as i64);
    let budget = std::env::var("VERIF_WATCHDOG_MS").ok().and_then(|s| s.parse().ok()).unwrap_or(WATCHDOG_MS);
    isolate::start_watchdog(budget);
    let mut loaded = 0u64;
    let mut outcomes: HashSet<u64> = HashSet::new();
    let mut panics: BTreeMap<(String, String), Value> = BTreeMap::new();
    let mut entries = 0u64;
    for idx in start..end.min(plan.len() + 1) {
        isolate::begin_case(idx as u64);
        // index plan.len() is the unmodified seed itself
        let data = if idx == plan.len() { faults::present(seed, seed.bytes.clone()) } else { faults::present(seed, faults::apply(&seed.bytes, &plan[idx])) };
        let rep = battery(&data);
        entries += rep.entries_run as u64;
        if rep.loaded {
            loaded += 1;
        }
        if outcomes.len() < 4096 {
            outcomes.insert(rep.outcome);
        }
        for (entry, p) in rep.panics {
            let site = p.site_key("/repo");
            let region = if idx == plan.len() { "unmodified".to_string() } else { faults::region(&seed.bytes, &plan[idx]) };
            panics.entry((site.clone(), entry.to_string())).or_insert_with(|| {
                json!({"site": site, "entry": entry, "region": region, "msg": p.msg, "loc": p.loc(), "case": idx,
                       "fault": if idx == plan.len() { "none".to_string() } else { faults::describe(&plan[idx]) }})
            });
        }
    }
    isolate::end_cases();
    let out = json!({"done": true, "cases": end.min(plan.len() + 1).saturating_sub(start), "loaded": loaded, "entries": entries,
                     "outcomes": outcomes.into_iter().collect::<Vec<_>>(), "panics": panics.into_values().collect::<Vec<_>>()});
    println!("{}", out);
}

// ---------------------------------------------------------------------------------------------- parent

struct ShardResult {
    cases: u64,
    loaded: u64,
    entries: u64,
    outcomes: Vec<u64>,
    panics: Vec<Value>,
    deaths: Vec<Value>,
    machinery: Vec<String>,
    /// cases of the shard that were not run because the shard had already produced MAX_DEATHS_PER_SHARD confirmed deaths
    not_run: u64,
}

/// A shard that has produced this many confirmed worker deaths is a violation beyond doubt; every further death costs three
/// worker processes (the dead one, the confirmation, the re-run of the cases before it), so the rest of the shard is not run
/// and the run is reported as not exhaustive. Never reached on a tree without a crash defect.
const MAX_DEATHS_PER_SHARD: usize = 6;

fn run_worker(worker_cmd: &str, tier: &str, si: usize, start: usize, end: usize, budget_ms: u64) -> (Option<Value>, Option<(u64, String, String)>, String) {
    let exe = std::env::current_exe().expect("current_exe");
    let child = Command::new(exe)
        .arg(worker_cmd)
        .arg(tier)
        .arg(si.to_string())
        .arg(start.to_string())
        .arg(end.to_string())
        .env("VERIF_WATCHDOG_MS", budget_ms.to_string())
        .env("VERIF_TIER", tier)
        .env("RUST_BACKTRACE", "0")
        .stdin(Stdio::null())
        .stdout(Stdio::piped())
        .stderr(Stdio::piped())
        .spawn();
    let mut child = match child {
        Ok(c) => c,
        Err(e) => return (None, None, format!("spawn failed: {}", e)),
    };
    let mut so = String::new();
    let mut se = String::new();
    // read stderr in a thread to avoid pipe deadlock
    let mut stderr = child.stderr.take().unwrap();
    let t = std::thread::spawn(move || {
        let mut s = String::new();
        let _ = stderr.read_to_string(&mut s);
        s
    });
    let _ = child.stdout.take().unwrap().read_to_string(&mut so);
    let status = child.wait();
    if let Ok(s) = t.join() {
        se = s;
    }
    let done = so.lines().rev().find_map(|l| serde_json::from_str::<Value>(l).ok()).filter(|v| v["done"] == json!(true));
    let died = se.lines().find_map(|l| {
        let l = l.trim();
        if !l.starts_with("DIED case=") {
            return None;
        }
        let mut case = None;
        let mut reason = String::new();
        let mut entry = String::new();
        for tok in l.split_whitespace() {
            if let Some(v) = tok.strip_prefix("case=") {
                case = v.parse::<u64>().ok();
            } else if let Some(v) = tok.strip_prefix("reason=") {
                reason = v.to_string();
            } else if let Some(v) = tok.strip_prefix("entry=") {
                entry = v.to_string();
            }
        }
        case.map(|c| (c, reason, entry))
    });
    let note = if done.is_none() && died.is_none() { format!("worker ended without result: status {:?}, stderr tail: {}", status.map(|s| s.to_string()), se.chars().rev().take(300).collect::<String>().chars().rev().collect::<String>()) } else { String::new() };
    (done, died, note)
}

fn run_shard(worker_cmd: &str, tier: &str, si: usize, start: usize, end: usize) -> ShardResult {
    let mut r = ShardResult { cases: 0, loaded: 0, entries: 0, outcomes: vec![], panics: vec![], deaths: vec![], machinery: vec![], not_run: 0 };
    let mut s = start;
    let mut guard_iters = 0;
    while s < end {
        guard_iters += 1;
        if guard_iters > 2000 {
            r.machinery.push(format!("seed {} shard {}..{}: too many worker deaths, giving up at {}", si, start, end, s));
            break;
        }
        let (done, died, note) = run_worker(worker_cmd, tier, si, s, end, WATCHDOG_MS);
        if let Some(d) = done {
            r.cases += d["cases"].as_u64().unwrap_or(0);
            r.loaded += d["loaded"].as_u64().unwrap_or(0);
            r.entries += d["entries"].as_u64().unwrap_or(0);
            r.outcomes.extend(d["outcomes"].as_array().map(|a| a.iter().filter_map(|x| x.as_u64()).collect::<Vec<_>>()).unwrap_or_default());
            r.panics.extend(d["panics"].as_array().cloned().unwrap_or_default());
            break;
        }
        match died {
            Some((case, reason, entry)) if (case as usize) >= s && (case as usize) < end => {
                // confirm by a solitary re-run with a doubled time budget
                let (d2, died2, _) = run_worker(worker_cmd, tier, si, case as usize, case as usize + 1, WATCHDOG_MS * 2);
                match died2 {
                    Some((_, reason2, entry2)) => {
                        r.deaths.push(json!({"seed_index": si, "case": case, "reason": reason2, "entry": entry2, "first_run_reason": reason}));
                    }
                    None => {
                        if d2.is_some() && reason == "timeout" {
                            // slow under load, fine alone: not a verdict
                        } else if d2.is_some() {
                            r.machinery.push(format!("seed {} case {}: died ({}, entry {}) in the shard run but not alone", si, case, reason, entry));
                        } else {
                            r.machinery.push(format!("seed {} case {}: confirmation run produced nothing", si, case));
                        }
                    }
                }
                r.cases += 1;
                if r.deaths.len() >= MAX_DEATHS_PER_SHARD {
                    r.not_run = (end - (case as usize + 1)) as u64 + (case as usize - s) as u64;
                    break;
                }
                // results of cases s..case of the dead worker are lost: re-run them (they are known not to crash)
                if (case as usize) > s {
                    let (d3, _, _) = run_worker(worker_cmd, tier, si, s, case as usize, WATCHDOG_MS * 2);
                    if let Some(d) = d3 {
                        r.cases += d["cases"].as_u64().unwrap_or(0);
                        r.loaded += d["loaded"].as_u64().unwrap_or(0);
                        r.entries += d["entries"].as_u64().unwrap_or(0);
                        r.outcomes.extend(d["outcomes"].as_array().map(|a| a.iter().filter_map(|x| x.as_u64()).collect::<Vec<_>>()).unwrap_or_default());
                        r.panics.extend(d["panics"].as_array().cloned().unwrap_or_default());
                    } else {
                        r.machinery.push(format!("seed {} cases {}..{}: prefix re-run failed", si, s, case));
                    }
                }
                s = case as usize + 1;
            }
            _ => {
                r.machinery.push(format!("seed {} shard {}..{}: {}", si, s, end, note));
                break;
            }
        }
    }
    r
}

/// Shared by C01 and the fault part of C02.
pub fn sweep(ctx: &Ctx, prop: &str, worker_cmd: &str, all: &[(Seed, PlanOpts)], tier: &str, wall_cap_s: f64) {
    // shards
    let mut shards: Vec<(usize, usize, usize)> = Vec::new();
    let mut plan_sizes = Vec::new();
    for (si, (seed, opts)) in all.iter().enumerate() {
        let n = faults::plan(&seed.bytes, opts).len() + 1;
        plan_sizes.push(n);
        let chunk = 1500;
        let mut s = 0;
        while s < n {
            shards.push((si, s, (s + chunk).min(n)));
            s += chunk;
        }
    }
    let total: usize = plan_sizes.iter().sum();
    ctx.set("mutants_planned", json!(total));
    ctx.set("seeds", json!(all.len()));
    // interleave so that a wall cap cuts all seeds evenly rather than dropping the last ones: sort by shard start
    shards.sort_by_key(|s| (s.1, s.0));
    let panics: Mutex<BTreeMap<String, (u64, Value)>> = Mutex::new(BTreeMap::new());
    let skipped = std::sync::atomic::AtomicU64::new(0);
    let after_deaths = std::sync::atomic::AtomicU64::new(0);
    let outcomes: Mutex<HashSet<u64>> = Mutex::new(HashSet::new());
    shards.par_iter().for_each(|&(si, s, e)| {
        if ctx.elapsed() > wall_cap_s {
            skipped.fetch_add((e - s) as u64, std::sync::atomic::Ordering::Relaxed);
            return;
        }
        let r = run_shard(worker_cmd, tier, si, s, e);
        after_deaths.fetch_add(r.not_run, std::sync::atomic::Ordering::Relaxed);
        ctx.evals(r.cases);
        ctx.add_states(r.cases);
        ctx.add_transitions(r.entries);
        ctx.bump("mutants_that_loaded", r.loaded);
        for _ in 0..0 {}
        {
            let mut o = outcomes.lock().unwrap();
            for h in r.outcomes {
                o.insert(h);
                ctx.mark_outcome(h);
            }
        }
        // distinct non-trivial = mutants that survived loading: count via hash of (seed, shard, k)
        for k in 0..r.loaded {
            ctx.mark_nontrivial(H::new().u64(si as u64).u64(s as u64).u64(k).get());
        }
        for p in r.panics {
            let site = p["site"].as_str().unwrap_or("?").to_string();
            let key = format!("{}:panic:{}", prop, site);
            let mut w = p.clone();
            w["seed"] = json!(all[si].0.name);
            w["seed_index"] = json!(si);
            w["tier"] = json!(tier);
            let mut m = panics.lock().unwrap();
            m.entry(key).and_modify(|e| e.0 += 1).or_insert((1, w));
        }
        for d in r.deaths {
            let case = d["case"].as_u64().unwrap_or(0) as usize;
            let plan = faults::plan(&all[si].0.bytes, &all[si].1);
            let (region, fault) = if case < plan.len() { (faults::region(&all[si].0.bytes, &plan[case]), faults::describe(&plan[case])) } else { ("unmodified".into(), "none".into()) };
            let key = format!("{}:{}:{}", prop, d["reason"].as_str().unwrap_or("died"), d["entry"].as_str().unwrap_or("?"));
            let mut w = d.clone();
            w["seed"] = json!(all[si].0.name);
            w["fault"] = json!(fault);
            w["region"] = json!(region);
            w["tier"] = json!(tier);
            ctx.violation(&key, || w);
        }
        for m in r.machinery {
            ctx.violation(&format!("{}:machinery:worker", prop), || json!({"note": m}));
        }
        let _ = Fault::Truncate { len: 0 };
    });
    for (key, (n, w)) in panics.into_inner().unwrap() {
        let mut w = w;
        w["shards_reporting_this_site"] = json!(n);
        ctx.violation(&key, || w);
    }
    let sk = skipped.load(std::sync::atomic::Ordering::Relaxed);
    if sk > 0 {
        ctx.not_exhaustive(&format!("wall cap {}s reached: {} of {} planned mutants not run", wall_cap_s, sk, total));
    }
    let ad = after_deaths.load(std::sync::atomic::Ordering::Relaxed);
    if ad > 0 {
        ctx.not_exhaustive(&format!("{} mutants not run: their shards had already produced {} confirmed worker deaths each (reported as violations)", ad, MAX_DEATHS_PER_SHARD));
    }
    // samples: first few faults of the first seeds
    for (si, (seed, opts)) in all.iter().enumerate().take(6) {
        let plan = faults::plan(&seed.bytes, opts);
        let k = (si * 7919) % plan.len().max(1);
        if let Some(f) = plan.get(k) {
            ctx.sample(H::new().u64(si as u64).get(), || json!({"seed": seed.name, "seed_len": seed.bytes.len(), "wrap": format!("{:?}", seed.wrap), "mutant_index": k, "fault": faults::describe(f), "region": faults::region(&seed.bytes, f), "plan_size": plan.len()}));
        }
    }
}

pub fn run(ctx: &Ctx) {
    let tier = ctx.tier.name();
    ctx.set_rule(
        "case = (seed font, fault pattern) with every fault pattern of the plan enumerated: one byte/u16/u32 value fault from the \
         boundary menus at every eligible position, every truncation, every table removed/emptied/re-tagged, every pair of directory \
         records swapped, and (bound 2) coupled pairs of u16 faults on small synthetic seeds; each mutant runs the full battery of \
         ~45 public entry points; non-trivial = a mutant that still loads (FontData::read, table_provider, Font::new succeed) so that \
         the accessors behind loading are reached; distinct by (seed, fault)",
    );
    ctx.assume("value faults are drawn from boundary menus ({00,01,7F,80,FF,b+-1,b^80}, {0,1,7FFF,8000,FFFF,v+-1}, {0,1,7FFFFFFF,80000000,FFFFFFFF,v+-1,len,len+-1}), not all 2^8/2^16/2^32 values");
    ctx.assume("quick: 15 representative fixture seeds + synthetic seeds, positions restricted to the directory and the first 64 bytes of every table; thorough: every fixture <= 8 KB at every position, larger ones at table heads");
    ctx.assume(&format!("per-case watchdog {} ms of process CPU time (wall-clock fallback 30x; confirmed alone with a doubled budget), allocation cap 256 MiB + 4096 x input length", WATCHDOG_MS));
    let all = seeds(tier);
    let cap = if ctx.tier.thorough() { 1500.0 } else { 50.0 };
    sweep(ctx, "C01", "c01-worker", &all, tier, cap);
    ctx.set("bounds", json!({"simultaneous_faults": 1, "coupled_pairs_on_synthetic_seeds": true, "tier": tier}));
}

pub fn replay(w: &Value) -> Result<(), String> {
    replay_with(w, "c01-worker")
}

pub fn replay_with(w: &Value, cmd: &str) -> Result<(), String> {
    let tier = w["tier"].as_str().unwrap_or("quick");
    let si = w["seed_index"].as_u64().ok_or("no seed_index")? as usize;
    let case = w["case"].as_u64().ok_or("no case")? as usize;
    let (done, died, note) = run_worker(cmd, tier, si, case, case + 1, WATCHDOG_MS * 2);
    if let Some((_, reason, entry)) = died {
        return Err(format!("worker died: {} in {}", reason, entry));
    }
    match done {
        Some(d) => {
            let p = d["panics"].as_array().cloned().unwrap_or_default();
            if p.is_empty() {
                Ok(())
            } else {
                Err(format!("panics: {}", serde_json::to_string(&p).unwrap_or_default()))
            }
        }
        None => Err(format!("machinery: {}", note)),
    }
}
