//! Small helpers shared by the checks.
#![allow(dead_code)]

pub const REPO: &str = "/repo";

pub fn fixture(rel: &str) -> Vec<u8> {
    let p = format!("{}/tests/{}", REPO, rel);
    std::fs::read(&p).unwrap_or_else(|e| panic!("machinery: cannot read fixture {}: {}", p, e))
}
