//! Small helpers shared by the checks.
#![allow(dead_code)]

pub const REPO: &str = "/repo";

pub fn fixture(rel: &str) -> Vec<u8> {
    let p = format!("{}/tests/{}", REPO, rel);
    std::fs::read(&p).unwrap_or_else(|e| panic!("machinery: cannot read fixture {}: {}", p, e))
}

use allsorts::binary::read::ReadScope;
use allsorts::font::MatchingPresentation;
use allsorts::font_data::FontData;
use allsorts::tables::FontTableProvider;
use allsorts::Font;

/// Load a font from bytes and run `f` on it (index 0).
pub fn with_font<R>(data: &[u8], f: impl FnOnce(&mut Font<allsorts::font_data::DynamicFontTableProvider<'_>>) -> R) -> Result<R, String> {
    let fd = ReadScope::new(data).read::<FontData<'_>>().map_err(|e| format!("FontData: {:?}", e))?;
    let provider = fd.table_provider(0).map_err(|e| format!("table_provider: {:?}", e))?;
    let mut font = Font::new(provider).map_err(|e| format!("Font::new: {:?}", e))?;
    Ok(f(&mut font))
}

pub fn selftest() {
    let data = otmodel::tables::minimal_font(4, &[(0x41, 1), (0x42, 2), (0x1F600, 3)], &[]);
    assert!(otmodel::sfnt::validate(&data).is_empty(), "{:?}", otmodel::sfnt::validate(&data));
    let r = with_font(&data, |font| {
        let a = font.lookup_glyph_index('A', MatchingPresentation::NotRequired, None).0;
        let e = font.lookup_glyph_index('\u{1F600}', MatchingPresentation::NotRequired, None).0;
        let z = font.lookup_glyph_index('Z', MatchingPresentation::NotRequired, None).0;
        let adv = font.horizontal_advance(2);
        let _ = font.font_table_provider.has_table(allsorts::tag::GLYF);
        (a, e, z, adv)
    });
    println!("selftest: {:?}", r);
    assert_eq!(r, Ok((1, 3, 0, Some(520))));
}
