//! Small helpers shared by the checks.
#![allow(dead_code)]

pub const REPO: &str = "/repo";

pub fn fixture(rel: &str) -> Vec<u8> {
    let p = format!("{}/tests/{}", REPO, rel);
    std::fs::read(&p).unwrap_or_else(|e| panic!("machinery: cannot read fixture {}: {}", p, e))
}

use allsorts::binary::read::ReadScope;
use allsorts::font::MatchingPresentation;
use allsorts::font_data::FontData;
use allsorts::tables::FontTableProvider;
use allsorts::Font;

/// Load a font from bytes and run `f` on it (index 0).
pub fn with_font<R>(data: &[u8], f: impl FnOnce(&mut Font<allsorts::font_data::DynamicFontTableProvider<'_>>) -> R) -> Result<R, String> {
    let fd = ReadScope::new(data).read::<FontData<'_>>().map_err(|e| format!("FontData: {:?}", e))?;
    let provider = fd.table_provider(0).map_err(|e| format!("table_provider: {:?}", e))?;
    let mut font = Font::new(provider).map_err(|e| format!("Font::new: {:?}", e))?;
    Ok(f(&mut font))
}

pub fn selftest() {
    let data = otmodel::tables::minimal_font(4, &[(0x41, 1), (0x42, 2), (0x1F600, 3)], &[]);
    assert!(otmodel::sfnt::validate(&data).is_empty(), "{:?}", otmodel::sfnt::validate(&data));
    let r = with_font(&data, |font| {
        let a = font.lookup_glyph_index('A', MatchingPresentation::NotRequired, None).0;
        let e = font.lookup_glyph_index('\u{1F600}', MatchingPresentation::NotRequired, None).0;
        let z = font.lookup_glyph_index('Z', MatchingPresentation::NotRequired, None).0;
        let adv = font.horizontal_advance(2);
        let _ = font.font_table_provider.has_table(allsorts::tag::GLYF);
        (a, e, z, adv)
    });
    println!("selftest: {:?}", r);
    assert_eq!(r, Ok((1, 3, 0, Some(520))));
}

/// Big5 reference, independent of `allsorts::big5`: the WHATWG Big5 index as shipped by the `encoding_rs` crate, reached
/// through its whole-string API (allsorts uses the streaming encoder/decoder objects). Trusted data, like `flate2`.
pub mod big5ref {
    use encoding_rs::BIG5;

    /// The Big5 code of a character: one byte for ASCII, two bytes (big endian) otherwise; None when Big5 has no code.
    pub fn encode(c: char) -> Option<u16> {
        let mut buf = [0u8; 4];
        let s: &str = c.encode_utf8(&mut buf);
        let (bytes, _, had_errors) = BIG5.encode(s);
        if had_errors {
            return None;
        }
        match bytes.len() {
            1 => Some(bytes[0] as u16),
            2 => Some(u16::from_be_bytes([bytes[0], bytes[1]])),
            _ => None,
        }
    }

    /// The characters a Big5 code stands for (ASCII for one-byte codes below 0x80; four codes decode to a base letter plus
    /// a combining mark); None when the code is unassigned or malformed.
    pub fn decode(code: u16) -> Option<Vec<char>> {
        if code < 0x80 {
            return Some(vec![code as u8 as char]);
        }
        if code < 0x100 {
            return None;
        }
        let bytes = code.to_be_bytes();
        BIG5.decode_without_bom_handling_and_without_replacement(&bytes).map(|s| s.chars().collect())
    }
}
